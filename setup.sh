#!/bin/bash
# Build /verif/.venv offline: a venv over /venv (the repository's interpreter + deps) plus
# crosshair-tool and z3-solver from the wheelhouse.  Idempotent; safe to call concurrently.
set -e
cd "$(dirname "$0")"
export PIP_NO_INDEX=1
if [ -x .venv/bin/python ] && .venv/bin/python -c "import crosshair, z3, mitmproxy" 2>/dev/null; then
  PYTHONPATH="$PWD" .venv/bin/python -m vf.selfcheck >/dev/null || { echo "engine selfcheck failed" >&2; exit 3; }
  exit 0
fi
(
  flock 9
  if [ -x .venv/bin/python ] && .venv/bin/python -c "import crosshair, z3, mitmproxy" 2>/dev/null; then
    exit 0
  fi
  rm -rf .venv
  /venv/bin/python -m venv .venv
  SP=$(.venv/bin/python -c "import sysconfig; print(sysconfig.get_paths()['purelib'])")
  printf "import site; site.addsitedir('/venv/lib/python3.12/site-packages')\n/repo\n" > "$SP/_overlay.pth"
  .venv/bin/python -m pip install -q --no-index --find-links /opt/veriftools/wheels crosshair-tool z3-solver >/dev/null
  .venv/bin/python -c "import crosshair, z3, mitmproxy; print('verif venv ready: crosshair', crosshair.__version__, 'z3', z3.get_version_string())"
  PYTHONPATH="$PWD" .venv/bin/python -m vf.selfcheck
) 9>.venv.lock
