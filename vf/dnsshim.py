"""Shims that let mitmproxy's DNS code (mitmproxy.dns, net.dns.domain_names, net.dns.https_records,
proxy.layers.dns) run on vf.symbytes.SymBytes buffers with symbolic octets.  Used by C25/C26/C27.

Everything here replaces a *C-level* consumer (struct, bytearray, bytes(), dict hashing, the idna
codec) by a model with the same contract; no mitmproxy logic is modelled.  The shims are installed
only for symbolic runs: a concrete replay (`X.symbolic == False`) executes the unmodified modules.

  BStruct         struct.Struct model; a symbolic offset is range-checked symbolically *before* it is
                  concretised, so a 14-bit compression pointer forks into {each in-range target,
                  out of range} instead of 16384 values.  Counts label-walk steps (termination).
  SymByteArray    bytearray lookalike holding symbolic octets (slice assignment, extend, del).
  SymKeyDict      dict model for keys that may be symbolic: lookups compare keys with `==` (fork on
                  the equality pattern only) instead of hashing (which would enumerate values).
  idna model      `.decode("idna")` on a label with symbolic octets, see `_decode`.
"""
from __future__ import annotations

import builtins
import contextlib
import struct as _struct

from . import symbytes, symx
from .symbytes import SymBytes
from .symx import SymInt


class StepLimit(Exception):
    pass


class _Steps:
    n = 0
    limit = None


STEPS = _Steps()


class BStruct(symbytes.Struct):
    count_steps = False

    def unpack_from(self, b, offset=0):
        if self.count_steps:
            STEPS.n += 1
            if STEPS.limit is not None and STEPS.n > STEPS.limit:
                raise symx.Violation("C25/decode/non-termination", f"more than {STEPS.limit} label-walk steps")
        if isinstance(b, SymBytes) and type(offset) is SymInt:
            if offset + self.size > len(b):  # symbolic comparison: forks, no enumeration
                raise _struct.error(
                    f"unpack_from requires a buffer of at least <sym> bytes for unpacking {self.size} bytes (actual buffer size is {len(b)})")
        return super().unpack_from(b, offset)


class _StepStruct(BStruct):
    count_steps = True


class SymByteArray(SymBytes):
    def __setitem__(self, k, v):
        if isinstance(k, slice):
            k = slice(*(symx.concretize(x) if x is not None else None for x in (k.start, k.stop, k.step)))
            self.items[k] = list(v)
        else:
            self.items[symx.concretize(k)] = v

    def __getitem__(self, k):
        r = super().__getitem__(k)
        return r

    def __iadd__(self, o):
        self.items.extend(list(o))
        return self


def sbytearray(x=b"", *a):
    if a:
        return builtins.bytearray(x, *a)
    if isinstance(x, int):
        return SymByteArray([0] * x)
    return SymByteArray(list(x))


def sbytes(x=b"", *a):
    if a:
        return builtins.bytes(x, *a)
    if isinstance(x, SymBytes):
        c = x.concrete()
        return c if c is not None else SymBytes(x.items)
    if isinstance(x, (list, tuple)) and any(type(i) is SymInt for i in x):
        return SymBytes(x)
    return builtins.bytes(x)


class SymKeyDict:
    """insertion-ordered mapping; key lookup by `==` (symbolic keys fork on equal / not equal)"""

    def __init__(self):
        self._k = []
        self._v = []

    def _find(self, key):
        for i, k in enumerate(self._k):
            if k is key or k == key:
                return i
        return -1

    def __contains__(self, key):
        return self._find(key) >= 0

    def __getitem__(self, key):
        i = self._find(key)
        if i < 0:
            raise KeyError("<key>")
        return self._v[i]

    def __setitem__(self, key, value):
        i = self._find(key)
        if i < 0:
            self._k.append(key)
            self._v.append(value)
        else:
            self._v[i] = value

    def get(self, key, default=None):
        i = self._find(key)
        return default if i < 0 else self._v[i]

    def pop(self, key, *default):
        i = self._find(key)
        if i < 0:
            if default:
                return default[0]
            raise KeyError("<key>")
        self._k.pop(i)
        return self._v.pop(i)

    def __delitem__(self, key):
        self.pop(key)

    def __len__(self):
        return len(self._k)

    def __iter__(self):
        return iter(list(self._k))

    def keys(self):
        return list(self._k)

    def values(self):
        return list(self._v)

    def items(self):
        return list(zip(self._k, self._v))


ACE = b"xn--"
_MISSING = object()


def _or(a, b):
    if a is True or b is True:
        return True
    if a is False:
        return b
    if b is False:
        return a
    return a | b


def _and(a, b):
    if a is False or b is False:
        return False
    if a is True:
        return b
    if b is True:
        return a
    return a & b


def _eqc(x, c):
    r = x == c
    return bool(r) if not isinstance(r, symx.SymBool) else r


def idna_class(label: bytes):
    """what the model below predicts for a concrete label (used by the validation step):
    ("ace",) | ("error",) | ("ok", has_empty_part, has_dot, length)"""
    if ACE in label:
        return ("ace",)
    if any(b >= 0x80 for b in label):
        return ("error",)
    parts = label.split(b".")
    return ("ok", any(len(p) == 0 for p in parts), len(parts) > 1, len(label))


def _decode(self, encoding="utf-8", errors="strict"):
    """SymBytes.decode replacement.  Concrete content: the real codec.  Symbolic label content with
    encoding "idna": contract model of CPython's encodings.idna.Codec.decode for inputs that do not
    contain the ACE prefix b"xn--" (such inputs are excluded by an assumption on the path — ACE labels
    are covered with concrete octets by the label-menu obligations):
      * any octet >= 0x80  -> UnicodeDecodeError        (ToUnicode -> str(label, "ascii"))
      * otherwise          -> ASCII text of the same length.  What mitmproxy later does with the text
        (join with '.', len(), domain_names.pack = split on '.' + per-part idna encode) depends only on
        the length and on where the '.' octets create empty parts, so the text is a representative of
        its class: no '.' -> "aaa"; only interior, non-adjacent '.' -> "a.aa"; otherwise (leading,
        trailing or adjacent '.', i.e. an empty part) -> ".aaa".
    One fork per class instead of one per octet value.
    """
    c = self.concrete()
    if c is not None:
        return c.decode(encoding, errors)
    if encoding != "idna":
        return self.realize().decode(encoding, errors)
    it = self.items
    n = len(it)
    ace = False
    for i in range(n - 3):
        m = True
        for j in range(4):
            m = _and(m, _eqc(it[i + j], ACE[j]))
        ace = _or(ace, m)
    if ace is not False:
        symx.Explorer(symx.ST).assume(symx.lnot(ace))
    high = False
    for b in it:
        high = _or(high, (b >= 0x80) if type(b) is SymInt else bool(b >= 0x80))
    if high:
        raise UnicodeDecodeError("idna", b"", 0, 1, "model: non-ASCII octet in label")
    dots = [_eqc(b, 0x2E) for b in it]
    empty = _or(dots[0], dots[-1])
    for i in range(n - 1):
        empty = _or(empty, _and(dots[i], dots[i + 1]))
    if empty:
        return "." + "a" * (n - 1)
    anydot = False
    for d in dots:
        anydot = _or(anydot, d)
    if anydot:
        return "a." + "a" * (n - 2)
    return "a" * n


@contextlib.contextmanager
def installed(symbolic=True, *, step_limit=None, flows_of=None):
    """install the shims into the DNS modules' globals for the duration of one harness path"""
    if not symbolic:
        yield
        return
    from mitmproxy import dns
    from mitmproxy.net.dns import domain_names, https_records
    from mitmproxy.proxy.layers import dns as dns_layer

    saved = []

    def setg(obj, name, val):
        saved.append((obj, name, obj.__dict__.get(name, _MISSING)))
        setattr(obj, name, val)

    STEPS.n = 0
    STEPS.limit = step_limit
    try:
        setg(dns.DNSMessage, "HEADER", BStruct(dns.DNSMessage.HEADER.format))  # formats are read from the code under test
        setg(dns.Question, "HEADER", BStruct(dns.Question.HEADER.format))
        setg(dns.ResourceRecord, "HEADER", BStruct(dns.ResourceRecord.HEADER.format))
        setg(domain_names, "_LABEL_SIZE", _StepStruct(domain_names._LABEL_SIZE.format))
        setg(domain_names, "_POINTER_OFFSET", BStruct(domain_names._POINTER_OFFSET.format))
        setg(dns_layer, "_LENGTH_LABEL", BStruct(dns_layer._LENGTH_LABEL.format))
        for m in (dns, domain_names, https_records, dns_layer):
            setg(m, "bytearray", sbytearray)
            setg(m, "bytes", sbytes)
        setg(https_records, "struct", symbytes.struct_module)
        setg(dns_layer, "struct", symbytes.struct_module)
        setg(domain_names, "cache", SymKeyDict)
        setg(SymBytes, "decode", _decode)
        yield
    finally:
        for obj, name, old in reversed(saved):
            if old is _MISSING:
                try:
                    delattr(obj, name)
                except AttributeError:
                    pass
            else:
                setattr(obj, name, old)
        STEPS.limit = None


def mkbuf(symbolic, items):
    """buffer from octet items: SymBytes for symbolic runs, real bytes for concrete replays"""
    items = list(items)
    if symbolic:
        return SymBytes(items)
    return builtins.bytes(items)


def validate_models():
    """validation step: the idna model agrees with the real codec on every 1- and 2-octet label and
    on a structured sample of longer ones; BStruct agrees with struct."""
    n = symbytes.selfcheck()

    def real(label):
        try:
            t = label.decode("idna")
        except UnicodeDecodeError:
            return ("error",)
        parts = t.split(".")
        return ("ok", any(len(p) == 0 for p in parts), len(parts) > 1, len(t))

    import itertools

    for ln in (1, 2):
        for t in itertools.product(range(256), repeat=ln):
            lab = builtins.bytes(t)
            assert real(lab) == idna_class(lab), lab
            n += 1
    alpha = [0x00, 0x2D, 0x2E, 0x41, 0x58, 0x61, 0x6E, 0x78, 0x7F, 0x80, 0xC0, 0xFF]
    for ln in (3, 4, 5):
        for t in itertools.product(alpha, repeat=ln):
            lab = builtins.bytes(t)
            m = idna_class(lab)
            if m == ("ace",):
                continue
            assert real(lab) == m, lab
            n += 1
    return n


def make_driver(layer, ctx):
    """sansio.Driver that records SendData payloads as they are (possibly SymBytes) instead of copying
    them into a bytearray (which would enumerate every symbolic octet)"""
    from mitmproxy.proxy import commands
    from . import sansio

    class SymDriver(sansio.Driver):
        def __init__(self, l, c):
            super().__init__(l, c)
            self.raw = []  # (connection, payload) in order

        def _exec(self, cmd):
            if isinstance(cmd, commands.SendData):
                self.trace.append(cmd)
                self.raw.append((cmd.connection, cmd.data))
                return
            super()._exec(cmd)

        def raw_to(self, conn):
            return [d for c, d in self.raw if c is conn]

    return SymDriver(layer, ctx)
