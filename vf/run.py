"""CLI: python -m vf.run <ID> [--tier quick|thorough] [--replay <path>] [--only <obligation>]

Runs every obligation of props/<ID>.py against /repo's current working tree, confirms each
counterexample by a concrete replay, filters known findings, writes evidence/<ID>.json.

exit 0  property held on everything explored (KNOWN-FINDING lines may be printed)
exit 1  VIOLATION property=<ID> replay=<path>  (confirmed, not a listed known finding)
exit 3  the machinery could not run soundly (broken/vacuous harness, anchor missing, engine artefact)
"""
from __future__ import annotations

import argparse
import concurrent.futures as cf
import fnmatch
import hashlib
import importlib
import inspect
import json
import multiprocessing as mp
import os
import sys
import time
import traceback

ROOT = os.path.dirname(os.path.dirname(os.path.abspath(__file__)))
sys.path.insert(0, ROOT)

from vf import ob as obmod  # noqa: E402
from vf import symx  # noqa: E402

REPO = os.environ.get("VERIF_REPO", "/repo")


def load_known(pid):
    p = os.path.join(ROOT, "known_findings.json")
    known, fixed = [], []
    if os.path.exists(p):
        for f in json.load(open(p)).get("findings", []):
            if f.get("property") != pid:
                continue
            (known if f.get("status") == "known" else fixed).append(f)
    return known, fixed


def match_known(key, known):
    for f in known:
        if fnmatch.fnmatchcase(key, f["key"]):
            return f
    return None


def src_hashes(encoded):
    """hash the source of every encoded function (qualified names resolved in /repo's modules)"""
    out = {}
    for q in encoded:
        try:
            modname, _, attr = q.partition(":")
            m = importlib.import_module(modname)
            o = m
            for part in attr.split("."):
                if part:
                    o = getattr(o, part)
            o = getattr(o, "__wrapped__", o)
            if isinstance(o, property):
                o = o.fget
            src = inspect.getsource(o)
            out[q] = hashlib.sha256(src.encode()).hexdigest()[:12]
        except Exception as e:  # noqa
            out[q] = f"unresolved ({type(e).__name__})"
    return out


def _run_ob(args):
    pid, tier, name, known_keys, seed = args
    mod = importlib.import_module(f"props.{pid}")
    for o in mod.obligations(tier):
        if o.name == name:
            if tier == "thorough" and isinstance(o, obmod.Symx) and o.budget_s is None:
                # every thorough obligation ends: what is not exhausted within the budget is reported as inconclusive
                # (paths explored so far are in the evidence; nothing is claimed for the rest)
                o.budget_s = float(os.environ.get("VERIF_THOROUGH_BUDGET_S", "1500"))
            try:
                return o.run(known_keys, seed).as_dict()
            except Exception:  # noqa
                r = obmod.ObResult(o)
                r.errors.append(traceback.format_exc()[-3000:])
                return r.as_dict()
    raise KeyError(name)


def write_replay(pid, obname, rec):
    d = os.path.join(ROOT, "replays", pid)
    os.makedirs(d, exist_ok=True)
    h = hashlib.sha256(json.dumps([obname, rec["key"], rec["values"]], sort_keys=True, default=str).encode()).hexdigest()[:10]
    path = os.path.join(d, f"{obname}-{h}.json")
    with open(path, "w") as f:
        json.dump({"property": pid, "obligation": obname, "key": rec["key"], "msg": rec["msg"], "values": rec["values"],
                   "witness": rec.get("witness", {})}, f, indent=1, default=str)
    return path


def do_replay(pid, path):
    rec = json.load(open(path))
    mod = importlib.import_module(f"props.{pid}")
    for tier in ("thorough", "quick"):
        for o in mod.obligations(tier):
            if o.name != rec["obligation"]:
                continue
            if isinstance(o, obmod.Symx):
                kind, exc = o.replay(rec["values"])
                print(f"replay {pid}/{o.name}: {kind} {exc if exc else ''}")
                if kind == "crash":
                    traceback.print_exception(type(exc), exc, exc.__traceback__)
                return 1 if kind in ("violation", "crash") else 0
            if isinstance(o, obmod.Chx):
                from vf import chx

                args, kwargs = chx.parse_call("when calling f(*%s, **%s)" % (rec["values"]["args_repr"], rec["values"]["kwargs_repr"]), o.file)
                ok, detail = chx.replay(o.file, o.fn, args, kwargs)
                print(f"replay {pid}/{o.name}: {'violation' if ok else 'ok'} {detail}")
                return 1 if ok else 0
            if isinstance(o, obmod.Smt):
                for q in o.build():
                    if q.key == rec["key"] and q.replay:
                        ok, detail = q.replay(rec["values"]["witness"])
                        print(f"replay {pid}/{o.name}: {'violation' if ok else 'ok'} {detail}")
                        return 1 if ok else 0
    print("obligation not found for replay")
    return 3


def main(argv=None):
    ap = argparse.ArgumentParser()
    ap.add_argument("pid")
    ap.add_argument("--tier", default=os.environ.get("VERIF_TIER", "quick"), choices=["quick", "thorough"])
    ap.add_argument("--replay")
    ap.add_argument("--only", action="append")
    ap.add_argument("--serial", action="store_true")
    a = ap.parse_args(argv)
    pid = a.pid
    seed = int(os.environ.get("VERIF_SEED", "0") or 0)
    if a.replay:
        return do_replay(pid, a.replay)
    t0 = time.time()
    try:
        from vf import selfcheck

        engine_selfcheck = selfcheck.ensure()
    except Exception as e:  # noqa
        print(f"HARNESS-ERROR engine selfcheck failed: {e}", file=sys.stderr)
        return 3
    mod = importlib.import_module(f"props.{pid}")
    obs = mod.obligations(a.tier)
    if a.only:
        obs = [o for o in obs if o.name in a.only]
    known, fixed = load_known(pid)
    known_keys = [f["key"] for f in known]
    results = []
    jobs = [(pid, a.tier, o.name, known_keys, seed) for o in obs]
    if a.serial or len(jobs) == 1:
        results = [_run_ob(j) for j in jobs]
    else:
        # obligations run concurrently; share the cores between them instead of oversubscribing
        # (starved z3 queries hit their wall-clock time-out and would make paths inconclusive)
        ncpu = int(os.environ.get("VERIF_PROCS", "16"))
        nconc = min(len(jobs), int(os.environ.get("VERIF_OB_PROCS", "8")))
        obmod.NPROC = max(2, (2 * ncpu) // nconc) if nconc > 1 else ncpu
        obmod.NPROC = min(obmod.NPROC, ncpu)
        ctx = mp.get_context("fork")
        with cf.ProcessPoolExecutor(max_workers=min(len(jobs), int(os.environ.get("VERIF_OB_PROCS", "8"))), mp_context=ctx) as ex:
            results = list(ex.map(_run_ob, jobs))

    exit_code = 0
    lines = []
    n_viol = 0
    known_hit = {}
    encoded = []
    for r in results:
        encoded += r["encoded"]
        for v in r["violations"]:
            f = match_known(v["key"], known)
            if f is not None:
                known_hit.setdefault(f["key"], (f, v, r["name"]))
            else:
                n_viol += 1
                path = write_replay(pid, r["name"], v)
                lines.append(f"VIOLATION property={pid} replay={path}")
                print(f"  [{r['name']}] {v['key']}: {v['msg']}"[:600])
                print(f"  witness: {json.dumps(v['values'], default=str)[:600]}")
                exit_code = 1
        if r["status"] == "error":
            for e in r["errors"]:
                print(f"HARNESS-ERROR {pid}/{r['name']}: {e}", file=sys.stderr)
            if exit_code == 0:
                exit_code = 3
    for k, (f, v, obname) in known_hit.items():
        print(f"KNOWN-FINDING: property={pid} {f['what']} [key={k}; witness {json.dumps(v['values'], default=str)[:200]}]")
    for ln in lines:
        print(ln)

    statuses = [r["status"] for r in results]
    deciding = [r for r in results if r["engine"] != "validation"]
    n_ob = len(deciding)
    n_dis = sum(1 for r in deciding if r["status"] == "discharged" or (r["status"] == "violated" and all(match_known(v["key"], known) for v in r["violations"]) and r["extra"].get("tree_exhausted", r["engine"] != "symx")))
    level_claim = getattr(mod, "LEVEL", "model_checking")
    all_dis = n_ob > 0 and all(r["status"] in ("discharged",) or (r["status"] == "violated" and r["extra"].get("tree_exhausted", True) and all(match_known(v["key"], known) for v in r["violations"])) for r in deciding)
    # The evidence is written for the level claimed in MANIFEST.json; whether THIS run exhausted every obligation is
    # stated separately (coverage.exhaustive, obligations vs discharged, inconclusive_obligations) and never hidden.
    level = level_claim
    paths = sum(r["paths"] for r in deciding)
    nontriv = sum(r["nontrivial"] for r in deciding)
    samples = []
    for r in deciding:
        for s in r["samples"][:3]:
            samples.append({"obligation": r["name"], **(s if isinstance(s, dict) else {"case": s})})
    ev = {
        "property_id": pid,
        "tier": a.tier,
        "seed": seed,
        "level": level,
        "coverage": {
            "evaluations": max(paths, 1),
            "distinct_nontrivial": nontriv,
            "rule": getattr(mod, "RULE", "each evaluation is one feasible execution path (a distinct path-condition class decided by z3) of the real "
                            "mitmproxy code under the harness; non-trivial = the path reached the mechanism under test (reach labels) / "
                            "one SMT query / one CrossHair path"),
            "samples": samples[:12] or [{"note": "no samples"}],
            "states": max(paths, 1),
            "transitions": max(sum(r["queries"] for r in deciding), 1),
            "traces_validated_against_impl": paths,
            "obligations": n_ob,
            "discharged": n_dis,
            "checker_cmd": f"./check {pid} --tier {a.tier}",
            "trusted_base": getattr(mod, "TRUSTED", []) + ["z3 4.x (z3-solver wheel)", "CPython 3.12", "vf.symx / CrossHair 0.0.110 engine code"],
            "exhaustive": bool(all_dis),
            "inconclusive_obligations": [r["name"] for r in deciding if r["status"] == "inconclusive"],
            "explanation": getattr(mod, "__doc__", "") or "",
            "bounds": {r["name"]: r["bounds"] for r in results},
            "outside_claim": getattr(mod, "OUTSIDE", []),
            "functions_encoded": src_hashes(sorted(set(encoded))),
            "stubs": sorted({s for r in results for s in r.get("stubs", [])}),
            "obligation_results": [
                {k: r[k] for k in ("name", "engine", "status", "paths", "nontrivial", "queries", "solver_s", "wall_s", "reached", "inconclusive", "extra")}
                | {"violations": [{"key": v["key"], "msg": v["msg"][:300], "known": bool(match_known(v["key"], known))} for v in r["violations"]],
                   "errors": [e[-500:] for e in r["errors"]]}
                for r in results
            ],
            "engine_selfcheck": engine_selfcheck,
            "solver_time_s": round(sum(r["solver_s"] for r in results), 3),
            "known_findings_printed": sorted(known_hit),
            "fixed_findings": [f.get("what") for f in fixed],
        },
        "assumptions": getattr(mod, "ASSUMPTIONS", []),
        "wall_s": round(time.time() - t0, 3),
        "violations": n_viol,
    }
    # (tools/seeded.sh points this elsewhere: a run against a deliberately broken overlay must not replace the evidence of the real tree)
    evdir = os.environ.get("VERIF_EVIDENCE_DIR") or os.path.join(ROOT, "evidence")
    os.makedirs(evdir, exist_ok=True)
    with open(os.path.join(evdir, f"{pid}.json"), "w") as f:
        json.dump(ev, f, indent=1, default=str)
    summary = ", ".join(f"{r['name']}={r['status']}({r['paths']}p/{r['wall_s']}s)" for r in results)
    if not all_dis:
        print(f"NOTE {pid}: not every obligation was exhausted in this run (inconclusive: {[r['name'] for r in deciding if r['status'] == 'inconclusive']}); nothing is claimed for them")
    print(f"{pid} [{a.tier}] level={level} exhaustive={bool(all_dis)} obligations={n_ob} discharged={n_dis} violations={n_viol} wall={ev['wall_s']}s :: {summary}")
    return exit_code


if __name__ == "__main__":
    sys.exit(main())
