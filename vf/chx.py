"""CrossHair driver helpers: counterexample parsing and concrete replay (no tracing)."""
import ast
import importlib.util
import os
import sys
import traceback

_MODS = {}


def load(file):
    file = os.path.abspath(file)
    if file not in _MODS:
        spec = importlib.util.spec_from_file_location("vf_harness_" + os.path.basename(file)[:-3], file)
        mod = importlib.util.module_from_spec(spec)
        sys.modules[spec.name] = mod
        spec.loader.exec_module(mod)
        _MODS[file] = mod
    return _MODS[file]


def parse_call(message, file):
    """'false when calling f(1, s="x") (which returns False)' -> ([1], {'s': 'x'})"""
    i = message.find("when calling ")
    if i < 0:
        raise ValueError("no call in message")
    text = message[i + len("when calling "):]
    cands = [text]
    j = len(text)
    while True:
        j = text.rfind(" (which returns ", 0, j)
        if j < 0:
            break
        cands.append(text[:j])
    k = len(text)
    while True:
        k = text.rfind(" with ", 0, k)
        if k < 0:
            break
        cands.append(text[:k])
    node = None
    for c in sorted(set(cands), key=len, reverse=True):
        try:
            n = ast.parse(c.strip(), mode="eval").body
        except SyntaxError:
            continue
        if isinstance(n, ast.Call):
            node = n
            break
    if node is None:
        raise ValueError("cannot parse call expression")
    ns = dict(vars(load(file)))
    ev = lambda x: eval(compile(ast.Expression(x), "<ce>", "eval"), ns)  # noqa
    # `f(*[...], **{...})` is how run.py --replay re-renders a stored counterexample
    args, kwargs = [], {}
    for a in node.args:
        if isinstance(a, ast.Starred):
            args.extend(ev(a.value))
        else:
            args.append(ev(a))
    for k in node.keywords:
        if k.arg is None:
            kwargs.update(ev(k.value))
        else:
            kwargs[k.arg] = ev(k.value)
    return args, kwargs


def replay(file, fn_name, args, kwargs):
    """native call; property violated iff the function returns falsy or raises.
    returns (reproduced, detail)"""
    fn = getattr(load(file), fn_name)
    try:
        r = fn(*args, **kwargs)
    except Exception as e:  # noqa
        return True, "raised " + "".join(traceback.format_exception_only(type(e), e)).strip()[:300]
    if not r:
        return True, f"returned {r!r}"
    return False, f"returned {r!r} natively (not reproduced)"
