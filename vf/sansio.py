"""Sans-io driver for mitmproxy proxy layers (the role `server.ConnectionHandler` plays in production,
minus asyncio and sockets).  The harness decides — through solver-enumerated selectors — which event
arrives next, when each hook completes, whether OpenConnection fails and what an "addon" does.

Connection state flags are maintained exactly as `mitmproxy/proxy/server.py` does
(`open_connection`, `handle_connection`, `close_connection`).
"""
from __future__ import annotations

from mitmproxy import connection, options
from mitmproxy.connection import ConnectionState
from mitmproxy.proxy import commands, context, events, layer

_OPTS = None


def make_options(**kw):
    """Options with the proxyserver/core addon options loaded (same defaults as a running proxy)."""
    from mitmproxy.addons import core, next_layer, proxyserver, tlsconfig, dns_resolver

    o = options.Options()
    for addon in (core.Core(), proxyserver.Proxyserver(), next_layer.NextLayer(), tlsconfig.TlsConfig(), dns_resolver.DnsResolver()):
        try:
            from mitmproxy.addonmanager import Loader

            class _M:
                options = o
                commands = None

            addon.load(Loader(_M()))
        except Exception:  # noqa
            pass
    if kw:
        o.update(**kw)
    return o


def make_context(opts=None, *, mode="regular", peername=("192.0.2.10", 51234), sockname=("127.0.0.1", 8080), transport="tcp"):
    from mitmproxy.proxy import mode_specs

    c = connection.Client(
        peername=peername,
        sockname=sockname,
        timestamp_start=1700000000.0,
        state=ConnectionState.OPEN,
        transport_protocol=transport,
    )
    c.proxy_mode = mode_specs.ProxyMode.parse(mode)
    return context.Context(c, opts or make_options())


class Driver:
    """Feeds events into `layer`, executes its commands, records everything observable.

    Customisation points (override or assign):
      on_hook(hook)            called when a StartHook command is seen. Return True to complete it
                               immediately (default), False to withhold the completion (intercept);
                               withheld hooks are in `self.pending_hooks` and completed by `complete_hook`.
      on_open(cmd) -> err|None decide the outcome of OpenConnection (default: success).
    """

    def __init__(self, top_layer: layer.Layer, ctx: context.Context):
        self.layer = top_layer
        self.ctx = ctx
        self.client = ctx.client
        self.sent = {}  # connection -> bytearray of everything written to it
        self.sent_log = []  # (connection, bytes) in order
        self.hooks = []  # (name, data) in order of StartHook
        self.hook_names = []
        self.opened = []  # connections for which OpenConnection was issued
        self.closed = []  # (connection, half_close) CloseConnection commands
        self.logs = []
        self.wakeups = []
        self.pending_hooks = []
        self.pending_opens = []
        self.trace = []  # every command in order
        self.on_hook = lambda hook: True
        self.on_open = lambda cmd: None
        self.defer_open = False
        self._queue = []
        self._running = False

    # -- event input
    def start(self):
        self.feed(events.Start())

    def feed(self, ev):
        self._queue.append(ev)
        if self._running:
            return
        self._running = True
        try:
            while self._queue:
                e = self._queue.pop(0)
                for cmd in self.layer.handle_event(e):
                    self._exec(cmd)
        finally:
            self._running = False

    def data(self, conn, data: bytes):
        self.feed(events.DataReceived(conn, data))

    def close(self, conn, *, half=None):
        """peer closed `conn` (TCP FIN): mirrors server.handle_connection"""
        if conn.state is ConnectionState.CLOSED:
            return
        if conn.transport_protocol == "tcp":
            conn.state &= ~ConnectionState.CAN_READ
        else:
            conn.state = ConnectionState.CLOSED
        self.feed(events.ConnectionClosed(conn))

    def complete_hook(self, hook=None):
        if hook is None:
            hook = self.pending_hooks[0]
        self.pending_hooks.remove(hook)
        self.feed(events.HookCompleted(hook))

    def complete_open(self, cmd=None, err=None):
        if cmd is None:
            cmd = self.pending_opens[0]
        self.pending_opens.remove(cmd)
        self._finish_open(cmd, err)

    def wakeup(self, cmd=None):
        if cmd is None:
            cmd = self.wakeups.pop(0)
        else:
            self.wakeups.remove(cmd)
        self.feed(events.Wakeup(cmd))

    # -- command execution
    def _finish_open(self, cmd, err):
        if err is None:
            cmd.connection.state = ConnectionState.OPEN
            cmd.connection.timestamp_start = 1700000001.0
            if not cmd.connection.peername:
                cmd.connection.peername = cmd.connection.address
            cmd.connection.sockname = ("127.0.0.1", 40000 + len(self.opened))
        else:
            cmd.connection.error = err
        self.feed(events.OpenConnectionCompleted(cmd, err))

    def _exec(self, cmd):
        self.trace.append(cmd)
        if isinstance(cmd, commands.StartHook):
            (data,) = cmd.args() if len(cmd.args()) == 1 else (cmd.args(),)
            self.hooks.append((cmd.name, data))
            self.hook_names.append(cmd.name)
            if self.on_hook(cmd):
                self.feed(events.HookCompleted(cmd))
            else:
                self.pending_hooks.append(cmd)
        elif isinstance(cmd, commands.OpenConnection):
            self.opened.append(cmd.connection)
            if self.defer_open:
                self.pending_opens.append(cmd)
            else:
                self._finish_open(cmd, self.on_open(cmd))
        elif isinstance(cmd, commands.SendData):
            if cmd.connection.state & ConnectionState.CAN_WRITE or cmd.connection is self.client:
                self.sent.setdefault(cmd.connection, bytearray()).extend(cmd.data)
                self.sent_log.append((cmd.connection, bytes(cmd.data)))
        elif isinstance(cmd, commands.CloseConnection):
            half = getattr(cmd, "half_close", False)
            self.closed.append((cmd.connection, half))
            if half:
                if cmd.connection.state & ConnectionState.CAN_WRITE:
                    cmd.connection.state &= ~ConnectionState.CAN_WRITE
            else:
                cmd.connection.state = ConnectionState.CLOSED
        elif isinstance(cmd, commands.Log):
            self.logs.append((cmd.level, cmd.message))
        elif isinstance(cmd, commands.RequestWakeup):
            self.wakeups.append(cmd)
        else:
            self.other(cmd)

    def other(self, cmd):
        raise RuntimeError(f"unexpected command {cmd!r}")

    # -- observation helpers
    def sent_to(self, conn) -> bytes:
        return bytes(self.sent.get(conn, b""))

    def servers(self):
        return list(self.opened)

    def hooks_named(self, name):
        return [d for n, d in self.hooks if n == name]
