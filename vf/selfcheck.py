"""Translator validation for vf.symx / vf.symbytes: push concrete vectors through the symbolic
operators (operands hidden behind solver symbols, so z3 — not Python — computes the result) and compare
with Python's own integer semantics.  Run by vf.run once per check; a mismatch is exit 3."""
import operator

from . import symx, symbytes

_VALS = [0, 1, 2, 3, 7, 8, 127, 128, 255, 256, 65535, 65536, 2**31 - 1, 2**31, 2**32 - 1, 2**32, 2**63, 2**64 - 1, 2**127 + 5]
_NEG = [-1, -2, -128, -129, -(2**31), -(2**40)]
_BIN_ANY = [operator.add, operator.sub, operator.mul]
_BIN_NONNEG = [operator.and_, operator.or_, operator.xor, operator.floordiv, operator.mod]
_CMP = [operator.lt, operator.le, operator.gt, operator.ge, operator.eq, operator.ne]


def run():
    cases = []
    for a in _VALS + _NEG:
        for b in (_VALS + _NEG)[::2]:
            for op in _BIN_ANY + _CMP:
                cases.append((op, a, b))
            if a >= 0 and b >= 0:
                for op in _BIN_NONNEG:
                    if op in (operator.floordiv, operator.mod) and b == 0:
                        continue
                    cases.append((op, a, b))
                if b < 70:
                    cases.append((operator.rshift, a, b))
                    cases.append((operator.lshift, a, b))
    bad = []

    def h(X):
        for i, (op, a, b) in enumerate(cases):
            nn = op in _BIN_NONNEG or op in (operator.rshift, operator.lshift)
            lo, hi = (0 if nn else min(a, 0) - 1), max(a, 0) + 1
            sa = X.int(f"a{i}", lo, hi)
            X.assume(sa == a)
            for sb_kind in ("const", "sym"):
                if sb_kind == "sym":
                    sb = X.int(f"b{i}", 0 if nn else min(b, 0) - 1, max(b, 0) + 1)
                    X.assume(sb == b)
                else:
                    sb = b
                r = op(sa, sb)
                exp = op(a, b)
                if isinstance(exp, bool):
                    got = bool(r)
                else:
                    got = symx.concretize(r)
                if got != exp:
                    bad.append((op.__name__, a, b, sb_kind, got, exp))

    res = symx.explore(h)
    if res.harness_errors or res.inconclusive or bad or res.paths != 1:
        raise AssertionError(f"symx selfcheck failed: bad={bad[:5]} errors={res.harness_errors[:1]} inconclusive={res.inconclusive[:2]} paths={res.paths}")
    n = symbytes.selfcheck()
    return len(cases) * 2 + n


def stamp_path():
    import hashlib, os

    here = os.path.dirname(os.path.abspath(__file__))
    h = hashlib.sha256()
    for f in ("symx.py", "symbytes.py", "selfcheck.py"):
        h.update(open(os.path.join(here, f), "rb").read())
    return os.path.join(os.path.dirname(here), ".venv", "selfcheck-" + h.hexdigest()[:16])


def ensure():
    """run the selfcheck once per engine version (stamp file keyed by the engine source hash)"""
    import json, os

    p = stamp_path()
    if os.path.exists(p):
        return json.load(open(p))
    n = run()
    d = {"cases": n, "engine_hash": os.path.basename(p)[10:]}
    try:
        with open(p, "w") as f:
            json.dump(d, f)
    except OSError:
        pass
    return d


if __name__ == "__main__":
    print("symx selfcheck:", ensure())
