"""symx — a small concolic engine over z3 bit-vectors (engine "B"/"A2" of DESIGN.md).

Real Python code is executed on `SymInt` values (plain class, NOT an int subclass).  Every
`bool()` of a symbolic comparison asks z3 which branches are feasible under the current path
condition and forks; every C-level consumer (`__index__`, `__hash__`, `__int__`) forks over the
feasible concrete values.  Exploration is depth-first by re-execution from a decision trace; the
tree being exhausted is the verdict "holds for every value inside the bound".  `unknown` from the
solver or an operator outside the modelled set raises `Unsupported` => the path is *inconclusive*
and the obligation is never reported as discharged.

Arithmetic soundness: every SymInt carries a conservative interval [lo, hi]; bit-vector widths are
chosen from the interval so that no operation can wrap, hence BV arithmetic == Python int
arithmetic on the stated ranges.  Unbounded ints are outside this engine.

A harness is a function `h(X)`; `X` is an `Explorer` (symbolic run) or a `Replayer` (plain
concrete run on recorded values, used to confirm every counterexample without any symbolic
machinery).
"""
from __future__ import annotations

import builtins
import os
import time
import traceback

import z3


class Unsupported(Exception):
    """operation outside the modelled set / solver said unknown: path inconclusive"""


class Violation(Exception):
    def __init__(self, key: str, msg: str = "", **witness):
        super().__init__(f"{key}: {msg}")
        self.key = key
        self.msg = msg
        self.witness = witness


class _Infeasible(BaseException):
    pass


class _Cut(BaseException):
    pass


class _Timeout(BaseException):
    pass


class _PathTimeout(BaseException):
    pass


PATH_TIMEOUT_S = 600  # wall-clock cap for ONE path (native code that never returns would otherwise hang the check)


def _on_alarm(signum, frame):
    raise _PathTimeout()


ST: "_State | None" = None  # current path state (symbolic runs only)

QUERY_TIMEOUT_MS = 60000


class _State:
    def __init__(self, trace, forced=0, cut_depth=None, deadline=None):
        self.trace = trace
        self.forced = forced
        self.pos = 0
        self.solver = z3.Solver()
        self.solver.set("timeout", QUERY_TIMEOUT_MS)
        self.queries = 0
        self.solver_s = 0.0
        self.counters = {}
        self.syms = {}  # name -> z3 expr (BitVec) of declared symbols
        self.choices = {}  # name -> concrete value chosen on this path
        self.reached = set()
        self.notes = {}
        self.cut_depth = cut_depth
        self.deadline = deadline
        self.str_mode = "concretize"

    def uname(self, name):
        k = self.counters.get(name, 0)
        self.counters[name] = k + 1
        return name if k == 0 else f"{name}.{k}"

    def check(self, *extra):
        if self.deadline is not None and time.time() > self.deadline:
            raise _Timeout()
        self.queries += 1
        t = time.perf_counter()
        if extra:
            self.solver.push()
            self.solver.add(*extra)
            r = self.solver.check()
            self.solver.pop()
        else:
            r = self.solver.check()
        self.solver_s += time.perf_counter() - t
        if r == z3.unknown:
            raise Unsupported("solver unknown: " + self.solver.reason_unknown())
        return r == z3.sat

    def new_node(self, node):
        if self.cut_depth is not None and len(self.trace) >= self.cut_depth:
            raise _Cut()
        self.trace.append(node)
        return node


# ------------------------------------------------------------------------------------------
# symbolic values


def _need_width(lo: int, hi: int) -> int:
    a = lo if lo >= 0 else -lo - 1
    return max(a.bit_length(), hi.bit_length(), 1) + 1


def _fit(e, w_from: int, w_to: int):
    if w_from == w_to:
        return e
    if w_from < w_to:
        return z3.SignExt(w_to - w_from, e)
    return z3.Extract(w_to - 1, 0, e)


class SymBool:
    __slots__ = ("e",)

    def __init__(self, e):
        self.e = e

    def __bool__(self):
        st = ST
        if st is None:
            raise RuntimeError("SymBool used outside an exploration")
        if st.pos < len(st.trace):
            node = st.trace[st.pos]
        else:
            t = st.check(self.e)
            f = st.check(z3.Not(self.e))
            if not t and not f:
                raise _Infeasible()
            node = st.new_node({"k": "b", "val": bool(t), "pending": bool(t and f)})
        st.pos += 1
        st.solver.add(self.e if node["val"] else z3.Not(self.e))
        return node["val"]

    def _o(self, o):
        if isinstance(o, SymBool):
            return o.e
        if o is True or o is False:
            return z3.BoolVal(o)
        return None

    def __and__(self, o):
        oe = self._o(o)
        return NotImplemented if oe is None else SymBool(z3.And(self.e, oe))

    __rand__ = __and__

    def __or__(self, o):
        oe = self._o(o)
        return NotImplemented if oe is None else SymBool(z3.Or(self.e, oe))

    __ror__ = __or__

    def __invert__(self):
        return SymBool(z3.Not(self.e))

    def __repr__(self):
        return "<symbool>"


def concretize(x):
    """C-level consumer: fork over every feasible concrete value of x."""
    if type(x) is SymBool:
        return bool(x)
    if type(x) is not SymInt:
        return x
    st = ST
    if st.pos < len(st.trace):
        node = st.trace[st.pos]
    else:
        node = st.new_node({"k": "v", "tried": [], "val": None, "pending": True})
    if node["val"] is None:
        st.solver.push()
        for v in node["tried"]:
            st.solver.add(x.e != z3.BitVecVal(v, x.w))
        if not st.check():
            st.solver.pop()
            raise _Infeasible()
        mv = st.solver.model().eval(x.e, model_completion=True)
        v = mv.as_signed_long()
        st.solver.add(x.e != z3.BitVecVal(v, x.w))
        node["pending"] = st.check()
        st.solver.pop()
        node["val"] = v
    st.pos += 1
    st.solver.add(x.e == z3.BitVecVal(node["val"], x.w))
    return node["val"]


class SymInt:
    """signed bit-vector term with a conservative interval; never wraps (see module doc)."""

    __slots__ = ("e", "w", "lo", "hi")

    def __init__(self, e, w, lo, hi):
        self.e, self.w, self.lo, self.hi = e, w, lo, hi

    # -- helpers
    @staticmethod
    def _coerce(o):
        if type(o) is SymInt:
            return o
        if type(o) is bool:
            o = int(o)
        if type(o) is int:
            w = _need_width(o, o)
            return SymInt(z3.BitVecVal(o, w), w, o, o)
        if type(o) is SymBool:
            return SymInt(z3.If(o.e, z3.BitVecVal(1, 2), z3.BitVecVal(0, 2)), 2, 0, 1)
        return None

    @staticmethod
    def _mk(f, a, b, lo, hi):
        w = max(_need_width(lo, hi), a.w, b.w)
        e = f(_fit(a.e, a.w, w), _fit(b.e, b.w, w))
        nw = _need_width(lo, hi)
        if nw < w:
            e = z3.Extract(nw - 1, 0, e)
            w = nw
        return SymInt(e, w, lo, hi)

    def _bin(self, o, f, iv, swap=False):
        o = self._coerce(o)
        if o is None:
            return NotImplemented
        a, b = (o, self) if swap else (self, o)
        lo, hi = iv(a, b)
        return SymInt._mk(f, a, b, lo, hi)

    # -- arithmetic
    def __add__(self, o):
        return self._bin(o, lambda x, y: x + y, lambda a, b: (a.lo + b.lo, a.hi + b.hi))

    __radd__ = __add__

    def __sub__(self, o):
        return self._bin(o, lambda x, y: x - y, lambda a, b: (a.lo - b.hi, a.hi - b.lo))

    def __rsub__(self, o):
        return self._bin(o, lambda x, y: x - y, lambda a, b: (a.lo - b.hi, a.hi - b.lo), swap=True)

    @staticmethod
    def _mul_iv(a, b):
        ps = (a.lo * b.lo, a.lo * b.hi, a.hi * b.lo, a.hi * b.hi)
        return min(ps), max(ps)

    def __mul__(self, o):
        return self._bin(o, lambda x, y: x * y, SymInt._mul_iv)

    __rmul__ = __mul__

    def __neg__(self):
        return 0 - self

    def __pos__(self):
        return self

    def __invert__(self):
        return (0 - self) - 1

    def __abs__(self):
        if self.lo >= 0:
            return self
        n = -self
        lo, hi = 0, max(abs(self.lo), abs(self.hi))
        return SymInt._mk(lambda x, y: z3.If(x < 0, y, x), self, n, lo, hi)

    def _nonneg(self, *os):
        for x in (self,) + os:
            if x.lo < 0:
                raise Unsupported("bit/div operation on possibly negative symbolic int")

    def _divmod_prep(self, o, swap):
        o = self._coerce(o)
        if o is None:
            return None
        a, b = (o, self) if swap else (self, o)
        a._nonneg(b)
        if b.lo <= 0:
            if bool(b == 0):
                raise ZeroDivisionError("integer division or modulo by zero")
            b = SymInt(b.e, b.w, 1, b.hi)
        return a, b

    def __floordiv__(self, o, swap=False):
        p = self._divmod_prep(o, swap)
        if p is None:
            return NotImplemented
        a, b = p
        return SymInt._mk(z3.UDiv, a, b, a.lo // b.hi, a.hi // b.lo)

    def __rfloordiv__(self, o):
        return self.__floordiv__(o, swap=True)

    def __mod__(self, o, swap=False):
        p = self._divmod_prep(o, swap)
        if p is None:
            return NotImplemented
        a, b = p
        return SymInt._mk(z3.URem, a, b, 0, min(a.hi, b.hi - 1))

    def __rmod__(self, o):
        return self.__mod__(o, swap=True)

    def __divmod__(self, o):
        return self // o, self % o

    # -- bit operations (non-negative operands only)
    def _bits(self, o, f, iv, swap=False):
        o = self._coerce(o)
        if o is None:
            return NotImplemented
        a, b = (o, self) if swap else (self, o)
        a._nonneg(b)
        lo, hi = iv(a, b)
        return SymInt._mk(f, a, b, lo, hi)

    @staticmethod
    def _or_iv(a, b):
        return max(a.lo, b.lo), (1 << max(a.hi.bit_length(), b.hi.bit_length())) - 1

    def __and__(self, o):
        if type(o) is int and o < 0 and self.lo >= 0:
            # x in [0, 2^k): x & c == x & (c mod 2^k) for a negative constant c (e.g. `p & ~0xC000`)
            o &= (1 << max(self.hi.bit_length(), 1)) - 1
        return self._bits(o, lambda x, y: x & y, lambda a, b: (0, min(a.hi, b.hi)))

    __rand__ = __and__

    def __or__(self, o):
        return self._bits(o, lambda x, y: x | y, SymInt._or_iv)

    __ror__ = __or__

    def __xor__(self, o):
        return self._bits(o, lambda x, y: x ^ y, lambda a, b: (0, SymInt._or_iv(a, b)[1]))

    __rxor__ = __xor__

    def __rshift__(self, o):
        return self._bits(o, z3.LShR, lambda a, b: (a.lo >> min(b.hi, 4096), a.hi >> b.lo))

    def __rrshift__(self, o):
        return self._bits(o, z3.LShR, lambda a, b: (a.lo >> min(b.hi, 4096), a.hi >> b.lo), swap=True)

    @staticmethod
    def _shl_iv(a, b):
        if b.hi > 4096:
            raise Unsupported("left shift by unbounded amount")
        return a.lo << b.lo, a.hi << b.hi

    def __lshift__(self, o):
        return self._bits(o, lambda x, y: x << y, SymInt._shl_iv)

    def __rlshift__(self, o):
        return self._bits(o, lambda x, y: x << y, SymInt._shl_iv, swap=True)

    # -- comparisons
    def _cmp(self, o, f, const):
        o = self._coerce(o)
        if o is None:
            return NotImplemented
        r = const(self, o)
        if r is not None:
            return SymBool(z3.BoolVal(r))
        w = max(self.w, o.w)
        return SymBool(f(_fit(self.e, self.w, w), _fit(o.e, o.w, w)))

    def __eq__(self, o):
        r = self._cmp(o, lambda x, y: x == y, lambda a, b: False if (a.hi < b.lo or b.hi < a.lo) else None)
        return False if r is NotImplemented else r

    def __ne__(self, o):
        r = self._cmp(o, lambda x, y: x != y, lambda a, b: True if (a.hi < b.lo or b.hi < a.lo) else None)
        return True if r is NotImplemented else r

    def __lt__(self, o):
        return self._cmp(o, lambda x, y: x < y, lambda a, b: True if a.hi < b.lo else (False if a.lo >= b.hi else None))

    def __le__(self, o):
        return self._cmp(o, lambda x, y: x <= y, lambda a, b: True if a.hi <= b.lo else (False if a.lo > b.hi else None))

    def __gt__(self, o):
        return self._cmp(o, lambda x, y: x > y, lambda a, b: True if a.lo > b.hi else (False if a.hi <= b.lo else None))

    def __ge__(self, o):
        return self._cmp(o, lambda x, y: x >= y, lambda a, b: True if a.lo >= b.hi else (False if a.hi < b.lo else None))

    # -- C-level consumers: fork over values
    def __index__(self):
        return concretize(self)

    __int__ = __index__

    def __hash__(self):
        return hash(concretize(self))

    def __bool__(self):
        return bool(self != 0)

    def __float__(self):
        return float(concretize(self))

    def __str__(self):
        if ST is not None and ST.str_mode == "opaque":
            return "<sym>"
        return str(concretize(self))

    def __repr__(self):
        return f"<sym{self.w}[{self.lo},{self.hi}]>"

    def __format__(self, spec):
        if ST is not None and ST.str_mode == "opaque":
            return "<sym>"
        return format(concretize(self), spec)

    def bit_length(self):
        return concretize(self).bit_length()

    def to_bytes(self, length=1, byteorder="big", *, signed=False):
        from .symbytes import SymBytes

        length = concretize(length)
        self._nonneg()
        if bool(self >= (1 << (8 * length))):
            raise OverflowError("int too big to convert")
        items = [(self >> (8 * i)) & 0xFF for i in range(length)]
        if byteorder == "big":
            items.reverse()
        return SymBytes(items)

    def __pow__(self, o, m=None):
        raise Unsupported("pow on symbolic int")

    def __rpow__(self, o, m=None):
        raise Unsupported("pow on symbolic int")

    def __truediv__(self, o):
        raise Unsupported("true division on symbolic int")

    __rtruediv__ = __truediv__


def lnot(c):
    """logical not that works for SymBool (no fork) and plain bools"""
    return ~c if type(c) is SymBool else (not c)


def ite(c, a, b):
    """if-then-else without forking (harness convenience)."""
    if type(c) is not SymBool:
        return a if c else b
    a, b = SymInt._coerce(a), SymInt._coerce(b)
    lo, hi = min(a.lo, b.lo), max(a.hi, b.hi)
    return SymInt._mk(lambda x, y: z3.If(c.e, x, y), a, b, lo, hi)


_real_isinstance = builtins.isinstance


def sym_isinstance(obj, cls):
    if type(obj) is SymInt:
        if cls is int or (_real_isinstance(cls, tuple) and int in cls):
            return True
        return False
    return _real_isinstance(obj, cls)


def install_isinstance(*modules):
    """answer isinstance(symint, int) == True inside the given (target) modules"""
    for m in modules:
        m.__dict__["isinstance"] = sym_isinstance


def uninstall_isinstance(*modules):
    for m in modules:
        m.__dict__.pop("isinstance", None)


# ------------------------------------------------------------------------------------------
# harness API


class Explorer:
    """symbolic run context handed to harnesses"""

    symbolic = True

    def __init__(self, st: _State):
        self.st = st

    # symbols
    def int(self, name, lo, hi):
        """symbolic integer in [lo, hi] (inclusive)"""
        return self._declare(name, lo, hi)[1]

    def _declare(self, name, lo, hi):
        st = self.st
        n = st.uname(name)
        w = _need_width(lo, hi)
        e = z3.BitVec(n, w)
        st.syms[n] = (e, w)
        st.solver.add(e >= z3.BitVecVal(lo, w), e <= z3.BitVecVal(hi, w))
        return n, SymInt(e, w, lo, hi)

    def bv(self, name, bits):
        """unsigned symbolic integer of `bits` bits"""
        return self.int(name, 0, (1 << bits) - 1)

    def bytes(self, name, n):
        from .symbytes import SymBytes

        return SymBytes([self.bv(f"{name}[{i}]", 8) for i in range(n)])

    def choose(self, name, n):
        """solver-enumerated selector: returns a concrete int in range(n) (or an element of a
        list/tuple n), forking over every feasible value"""
        menu = None
        if not isinstance(n, int):
            menu = list(n)
            n = len(menu)
        nm, s = self._declare(name, 0, n - 1)
        v = concretize(s)
        self.st.choices[nm] = v
        return v if menu is None else menu[v]

    def boolean(self, name):
        return bool(self.choose(name, 2))

    def assume(self, cond):
        if type(cond) is SymBool:
            self.st.solver.add(cond.e)
            if not self.st.check():
                raise _Infeasible()
        elif not cond:
            raise _Infeasible()

    def reach(self, label):
        self.st.reached.add(label)

    def note(self, k, v):
        self.st.notes[k] = v

    def fail(self, key, msg="", **witness):
        raise Violation(key, msg, **witness)

    def check(self, cond, key, msg="", **witness):
        if not cond:
            raise Violation(key, msg, **witness)

    def opaque_str(self, on=True):
        self.st.str_mode = "opaque" if on else "concretize"


class Replayer:
    """concrete run on recorded values: no z3, no SymInt — confirms counterexamples natively"""

    symbolic = False

    def __init__(self, values: dict):
        self.values = values
        self.counters = {}
        self.reached = set()
        self.notes = {}

    def _u(self, name):
        k = self.counters.get(name, 0)
        self.counters[name] = k + 1
        return name if k == 0 else f"{name}.{k}"

    def int(self, name, lo, hi):
        v = self.values[self._u(name)]
        if not lo <= v <= hi:
            raise _Infeasible()
        return v

    def bv(self, name, bits):
        return self.int(name, 0, (1 << bits) - 1)

    def bytes(self, name, n):
        return builtins.bytes(self.bv(f"{name}[{i}]", 8) for i in range(n))

    def choose(self, name, n):
        if isinstance(n, int):
            return self.int(name, 0, n - 1)
        menu = list(n)
        return menu[self.int(name, 0, len(menu) - 1)]

    def boolean(self, name):
        return bool(self.choose(name, 2))

    def assume(self, cond):
        if not cond:
            raise _Infeasible()

    def reach(self, label):
        self.reached.add(label)

    def note(self, k, v):
        self.notes[k] = v

    def fail(self, key, msg="", **witness):
        raise Violation(key, msg, **witness)

    def check(self, cond, key, msg="", **witness):
        if not cond:
            raise Violation(key, msg, **witness)

    def opaque_str(self, on=True):
        pass


def replay(fn, values):
    """returns ('violation', Violation) | ('ok', None) | ('infeasible', None) | ('crash', exc) | ('timeout', None)"""
    import signal
    import threading

    alarm = False
    try:
        if threading.current_thread() is threading.main_thread():
            signal.signal(signal.SIGALRM, _on_alarm)
            signal.setitimer(signal.ITIMER_REAL, PATH_TIMEOUT_S)
            alarm = True
    except Exception:  # noqa
        alarm = False
    try:
        return _replay(fn, values)
    except _PathTimeout:
        return "timeout", None
    finally:
        if alarm:
            signal.setitimer(signal.ITIMER_REAL, 0)


def _replay(fn, values):
    try:
        fn(Replayer(dict(values)))
    except Violation as v:
        return "violation", v
    except _Infeasible:
        return "infeasible", None
    except Exception as e:  # noqa
        return "crash", e
    return "ok", None


# ------------------------------------------------------------------------------------------
# exploration


def _innermost_file(exc):
    tb = traceback.extract_tb(exc.__traceback__)
    return tb[-1].filename if tb else ""


class Result:
    def __init__(self):
        self.paths = 0
        self.infeasible = 0
        self.queries = 0
        self.solver_s = 0.0
        self.wall_s = 0.0
        self.max_depth = 0
        self.exhausted = False
        self.inconclusive = []  # [(reason, values)]
        self.violations = []  # [{key,msg,values,witness}]
        self.harness_errors = []  # [traceback str]
        self.reached = {}
        self.samples = []
        self.prefixes = None

    def merge(self, o: "Result"):
        self.paths += o.paths
        self.infeasible += o.infeasible
        self.queries += o.queries
        self.solver_s += o.solver_s
        self.max_depth = max(self.max_depth, o.max_depth)
        self.inconclusive += o.inconclusive
        self.harness_errors += o.harness_errors
        seen = {v["key"] for v in self.violations}
        for v in o.violations:
            if v["key"] not in seen:
                self.violations.append(v)
                seen.add(v["key"])
        for k, n in o.reached.items():
            self.reached[k] = self.reached.get(k, 0) + n
        if len(self.samples) < 6:
            self.samples += o.samples[: 6 - len(self.samples)]

    def as_dict(self):
        return {k: v for k, v in self.__dict__.items() if k != "prefixes"}


def _model_values(st: _State):
    vals = {}
    try:
        if st.solver.check() == z3.sat:
            m = st.solver.model()
            for n, (e, w) in st.syms.items():
                vals[n] = m.eval(e, model_completion=True).as_signed_long()
    except Exception:  # noqa
        pass
    vals.update(st.choices)
    return vals


def explore(fn, *, prefix=None, cut_depth=None, budget_s=None, max_violation_keys=500, stop_on=None, sample_every=1, stop_flag=None):
    """Depth-first exhaustion of fn's decision tree.

    prefix: list of forced decision nodes (from a previous cut run) — explores only that subtree.
    cut_depth: stop descending at this decision depth and collect the prefixes (for partitioning).
    stop_on: callable(violation dict) -> bool; exploration stops when it returns True.
    """
    global ST
    res = Result()
    t0 = time.time()
    deadline = None if budget_s is None else t0 + budget_s
    trace = [dict(n, pending=False) for n in (prefix or [])]
    forced = len(trace)
    prefixes = []
    stop = False
    timed_out = False
    while True:
        if stop_flag is not None and os.path.exists(stop_flag):
            # another worker of this obligation found a violation that is not a known finding: the verdict is settled
            stop = True
            break
        st = _State(trace, forced, cut_depth, deadline)
        ST = st
        X = Explorer(st)
        counted = True
        _alarm = False
        try:
            import signal
            import threading

            if threading.current_thread() is threading.main_thread():
                signal.signal(signal.SIGALRM, _on_alarm)
                signal.setitimer(signal.ITIMER_REAL, PATH_TIMEOUT_S)
                _alarm = True
        except Exception:  # noqa
            _alarm = False
        try:
            fn(X)
        except _PathTimeout:
            rec = {"key": "hang:path-timeout", "msg": f"one path ran longer than {PATH_TIMEOUT_S} s of wall-clock time: the code under test did not return on this input",
                   "values": _model_values(st), "witness": {}}
            if rec["key"] not in {x["key"] for x in res.violations}:
                res.violations.append(rec)
            if stop_on is not None and stop_on(rec):
                stop = True
        except Violation as v:
            vals = _model_values(st)
            rec = {"key": v.key, "msg": v.msg, "values": vals, "witness": _jsonable(v.witness)}
            if v.key not in {x["key"] for x in res.violations}:
                res.violations.append(rec)
            if stop_on is not None and stop_on(rec):
                stop = True
            if len(res.violations) >= max_violation_keys:
                stop = True
        except _Infeasible:
            counted = False
            res.infeasible += 1
        except _Cut:
            counted = False
            prefixes.append([{k: n[k] for k in ("k", "val")} | ({"tried": []} if n["k"] == "v" else {}) for n in st.trace])
        except _Timeout:
            counted = False
            timed_out = True
        except Unsupported as u:
            res.inconclusive.append((str(u), _model_values(st)))
        except z3.Z3Exception as u:
            res.inconclusive.append(("z3: " + str(u), {}))
        except Exception as e:  # noqa
            _f = _innermost_file(e)
            if ("/mitmproxy/" in _f or "/site-packages/" in _f or "/repo/" in _f) and "/verif/" not in _f:
                vals = _model_values(st)
                key = f"crash:{type(e).__name__}"
                rec = {"key": key, "msg": "".join(traceback.format_exception_only(type(e), e)).strip()[:300],
                       "values": vals, "witness": {"traceback": traceback.format_exc()[-1500:]}}
                if key not in {x["key"] for x in res.violations}:
                    res.violations.append(rec)
                if stop_on is not None and stop_on(rec):
                    stop = True
            else:
                res.harness_errors.append(traceback.format_exc()[-3000:])
                stop = True
        finally:
            ST = None
            if _alarm:
                try:
                    signal.setitimer(signal.ITIMER_REAL, 0)
                except Exception:  # noqa
                    pass
        res.queries += st.queries
        res.solver_s += st.solver_s
        if counted:
            res.paths += 1
            res.max_depth = max(res.max_depth, st.pos)
            for k in st.reached:
                res.reached[k] = res.reached.get(k, 0) + 1
            if len(res.samples) < 6 and res.paths % sample_every == 0:
                res.samples.append({"choices": dict(st.choices), "notes": _jsonable(st.notes)})
        if stop or timed_out:
            break
        # backtrack
        trace = st.trace[: st.pos] if st.pos >= forced else st.trace[:forced]
        while len(trace) > forced and not trace[-1]["pending"]:
            trace.pop()
        if len(trace) <= forced:
            res.exhausted = True
            break
        n = trace[-1]
        if n["k"] == "b":
            n["val"] = not n["val"]
            n["pending"] = False
        else:
            n["tried"].append(n["val"])
            n["val"] = None
    if res.inconclusive or res.harness_errors or (stop and not res.exhausted):
        res.exhausted = False
    res.wall_s = time.time() - t0
    res.prefixes = prefixes
    return res


def _jsonable(x):
    if isinstance(x, dict):
        return {str(k): _jsonable(v) for k, v in x.items()}
    if isinstance(x, (list, tuple, set, frozenset)):
        return [_jsonable(v) for v in x]
    if isinstance(x, (bytes, bytearray)):
        return "hex:" + bytes(x).hex()
    if isinstance(x, (int, float, str, bool)) or x is None:
        return x
    return repr(x)[:300]


# -- parallel exploration -------------------------------------------------------------------

_PAR_FN = None


def _par_worker(args):
    prefix, budget_s, stop_keys, stop_flag = args
    stop_on = None
    if stop_keys is not None:
        import fnmatch

        sk = list(stop_keys)

        def stop_on(rec):
            unknown = not any(fnmatch.fnmatchcase(rec["key"], k) for k in sk)
            if unknown and stop_flag:
                try:
                    open(stop_flag, "w").close()
                except OSError:
                    pass
            return unknown

    # `budget_s` is an absolute deadline (time.time() based) shared by all partitions of the obligation: a partition that starts
    # late gets what is left, one that starts after the deadline is not explored at all (reported as not exhausted)
    if budget_s is not None:
        left = budget_s - time.time()
        if left <= 0:
            r = Result()
            r.exhausted = False
            r.prefixes = None
            return r
        budget_s = max(1.0, left)
    r = explore(_PAR_FN, prefix=prefix, budget_s=budget_s, stop_on=stop_on, stop_flag=stop_flag)
    r.prefixes = None
    return r


def _par_cut(args):
    depth, budget_s = args
    r = explore(_PAR_FN, cut_depth=depth, budget_s=budget_s)
    return r


def explore_parallel(fn, *, procs=16, depth=3, budget_s=None, known_keys=None):
    """Partition the decision tree at `depth` and explore the subtrees in `procs` processes.
    Violations whose key is not in known_keys stop their worker early."""
    import multiprocessing as mp

    global _PAR_FN
    _PAR_FN = fn
    ctx = mp.get_context("fork")
    t0 = time.time()
    with ctx.Pool(1) as p:
        top = p.apply(_par_cut, ((depth, budget_s),))
    total = Result()
    total.merge(top)
    prefixes = top.prefixes or []
    exhausted = top.exhausted or bool(prefixes)
    if top.harness_errors or (not prefixes):
        total.exhausted = top.exhausted and not top.inconclusive
        total.wall_s = time.time() - t0
        return total
    remaining = None if budget_s is None else t0 + budget_s  # absolute deadline, see _par_worker
    stop_keys = None if known_keys is None else list(known_keys)
    import tempfile

    flagdir = tempfile.mkdtemp(prefix="vf-stop-")
    stop_flag = os.path.join(flagdir, "stop")
    try:
        with ctx.Pool(min(procs, len(prefixes))) as p:
            rs = p.map(_par_worker, [(pf, remaining, stop_keys, stop_flag) for pf in prefixes], chunksize=1)
    finally:
        try:
            if os.path.exists(stop_flag):
                os.unlink(stop_flag)
            os.rmdir(flagdir)
        except OSError:
            pass
    all_ex = True
    for r in rs:
        total.merge(r)
        all_ex = all_ex and r.exhausted
    total.exhausted = bool(exhausted and all_ex and not total.inconclusive and not total.harness_errors)
    total.wall_s = time.time() - t0
    total.partitions = len(prefixes)
    return total
