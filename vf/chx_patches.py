"""Monkeypatches for CrossHair 0.0.110 defects that produce spurious results (DESIGN 2.4)."""


def apply():
    try:
        from crosshair.libimpl.builtinslib import LazyIntSymbolicStr
        from crosshair.tracers import NoTracing  # noqa: F401
    except Exception:  # noqa
        return
    orig_eq = LazyIntSymbolicStr.__eq__

    def __eq__(self, other):
        if isinstance(other, LazyIntSymbolicStr):
            a, b = self._codepoints, other._codepoints
            try:
                if len(a) != len(b):
                    return False
                for x, y in zip(a, b):
                    if x != y:
                        return False
                return True
            except Exception:  # noqa
                return orig_eq(self, other)
        return orig_eq(self, other)

    LazyIntSymbolicStr.__eq__ = __eq__
