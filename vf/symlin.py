"""symlin — symbolic integers over z3's *Int* sort (linear arithmetic) for the symx explorer.

`symx.SymInt` is a bit-vector term: right for bit-level kernels, but z3 bit-blasts every `+`/`<`, and
chains of additions compared with each other (clock values, deadlines, lengths) make its incremental core
take seconds per query.  Code that only adds, subtracts and compares integers is decided by the linear
arithmetic solver in microseconds, for *unbounded* integers (no widths, no wrap-around to rule out).

    t = symlin.declare(X, "t", 0, 10**7)      # works on Explorer (symbolic) and Replayer (concrete int)

`LinInt` supports + - unary-, multiplication by a concrete int, and comparisons (-> `symx.SymBool`, so
`if`/`bool()` forks through the explorer exactly like SymInt comparisons).  Everything else (bit operations,
division, use as an index/hash/str) raises `symx.Unsupported` => the path is inconclusive, never silently
wrong.  Counterexample values are extracted by the unchanged `symx._model_values` (the symbol is registered
with an `Int2BV` view that is only ever evaluated in the model, never asserted).
"""
from __future__ import annotations

import z3

from . import symx


class LinInt:
    __slots__ = ("e",)

    def __init__(self, e):
        self.e = e

    @staticmethod
    def _co(o):
        if type(o) is LinInt:
            return o.e
        if type(o) is bool:
            return z3.IntVal(int(o))
        if type(o) is int:
            return z3.IntVal(o)
        return None

    def _bin(self, o, f):
        oe = self._co(o)
        return NotImplemented if oe is None else LinInt(f(self.e, oe))

    def __add__(self, o):
        return self._bin(o, lambda a, b: a + b)

    __radd__ = __add__

    def __sub__(self, o):
        return self._bin(o, lambda a, b: a - b)

    def __rsub__(self, o):
        return self._bin(o, lambda a, b: b - a)

    def __mul__(self, o):
        if type(o) is int:
            return LinInt(self.e * z3.IntVal(o))
        if type(o) is LinInt:
            raise symx.Unsupported("non-linear multiplication of symbolic ints")
        return NotImplemented

    __rmul__ = __mul__

    def __neg__(self):
        return LinInt(-self.e)

    def __pos__(self):
        return self

    def _cmp(self, o, f):
        oe = self._co(o)
        return NotImplemented if oe is None else symx.SymBool(f(self.e, oe))

    def __lt__(self, o):
        return self._cmp(o, lambda a, b: a < b)

    def __le__(self, o):
        return self._cmp(o, lambda a, b: a <= b)

    def __gt__(self, o):
        return self._cmp(o, lambda a, b: a > b)

    def __ge__(self, o):
        return self._cmp(o, lambda a, b: a >= b)

    def __eq__(self, o):
        r = self._cmp(o, lambda a, b: a == b)
        return False if r is NotImplemented else r

    def __ne__(self, o):
        r = self._cmp(o, lambda a, b: a != b)
        return True if r is NotImplemented else r

    def __bool__(self):
        return bool(self != 0)

    def __repr__(self):
        return "<linint>"

    def _unsupported(self, *a, **k):
        raise symx.Unsupported("operation on a linear symbolic int that needs a concrete value or is not linear")

    __index__ = __int__ = __hash__ = __float__ = __str__ = __format__ = _unsupported
    __floordiv__ = __rfloordiv__ = __mod__ = __rmod__ = __truediv__ = __rtruediv__ = __pow__ = __rpow__ = _unsupported
    __and__ = __rand__ = __or__ = __ror__ = __xor__ = __rxor__ = __lshift__ = __rlshift__ = __rshift__ = __rrshift__ = _unsupported
    __abs__ = __invert__ = __divmod__ = _unsupported


def declare(X, name, lo, hi):
    """symbolic integer in [lo, hi] (Int sort).  On a Replayer: the recorded concrete int."""
    if not getattr(X, "symbolic", False):
        return X.int(name, lo, hi)
    st = X.st
    n = st.uname(name)
    e = z3.Int(n)
    st.syms[n] = (z3.Int2BV(e, 64), 64)  # model extraction only (see module doc)
    st.solver.add(e >= lo, e <= hi)
    return LinInt(e)
