"""Run CrossHair on one harness function in this (child) process and print a CHXJSON line.

usage: python -m vf.chx_child <harness file> <function> <per_condition_timeout> <seed> [unpatch names...]

Applies the engine shims of DESIGN 2.4 before analysis:
  * preload C extensions CrossHair's importer would shadow (backports.zstd)
  * LazyIntSymbolicStr.__eq__ list/tuple artefact
  * optional: drop CrossHair's bytearray / time patches ("bytearray", "time")
"""
import collections
import importlib.util
import json
import os
import random
import sys
import time


def main():
    file, fn_name, timeout, seed = sys.argv[1], sys.argv[2], float(sys.argv[3]), int(sys.argv[4])
    unpatch = sys.argv[5:]
    try:
        import backports.zstd  # noqa: F401
    except Exception:  # noqa
        pass
    import mitmproxy.http  # noqa: F401  (real import before CrossHair's import machinery)
    import crosshair.core_and_libs  # noqa: F401
    from crosshair import core
    from crosshair.core import analyze_function, run_checkables
    from crosshair.options import AnalysisOptionSet, AnalysisKind
    from crosshair.statespace import MessageType

    if "bytearray" in unpatch:
        core._PATCH_REGISTRATIONS.pop(bytearray, None)
    if "time" in unpatch:
        for f in (time.time, time.monotonic, time.time_ns, time.monotonic_ns):
            core._PATCH_REGISTRATIONS.pop(f, None)
    from . import chx_patches

    chx_patches.apply()

    random.seed(seed)
    spec = importlib.util.spec_from_file_location("vf_harness_" + os.path.basename(file)[:-3], file)
    mod = importlib.util.module_from_spec(spec)
    sys.modules[spec.name] = mod
    try:
        spec.loader.exec_module(mod)
    except Exception as e:  # noqa
        import traceback

        print("CHXJSON " + json.dumps({"state": "IMPORT_ERR", "messages": [{"state": "IMPORT_ERR", "message": traceback.format_exc()[-2000:]}], "stats": {}}))
        return
    fn = getattr(mod, fn_name)
    stats = collections.Counter()
    opts = AnalysisOptionSet(
        analysis_kind=(AnalysisKind.PEP316,),
        per_condition_timeout=timeout,
        per_path_timeout=max(timeout / 4, 5.0),
        report_all=True,
        report_verbose=False,
        max_uninteresting_iterations=sys.maxsize,
        stats=stats,
    )
    t0 = time.time()
    checkables = analyze_function(fn, opts)
    msgs = run_checkables(checkables)
    out = []
    worst = None
    order = ["SYNTAX_ERR", "POST_FAIL", "EXEC_ERR", "POST_ERR", "PRE_UNSAT", "CANNOT_CONFIRM", "CONFIRMED"]
    for m in msgs:
        st = m.state.name
        out.append({"state": st, "message": m.message, "line": m.line})
        if worst is None or order.index(st) < order.index(worst):
            worst = st
    if worst is None:
        worst = "SYNTAX_ERR" if not checkables else "CANNOT_CONFIRM"
    print("CHXJSON " + json.dumps({"state": worst, "messages": out, "stats": dict(stats), "wall_s": time.time() - t0}))


if __name__ == "__main__":
    main()
