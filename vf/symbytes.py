"""SymBytes — a byte buffer of concrete length whose items are ints or 8-bit SymInts, plus
pure-Python models of the C helpers mitmproxy's parsers call on buffers (struct, int.from_bytes,
inet_ntop).  The models are validated against the real C functions by `selfcheck()`.
"""
from __future__ import annotations

import builtins
import socket
import struct as _struct

from . import symx
from .symx import SymInt, SymBool, concretize, Unsupported


def _is_sym(x):
    return type(x) is SymInt


def _items(o):
    if isinstance(o, SymBytes):
        return o.items
    if isinstance(o, (bytes, bytearray, memoryview)):
        return list(bytes(o))
    if isinstance(o, (list, tuple)):
        return list(o)
    return None


class SymBytes:
    """immutable-style bytes lookalike (also accepts bytearray-style += / del for buffers)"""

    def __init__(self, items=()):
        self.items = list(items)

    # sequence protocol
    def __len__(self):
        return len(self.items)

    def __iter__(self):
        return iter(self.items)

    def __bool__(self):
        return bool(self.items)

    def __getitem__(self, k):
        if isinstance(k, slice):
            k = slice(*(concretize(v) if v is not None else None for v in (k.start, k.stop, k.step)))
            return SymBytes(self.items[k])
        return self.items[concretize(k)]

    def __add__(self, o):
        it = _items(o)
        if it is None:
            return NotImplemented
        return SymBytes(self.items + it)

    def __radd__(self, o):
        it = _items(o)
        if it is None:
            return NotImplemented
        return SymBytes(it + self.items)

    def __mul__(self, n):
        return SymBytes(self.items * concretize(n))

    def concrete(self):
        """bytes if no item is symbolic, else None"""
        if any(_is_sym(x) for x in self.items):
            return None
        return builtins.bytes(self.items)

    def realize(self):
        """fork over concrete values of every symbolic item (explosive; use on short slices only)"""
        return builtins.bytes(concretize(x) for x in self.items)

    def __eq__(self, o):
        it = _items(o)
        if it is None or len(it) != len(self.items):
            return False
        for a, b in zip(self.items, it):
            if not (a == b):
                return False
        return True

    def __ne__(self, o):
        return not self.__eq__(o)

    def __hash__(self):
        return hash(self.realize())

    def __contains__(self, v):
        it = _items(v)
        if it is not None:
            n = len(it)
            return any(SymBytes(self.items[i : i + n]) == it for i in range(len(self.items) - n + 1))
        for a in self.items:
            if a == v:
                return True
        return False

    def startswith(self, p, start=0):
        if isinstance(p, tuple):
            return any(self.startswith(q, start) for q in p)
        it = _items(p)
        return SymBytes(self.items[start : start + len(it)]) == it

    def endswith(self, p):
        it = _items(p)
        return len(it) <= len(self.items) and SymBytes(self.items[len(self.items) - len(it) :]) == it

    def find(self, sub, start=0, end=None):
        it = _items(sub) if not isinstance(sub, int) and not _is_sym(sub) else [sub]
        n = len(it)
        end = len(self.items) if end is None else min(concretize(end), len(self.items))
        for i in range(concretize(start), end - n + 1):
            if SymBytes(self.items[i : i + n]) == it:
                return i
        return -1

    def index(self, sub, start=0, end=None):
        r = self.find(sub, start, end)
        if r < 0:
            raise ValueError("subsection not found")
        return r

    def split(self, sep, maxsplit=-1):
        it = _items(sep)
        out, cur, i, n = [], 0, 0, len(it)
        while i <= len(self.items) - n and maxsplit != 0:
            if SymBytes(self.items[i : i + n]) == it:
                out.append(SymBytes(self.items[cur:i]))
                i += n
                cur = i
                maxsplit -= 1
            else:
                i += 1
        out.append(SymBytes(self.items[cur:]))
        return out

    def hex(self):
        return self.realize().hex()

    def decode(self, *a, **k):
        return self.realize().decode(*a, **k)

    def isupper(self):
        return self.realize().isupper()

    def __bytes__(self):
        return self.realize()

    def __repr__(self):
        return "<symbytes %d>" % len(self.items)

    # bytearray-style mutation used by receive buffers
    def __iadd__(self, o):
        it = _items(o)
        if it is None:
            return NotImplemented
        return SymBytes(self.items + it)

    def extend(self, o):
        self.items.extend(_items(o))

    def __delitem__(self, k):
        if isinstance(k, slice):
            k = slice(*(concretize(v) if v is not None else None for v in (k.start, k.stop, k.step)))
        else:
            k = concretize(k)
        del self.items[k]

    def clear(self):
        self.items.clear()


def be_int(items):
    """big-endian unsigned integer of a sequence of byte items (symbolic-aware)"""
    acc = 0
    for x in items:
        acc = (acc << 8) | x if (_is_sym(acc) or _is_sym(x)) else (acc << 8) | x
    return acc


# ------------------------------------------------------------------------------------------
# struct model (big-endian, no padding): the formats mitmproxy's parsers use

_SIZES = {"B": 1, "H": 2, "I": 4, "L": 4, "Q": 8, "b": 1, "h": 2, "i": 4, "l": 4, "q": 8, "x": 1}


def _parse_fmt(fmt):
    if isinstance(fmt, bytes):
        fmt = fmt.decode()
    if not fmt or fmt[0] not in "!>":
        raise Unsupported(f"struct format {fmt!r} (only big-endian modelled)")
    out, num = [], ""
    for ch in fmt[1:]:
        if ch.isdigit():
            num += ch
            continue
        if ch == "s":
            out.append(("s", int(num or "1")))
        elif ch in _SIZES:
            out += [(ch, _SIZES[ch])] * int(num or "1")
        elif ch.isspace():
            pass
        else:
            raise Unsupported(f"struct code {ch!r}")
        num = ""
    return out


def calcsize(fmt):
    return sum(n for _, n in _parse_fmt(fmt))


def unpack_from(fmt, buffer, offset=0):
    if not isinstance(buffer, SymBytes):
        return _struct.unpack_from(fmt, buffer, offset)
    offset = concretize(offset)
    codes = _parse_fmt(fmt)
    size = sum(n for _, n in codes)
    if offset < 0:
        offset += len(buffer)
    if offset < 0 or len(buffer) - offset < size:
        raise _struct.error(
            f"unpack_from requires a buffer of at least {size + offset} bytes for unpacking {size} bytes at offset {offset} (actual buffer size is {len(buffer)})"
        )
    out, pos = [], offset
    for ch, n in codes:
        chunk = buffer.items[pos : pos + n]
        pos += n
        if ch == "x":
            continue
        if ch == "s":
            out.append(SymBytes(chunk))
            continue
        v = be_int(chunk)
        if ch.islower():  # signed
            bits = 8 * n
            if _is_sym(v):
                v = symx.ite(v >= (1 << (bits - 1)), v - (1 << bits), v)
            elif v >= 1 << (bits - 1):
                v -= 1 << bits
        out.append(v)
    return tuple(out)


def unpack(fmt, buffer):
    if not isinstance(buffer, SymBytes):
        return _struct.unpack(fmt, buffer)
    size = calcsize(fmt)
    if len(buffer) != size:
        raise _struct.error(f"unpack requires a buffer of {size} bytes")
    return unpack_from(fmt, buffer, 0)


def pack(fmt, *vals):
    if not any(_is_sym(v) or isinstance(v, SymBytes) for v in vals):
        return _struct.pack(fmt, *vals)
    codes = [c for c in _parse_fmt(fmt)]
    out = []
    vi = 0
    for ch, n in codes:
        if ch == "x":
            out.append(0)
            continue
        v = vals[vi]
        vi += 1
        if ch == "s":
            it = _items(v)
            out += (it + [0] * n)[:n]
            continue
        bits = 8 * n
        if ch.islower():
            lo, hi = -(1 << (bits - 1)), (1 << (bits - 1)) - 1
        else:
            lo, hi = 0, (1 << bits) - 1
        if bool(v < lo) or bool(v > hi):
            raise _struct.error(f"'{ch}' format requires {lo} <= number <= {hi}")
        if ch.islower():
            v = symx.ite(v < 0, v + (1 << bits), v) if _is_sym(v) else (v + (1 << bits) if v < 0 else v)
            if _is_sym(v):
                # range-checked above and folded: the value is in [0, 2^bits) on this path; tell the
                # interval tracker so the shifts below are accepted
                v = SymInt(v.e, v.w, 0, (1 << bits) - 1)
        for i in reversed(range(n)):
            out.append((v >> (8 * i)) & 0xFF)
    if vi != len(vals):
        raise _struct.error("pack expected %d items for packing (got %d)" % (vi, len(vals)))
    return SymBytes(out)


class Struct:
    def __init__(self, fmt):
        self.format = fmt
        self.size = calcsize(fmt)
        self._real = _struct.Struct(fmt)

    def unpack(self, b):
        return unpack(self.format, b)

    def unpack_from(self, b, offset=0):
        return unpack_from(self.format, b, offset)

    def pack(self, *v):
        return pack(self.format, *v)


class struct_module:
    """drop-in for `struct` inside a target module's globals"""

    error = _struct.error
    calcsize = staticmethod(calcsize)
    unpack = staticmethod(unpack)
    unpack_from = staticmethod(unpack_from)
    pack = staticmethod(pack)
    Struct = Struct


def int_from_bytes(b, byteorder="big", *, signed=False):
    it = _items(b)
    if byteorder == "little":
        it = it[::-1]
    v = be_int(it)
    if signed:
        raise Unsupported("signed from_bytes")
    return v


class _IntShim:
    """`int` lookalike for target-module globals: int.from_bytes on SymBytes"""

    def __call__(self, *a, **k):
        if a and type(a[0]) is SymInt:
            return a[0]
        return builtins.int(*a, **k)

    @staticmethod
    def from_bytes(b, byteorder="big", *, signed=False):
        if isinstance(b, SymBytes):
            return int_from_bytes(b, byteorder, signed=signed)
        return builtins.int.from_bytes(b, byteorder, signed=signed)

    def __instancecheck__(self, obj):
        return symx.sym_isinstance(obj, builtins.int)


def inet_ntop(af, b):
    """opaque token standing for the textual address: (family, byte items)"""
    if isinstance(b, SymBytes):
        c = b.concrete()
        if c is None:
            return SymAddr(af, tuple(b.items))
        b = c
    return socket.inet_ntop(af, b)


class SymAddr(str):
    """textual IP address with symbolic octets: an opaque str carrying (family, items)"""

    def __new__(cls, af, items):
        s = super().__new__(cls, "<symaddr>")
        s.af = af
        s.addr_items = items
        return s


def selfcheck():
    """validate the struct model against real struct on boundary vectors (concrete items wrapped
    in SymBytes so the model code path runs)"""
    import itertools

    n = 0
    for fmt in ("!B", "!H", "!h", "!I", "!HH", "!HHIH", "!HHHHHH", "!BBH", "!Q", "!i", "!2sH"):
        size = _struct.calcsize(fmt)
        for pat in (0x00, 0xFF, 0x80, 0x7F, 0x01):
            for rot in range(min(size, 3)):
                raw = bytes(((pat + i * 37 + rot * 91) & 0xFF) for i in range(size))
                got = unpack(fmt, SymBytes(list(raw)))
                got = tuple(g.concrete() if isinstance(g, SymBytes) else g for g in got)
                exp = _struct.unpack(fmt, raw)
                assert got == exp, (fmt, raw, got, exp)
                n += 1
    return n
