"""vf — verification framework for the mitmproxy properties (solver-based checking of the real code).

Engines:
  vf.symx   own concolic engine (z3 Int / BitVec symbols, fork-by-re-execution, exhaustion = verdict)
  vf.chx    CrossHair 0.0.110 driver (traced symbolic str/int kernels)
  vf.smt    SMT obligations generated from source text (regex -> z3, tables, lemmas)
See /verif/DESIGN.md.
"""
