"""Reference for RFC 6265 §5.1.3 (domain matching), §5.1.4 (path matching), §5.2.3 (Domain attribute
canonicalisation).  Written from the RFC text, independent of mitmproxy / http.cookiejar.

Weak readings (an oracle must not demand more than the property sentence):
  * leading dots of a Domain attribute and trailing root dots ("example.com.") are ignored on both sides
    — `example.com.` and `example.com` name the same host; RFC 6265 is silent about the root dot.
"""
import re

_IPV4 = re.compile(r"^\d+\.\d+\.\d+\.\d+$")


def is_ip(s: str) -> bool:
    return bool(_IPV4.match(s)) or ":" in s


def canon_host(h: str) -> str:
    return h.lower().rstrip(".")


def canon_domain_attr(d: str) -> str:
    """§5.2.3: drop the leading '.', lower-case (weak reading: every leading dot and the root dot)"""
    return d.lower().strip(".")


def domain_match(string: str, domain: str) -> bool:
    """§5.1.3 on canonicalised arguments: identical, or `domain` is a suffix of `string`, the character before the
    suffix is '.', and `string` is a host name (not an IP address)."""
    if not domain or not string:
        return False
    if string == domain:
        return True
    if len(string) > len(domain) and string.endswith(domain) and string[-len(domain) - 1] == "." and not is_ip(string):
        return True
    return False


def host_matches_attr(host: str, domain_attr: str) -> bool:
    return domain_match(canon_host(host), canon_domain_attr(domain_attr))


def request_path(target: str) -> str:
    """uri-path of a request target (origin form): everything before '?'"""
    return target.split("?", 1)[0]


def default_path(target: str) -> str:
    """§5.1.4 default-path"""
    p = request_path(target)
    if not p.startswith("/"):
        return "/"
    if p.count("/") == 1:
        return "/"
    return p[: p.rindex("/")]


def path_match(req_path: str, cookie_path: str) -> bool:
    """§5.1.4: identical; or cookie-path is a prefix and ends in '/'; or cookie-path is a prefix and the next
    character of the request-path is '/'."""
    if req_path == cookie_path:
        return True
    if cookie_path and req_path.startswith(cookie_path):
        if cookie_path.endswith("/"):
            return True
        if req_path[len(cookie_path)] == "/":
            return True
    return False
