"""Shared harness helpers for the flow-file properties (C36, C37, C38): selector-shaped tnetstring
values, solver-mutated test flows, strict structural equality, reader outcome classification.

Nothing here re-implements mitmproxy logic: values/flows are built with mitmproxy's own classes and
everything that is *decided* is decided by running the real dump/load/reader code.  The only oracle
code is `typed_eq` (structural equality that does not identify True/1/1.0) and `norm` (the
documented tuple -> list loss of the wire format).
"""
import io as _io
import os

REPO = os.environ.get("VERIF_REPO", "/repo")

# ------------------------------------------------------------------------------------------------
# equality


def norm(v):
    """what the tnetstring format can represent: tuples travel as lists"""
    if isinstance(v, (list, tuple)):
        return [norm(x) for x in v]
    if isinstance(v, dict):
        return {k: norm(x) for k, x in v.items()}
    return v


def typed_eq(a, b):
    """structural equality that distinguishes bool / int / float / str / bytes / list / tuple"""
    if type(a) is not type(b):
        return False
    if isinstance(a, (list, tuple)):
        return len(a) == len(b) and all(typed_eq(x, y) for x, y in zip(a, b))
    if isinstance(a, dict):
        # key order is not part of dict equality (the wire format reverses it)
        if len(a) != len(b) or sorted(map(_kt, a), key=repr) != sorted(map(_kt, b), key=repr):
            return False
        bk = {_kt(k): v for k, v in b.items()}
        return all(typed_eq(v, bk[_kt(k)]) for k, v in a.items())
    if isinstance(a, float):
        return a == b and str(a) == str(b)  # keeps -0.0 and 0.0 apart
    return a == b


def _kt(k):
    return (type(k).__name__, k)


def first_diff(a, b, path="state"):
    """human readable location of the first difference (for violation messages)"""
    if type(a) is not type(b):
        return f"{path}: {type(a).__name__} {a!r:.80} != {type(b).__name__} {b!r:.80}"
    if isinstance(a, dict):
        for k in a:
            if k not in b:
                return f"{path}: key {k!r} missing after reload"
        for k in b:
            if k not in a:
                return f"{path}: key {k!r} appeared after reload"
        for k in a:
            d = first_diff(a[k], b[k], f"{path}[{k!r}]")
            if d:
                return d
        return None
    if isinstance(a, (list, tuple)):
        if len(a) != len(b):
            return f"{path}: length {len(a)} != {len(b)}"
        for i, (x, y) in enumerate(zip(a, b)):
            d = first_diff(x, y, f"{path}[{i}]")
            if d:
                return d
        return None
    if not typed_eq(a, b):
        return f"{path}: {a!r:.80} != {b!r:.80}"
    return None


# ------------------------------------------------------------------------------------------------
# selector-shaped tnetstring values

# bytes that would confuse a delimiter-scanning parser (the format is length-prefixed, so none of them may matter)
ADV = [0x00, 0x3A, 0x2C, 0x5D, 0x7D, 0x30, 0xFF, 0x0A]  # NUL : , ] } 0 0xff LF
CHARS = ["a", ":", "é", "€", "\U0001f600", "\x00", "}"]  # 1..4 byte UTF-8 encodings, delimiters
TINY = [None, True, False, 0, -7, 10 ** 9, 1.5, b"", b":", b"]\x00", b"\xff}", "", "a", "é:", "\U0001f600]"]
KEYS = ["", "k", "é", b"k", 7, None]
FLOATS = [0.0, -0.0, 1.5, -2.25, 946681200.5, 1e300, 5e-324, float("inf"), float("-inf")]


def rich_int(X, tag):
    """ints by sign x digit count (1..20) x {10^(k-1), 10^k-1, lead*10^(k-1)+tail}; the digits in between never reach
    a Python-level branch of tnetstring (str(int)/int(bytes) are C)"""
    k = X.choose(tag + "digits", list(range(1, 21)))
    shape = X.choose(tag + "shape", ["lowest", "highest", "lead+tail"])
    if shape == "lowest":
        m = 10 ** (k - 1) if k > 1 else 0
    elif shape == "highest":
        m = 10 ** k - 1
    else:
        lead = X.choose(tag + "lead", [1, 5, 9])
        tail = X.choose(tag + "tail", [0, 9]) if k > 1 else 0
        m = lead * 10 ** (k - 1) + tail if k > 1 else lead
    return -m if X.boolean(tag + "neg") else m


def short_bytes(X, tag, alphabet=ADV, maxlen=2):
    n = X.choose(tag + "len", maxlen + 1)
    return bytes(X.choose(f"{tag}b{i}", alphabet) for i in range(n))


def short_str(X, tag, alphabet=CHARS, maxlen=2):
    n = X.choose(tag + "len", maxlen + 1)
    return "".join(X.choose(f"{tag}c{i}", alphabet) for i in range(n))


def rich_leaf(X, tag):
    t = X.choose(tag + "type", ["none", "true", "false", "int", "float", "bytes", "str"])
    if t == "none":
        return None
    if t == "true":
        return True
    if t == "false":
        return False
    if t == "int":
        return rich_int(X, tag)
    if t == "float":
        return X.choose(tag + "float", FLOATS)
    if t == "bytes":
        return short_bytes(X, tag)
    return short_str(X, tag)


def tiny(X, tag):
    return X.choose(tag, TINY)


def small_container(X, tag, inner=tiny, keys=KEYS):
    t = X.choose(tag + "ctype", ["list", "tuple", "dict"])
    n = X.choose(tag + "n", 3)
    if t == "dict":
        d = {}
        for i in range(n):
            k = X.choose(f"{tag}k{i}", [k for k in keys if not any(k == q for q in d)])
            d[k] = inner(X, f"{tag}v{i}")
        return d
    items = [inner(X, f"{tag}e{i}") for i in range(n)]
    return items if t == "list" else tuple(items)


def shaped_value(X, tag="v", nested=True):
    """None / bool / int / float / str <= 2 code points / bytes <= 2 / list, tuple, dict of <= 2 of those, one more
    level of nesting with a single-shape inner container"""
    shape = X.choose(tag + "shape", ["leaf", "container"] + (["nested"] if nested else []))
    if shape == "leaf":
        return rich_leaf(X, tag)
    if shape == "container":
        return small_container(X, tag)

    def inner(X, t):
        # fresh objects per call (the menu is rebuilt): inner containers next to a leaf that looks like a record
        return X.choose(t, [[], [None], [10, b":]"], (), {"k": None}, {"": [], b"k": "€"}, {7: {}}, b"0:~"])

    return small_container(X, tag, inner=inner, keys=["", b"k", 7])


# ------------------------------------------------------------------------------------------------
# reader outcome


def read_stream(data):
    """run the real FlowReader over `data` -> (flows yielded, outcome) where outcome is
    'clean' | ('flowread', message) ; any other exception propagates to the caller"""
    from mitmproxy import exceptions
    from mitmproxy.io import FlowReader

    out = []
    fo = data if hasattr(data, "read") else _io.BytesIO(data)
    try:
        for f in FlowReader(fo).stream():
            out.append(f)
    except exceptions.FlowReadException as e:
        return out, ("flowread", str(e))
    return out, "clean"


def write_flows(flows):
    from mitmproxy.io import FlowWriter

    b = _io.BytesIO()
    w = FlowWriter(b)
    offs = []
    for f in flows:
        w.add(f)
        offs.append(b.tell())
    return b.getvalue(), offs


# ------------------------------------------------------------------------------------------------
# test flows with solver-chosen field values

FLOW_KINDS = ["http-req", "http-resp", "http-err", "ws", "tcp", "tcp-err", "udp", "dns-req", "dns-resp", "dns-err"]

_CERT = None


def test_cert():
    global _CERT
    if _CERT is None:
        from mitmproxy import certs

        p = os.path.join(REPO, "test/mitmproxy/net/data/text_cert")
        if not os.path.exists(p):  # scratch copies used for mutation runs hold the package only
            p = "/repo/test/mitmproxy/net/data/text_cert"
        with open(p, "rb") as f:
            _CERT = certs.Cert.from_pem(f.read())
    return _CERT


def base_flow(kind):
    from mitmproxy.test import tflow

    if kind == "http-req":
        return tflow.tflow()
    if kind == "http-resp":
        return tflow.tflow(resp=True)
    if kind == "http-err":
        return tflow.tflow(err=True)
    if kind == "ws":
        return tflow.twebsocketflow()
    if kind == "tcp":
        return tflow.ttcpflow()
    if kind == "tcp-err":
        return tflow.ttcpflow(err=True)
    if kind == "udp":
        return tflow.tudpflow()
    if kind == "dns-req":
        return tflow.tdnsflow()
    if kind == "dns-resp":
        return tflow.tdnsflow(resp=True)
    if kind == "dns-err":
        return tflow.tdnsflow(err=True)
    raise KeyError(kind)


def _set(path):
    """setter for a dotted attribute path"""
    parts = path.split(".")

    def f(flow, v):
        o = flow
        for p in parts[:-1]:
            o = getattr(o, p)
        setattr(o, parts[-1], v)

    return f


def _mutations():
    """(name, applicable(kind) -> bool, apply(flow, value), value menu).  Menus hold boundary values of each field's
    type: ports 0/65535, empty strings, None where the type allows it, non-ASCII, bytes containing the format's delimiters."""
    from mitmproxy import connection, dns, flow as mflow, http, tcp, udp, websocket
    from mitmproxy.proxy.mode_specs import ProxyMode
    from wsproto.frame_protocol import Opcode

    anyk = lambda k: True  # noqa
    httpk = lambda k: k.startswith("http") or k == "ws"  # noqa
    respk = lambda k: k in ("http-resp", "ws")  # noqa
    wsk = lambda k: k == "ws"  # noqa
    msgk = lambda k: k.startswith("tcp") or k == "udp"  # noqa
    dnsk = lambda k: k.startswith("dns")  # noqa
    dnsrk = lambda k: k == "dns-resp"  # noqa
    S = ["", "a", "é€", ":]}", "x" * 100]
    TS = [0.0, 946681200.25, 1e10]
    OTS = [None, 0.0, 946681200.25]
    ADDR = [("127.0.0.1", 0), ("::1", 65535, 0, 0), ("fe80::1", 1, 0, 5), ("é.example", 443)]

    def hdrs(v):
        return http.Headers(v)

    H = [(), ((b"a", b""),), ((b"set-cookie", b"x"), (b"Set-Cookie", b"y"), (b"a", b"\xff:\x00")), ((b"x" * 9, b"y" * 90),)]
    M = []

    def add(name, app, fn, menu):
        M.append((name, app, fn, menu))

    # flow level
    add("comment", anyk, _set("comment"), S)
    add("marked", anyk, _set("marked"), ["", ":grapes:", "x", "\U0001f600"])
    add("intercepted", anyk, _set("intercepted"), [True, False])
    add("is_replay", anyk, _set("is_replay"), [None, "request", "response"])
    add("timestamp_created", anyk, _set("timestamp_created"), TS)
    add("id", anyk, _set("id"), ["", "not-a-uuid", "é"])
    add("metadata", anyk, _set("metadata"), [{}, {"k": "v"}, {"k": [1, b"x", None, {"n": 1.5, "": True}], "": []}, {"a": {"b": {"c": b"]"}}}, {7: "int key"}])
    add("error", anyk, _set("error"), [None, mflow.Error("msg", 946681207.5), mflow.Error("", 0.0), mflow.Error("€:]", 1e10)])
    add("backup", anyk, lambda f, v: (f.backup(), _set("comment")(f, v)), ["edited", ""])
    # client connection
    add("client.peername", anyk, _set("client_conn.peername"), ADDR)
    add("client.sockname", anyk, _set("client_conn.sockname"), ADDR)
    add("client.timestamp_start", anyk, _set("client_conn.timestamp_start"), TS)
    add("client.timestamp_end", anyk, _set("client_conn.timestamp_end"), OTS)
    add("client.timestamp_tls_setup", anyk, _set("client_conn.timestamp_tls_setup"), OTS)
    add("client.sni", anyk, _set("client_conn.sni"), [None, "", "é.example"])
    add("client.cipher", anyk, _set("client_conn.cipher"), [None, "", "TLS_AES_128_GCM_SHA256"])
    add("client.alpn", anyk, _set("client_conn.alpn"), [None, b"", b"h2", b"\xff"])
    add("client.alpn_offers", anyk, _set("client_conn.alpn_offers"), [[], [b"h2", b"http/1.1"], [b""]])
    add("client.cipher_list", anyk, _set("client_conn.cipher_list"), [[], ["A", "B"], [""]])
    add("client.tls_version", anyk, _set("client_conn.tls_version"), [None, "TLSv1.3", "QUICv1", "DTLSv1.2"])
    add("client.tls", anyk, _set("client_conn.tls"), [True, False])
    add("client.error", anyk, _set("client_conn.error"), [None, "", "boom"])
    add("client.state", anyk, _set("client_conn.state"), [connection.ConnectionState.CLOSED, connection.ConnectionState.OPEN,
                                                             connection.ConnectionState.CAN_READ, connection.ConnectionState.CAN_WRITE])
    add("client.transport_protocol", anyk, _set("client_conn.transport_protocol"), ["tcp", "udp"])
    add("client.certificate_list", anyk, lambda f, v: _set("client_conn.certificate_list")(f, [test_cert()] * v), [0, 1, 2])
    add("client.mitmcert", anyk, lambda f, v: _set("client_conn.mitmcert")(f, test_cert() if v else None), [False, True])
    add("client.proxy_mode", anyk, lambda f, v: _set("client_conn.proxy_mode")(f, ProxyMode.parse(v)),
        ["regular", "transparent", "socks5@1080", "reverse:https://example.com:8443", "upstream:http://proxy:8080", "dns", "wireguard", "local:curl"])
    add("client.id", anyk, _set("client_conn.id"), ["", "x"])
    # server connection
    add("server.address", anyk, _set("server_conn.address"), [None, ("h", 0), ("é.example", 65535)])
    add("server.peername", anyk, _set("server_conn.peername"), [None] + ADDR[:2])
    add("server.sockname", anyk, _set("server_conn.sockname"), [None] + ADDR[1:3])
    add("server.via", anyk, _set("server_conn.via"), [None, ("http", ("proxy", 8080)), ("https", ("é", 0))])
    add("server.timestamp_start", anyk, _set("server_conn.timestamp_start"), OTS)
    add("server.timestamp_tcp_setup", anyk, _set("server_conn.timestamp_tcp_setup"), OTS)
    add("server.timestamp_tls_setup", anyk, _set("server_conn.timestamp_tls_setup"), OTS)
    add("server.timestamp_end", anyk, _set("server_conn.timestamp_end"), OTS)
    add("server.sni", anyk, _set("server_conn.sni"), [None, "", "example.com"])
    add("server.alpn", anyk, _set("server_conn.alpn"), [None, b"h3"])
    add("server.tls", anyk, _set("server_conn.tls"), [True, False])
    add("server.tls_version", anyk, _set("server_conn.tls_version"), [None, "TLSv1.2", "QUICv1"])
    add("server.certificate_list", anyk, lambda f, v: _set("server_conn.certificate_list")(f, [test_cert()] * v), [0, 1])
    add("server.error", anyk, _set("server_conn.error"), [None, "connection refused"])
    add("server.state", anyk, _set("server_conn.state"), [connection.ConnectionState.CLOSED, connection.ConnectionState.OPEN])
    add("server.transport_protocol", anyk, _set("server_conn.transport_protocol"), ["tcp", "udp"])
    # http request / response
    add("request.method", httpk, _set("request.data.method"), [b"", b"GET", b"\xff M"])
    add("request.scheme", httpk, _set("request.data.scheme"), [b"", b"https"])
    add("request.host", httpk, _set("request.data.host"), ["", "é.example", "::1"])
    add("request.port", httpk, _set("request.data.port"), [0, 1, 65535])
    add("request.authority", httpk, _set("request.data.authority"), [b"", b"example.com:443", b"\xff"])
    add("request.path", httpk, _set("request.data.path"), [b"", b"*", b"/\xff?:]", b"/" + b"a" * 200])
    add("request.http_version", httpk, _set("request.data.http_version"), [b"HTTP/1.0", b"HTTP/2.0", b"HTTP/3", b""])
    add("request.headers", httpk, lambda f, v: _set("request.data.headers")(f, hdrs(v)), H)
    add("request.content", httpk, _set("request.data.content"), [None, b"", b"\x00\xff]}:,", b"x" * 1000])
    add("request.trailers", httpk, lambda f, v: _set("request.data.trailers")(f, None if v is None else hdrs(v)), [None] + H[:3])
    add("request.timestamp_start", httpk, _set("request.data.timestamp_start"), [0, 946681200, 946681200.25])
    add("request.timestamp_end", httpk, _set("request.data.timestamp_end"), [None, 0.0, 946681201])
    add("response.status_code", respk, _set("response.data.status_code"), [0, 100, 200, 999])
    add("response.reason", respk, _set("response.data.reason"), [b"", b"OK", b"\xff\x00"])
    add("response.http_version", respk, _set("response.data.http_version"), [b"HTTP/1.1", b"HTTP/2.0", b""])
    add("response.headers", respk, lambda f, v: _set("response.data.headers")(f, hdrs(v)), H)
    add("response.content", respk, _set("response.data.content"), [None, b"", b"\x00\xff]}:,", b"y" * 99])
    add("response.trailers", respk, lambda f, v: _set("response.data.trailers")(f, None if v is None else hdrs(v)), [None] + H[:3])
    add("response.timestamp_start", respk, _set("response.data.timestamp_start"), [0, 946681202.5])
    add("response.timestamp_end", respk, _set("response.data.timestamp_end"), [None, 946681203])
    # websocket
    WM = websocket.WebSocketMessage
    add("websocket.messages", wsk, _set("websocket.messages"),
        [[], [WM(Opcode.TEXT, True, b"", 1.5)], [WM(Opcode.BINARY, False, b"\x00\xff]", 946681203.5, True, False), WM(Opcode.TEXT, True, b"\xc3\xa9", 2.0, False, True)]])
    add("websocket.close_code", wsk, _set("websocket.close_code"), [None, 1000, 1006, 4999])
    add("websocket.close_reason", wsk, _set("websocket.close_reason"), [None, "", "bye €"])
    add("websocket.closed_by_client", wsk, _set("websocket.closed_by_client"), [None, True, False])
    add("websocket.timestamp_end", wsk, _set("websocket.timestamp_end"), OTS)
    # tcp / udp messages
    add("messages", msgk, lambda f, v: _set("messages")(f, [(tcp.TCPMessage if isinstance(f, tcp.TCPFlow) else udp.UDPMessage)(*a) for a in v]),
        [[], [(True, b"", 0.0)], [(False, b"\x00\xff]}:,", 946681204.5), (True, b"x" * 300, 1.0), (True, b"1:", 2.0)]])
    # dns
    add("dns.request.id", dnsk, _set("request.id"), [0, 65535])
    add("dns.request.flags", dnsk, lambda f, v: [setattr(f.request, n, v) for n in ("query", "authoritative_answer", "truncation", "recursion_desired", "recursion_available")], [True, False])
    add("dns.request.op_code", dnsk, _set("request.op_code"), [0, 2, 15])
    add("dns.request.response_code", dnsk, _set("request.response_code"), [0, 3, 15])
    add("dns.request.reserved", dnsk, _set("request.reserved"), [0, 7])
    add("dns.request.timestamp", dnsk, _set("request.timestamp"), [None, 0.0, 946681200.5])
    add("dns.request.questions", dnsk, _set("request.questions"),
        [[], [dns.Question("", dns.types.A, dns.classes.IN)], [dns.Question("é.example", 65535, 65535), dns.Question("a.b", dns.types.AAAA, dns.classes.IN)]])
    RR = dns.ResourceRecord
    add("dns.response.answers", dnsrk, _set("response.answers"),
        [[], [RR("", dns.types.TXT, dns.classes.IN, 0, b"")], [RR("x.example", dns.types.A, dns.classes.IN, 2 ** 32 - 1, b"\x00\xff]}"), RR("y", 65535, 65535, 1, b"\x03abc")]])
    add("dns.response.authorities", dnsrk, _set("response.authorities"), [[], [RR("n", dns.types.NS, dns.classes.IN, 5, b"\x02ns\x00")]])
    add("dns.response.additionals", dnsrk, _set("response.additionals"), [[], [RR("o", dns.types.OPT, 1232, 0, b"")]])
    add("dns.response.timestamp", dnsrk, _set("response.timestamp"), [None, 946681201.5])
    return M


def mutations_for(kind):
    # rebuilt on every call: the menus hold mutable objects that must not be shared between paths
    return [m for m in _mutations() if m[1](kind)]


def mutated_flow(X, tag, kind, nmut):
    """a fresh test flow of `kind` with up to `nmut` solver-chosen (field, value) mutations applied"""
    f = base_flow(kind)
    muts = mutations_for(kind)
    done = []
    last = -1
    for j in range(nmut):
        # fields are chosen in increasing menu order so that {a, b} is explored once
        cand = [i for i in range(len(muts)) if i > last]
        if not cand:
            break
        i = X.choose(f"{tag}field{j}", [-1] + cand)
        if i < 0:
            break
        last = i
        name, _, fn, menu = muts[i]
        v = X.choose(f"{tag}value{j}", len(menu))
        fn(f, menu[v])
        done.append((name, v))
    return f, done



# ------------------------------------------------------------------------------------------------
# attribute-level view of a flow, written without get_state()/Serializable: what an addon reading the
# loaded flow's attributes sees.  (Comparing get_state() of the written and the read flow cannot see a
# loss that get_state() itself commits on both sides.)

_ATTR_SKIP = {"live",  # not part of the file: loaded flows are never live
              "state"}  # connection state: compared through get_state (a loaded connection is reported closed)


def attr_view(o, depth=0):
    import enum

    if depth > 12:
        return "<deep>"
    if isinstance(o, bool) or o is None or isinstance(o, (str, bytes)):
        return (type(o).__name__, o)
    if isinstance(o, (int, float)):
        return ("num", float(o))  # declared-float fields hold ints in test flows; the file stores the value
    if isinstance(o, enum.Enum):
        return ("enum", type(o).__name__, o.value)
    if isinstance(o, (list, tuple)):
        return ("seq", [attr_view(x, depth + 1) for x in o])
    if isinstance(o, dict):
        return ("dict", {repr(k): attr_view(v, depth + 1) for k, v in o.items()})
    if hasattr(o, "to_pem"):
        return ("cert", o.to_pem())
    if hasattr(o, "full_spec"):
        return ("mode", o.full_spec)
    if isinstance(getattr(o, "fields", None), tuple):
        return ("multidict", type(o).__name__, o.fields)
    d = {}
    if hasattr(o, "__dict__"):
        d.update(vars(o))
    for c in type(o).__mro__:
        for s_ in getattr(c, "__slots__", ()):
            if hasattr(o, s_):
                d[s_] = getattr(o, s_)
    return ("obj", type(o).__name__, {k: attr_view(v, depth + 1) for k, v in d.items() if not k.startswith("_") and k not in _ATTR_SKIP})


def attr_diff(a, b, path=""):
    """first difference between two attr_views (None if equal); attributes present on one side only are ignored"""
    if type(a) is not type(b) or (isinstance(a, tuple) and a and b and a[0] != b[0]):
        return f"{path}: {a!r} != {b!r}"[:300]
    if isinstance(a, tuple) and a and a[0] == "obj":
        if a[1] != b[1]:
            return f"{path}: {a[1]} != {b[1]}"
        for k in sorted(set(a[2]) & set(b[2])):
            d = attr_diff(a[2][k], b[2][k], f"{path}.{k}")
            if d:
                return d
        return None
    if isinstance(a, tuple) and a and a[0] == "seq":
        if len(a[1]) != len(b[1]):
            return f"{path}: length {len(a[1])} != {len(b[1])}"
        for i, (x, y) in enumerate(zip(a[1], b[1])):
            d = attr_diff(x, y, f"{path}[{i}]")
            if d:
                return d
        return None
    if isinstance(a, tuple) and a and a[0] == "dict":
        if set(a[1]) != set(b[1]):
            return f"{path}: keys {sorted(a[1])} != {sorted(b[1])}"
        for k in sorted(a[1]):
            d = attr_diff(a[1][k], b[1][k], f"{path}{{{k}}}")
            if d:
                return d
        return None
    return None if a == b else f"{path}: {a!r} != {b!r}"[:300]

# ------------------------------------------------------------------------------------------------
# symbolic files: the reader runs on buffers whose bytes are solver variables

import builtins as _bi  # noqa: E402

from vf import symx as _symx  # noqa: E402
from vf.symbytes import SymBytes as _SymBytes  # noqa: E402

_SymInt = _symx.SymInt
_X = None  # explorer of the current path (set by `sym_reader_env`); shims fork through it


def _wrap(items):
    """bytes if every item is concrete, else a SymView"""
    if all(type(x) is not _SymInt for x in items):
        return _bi.bytes(items)
    return SymView(items)


def _bound(b, n):
    """slice bound with Python's clamping; a symbolic bound forks into {>= n, < -n, each value in between}"""
    if type(b) is _SymInt:
        if _bi.bool(b >= n):
            return n
        if _bi.bool(b < -n):
            return -n
        return _symx.concretize(b)
    return b


class SymView(_SymBytes):
    """memoryview / bytes lookalike over symbolic byte items (what `memoryview(file.read(n))` is to tnetstring)"""

    def __getitem__(self, k):
        n = len(self.items)
        if isinstance(k, slice):
            if k.step is not None:
                raise _symx.Unsupported("slice step on SymView")
            # a slice of a view is a view (even when empty / fully concrete), as with memoryview
            return SymView(self.items[slice(None if k.start is None else _bound(k.start, n), None if k.stop is None else _bound(k.stop, n))])
        if type(k) is _SymInt:
            if _bi.bool(k >= n) or _bi.bool(k < -n):
                raise IndexError("index out of bounds on dimension 1")
            k = _symx.concretize(k)
        return self.items[k]

    def isdigit(self):
        if not self.items:
            return False
        for it in self.items:
            if type(it) is _SymInt:
                if not _bi.bool((it >= 0x30) & (it <= 0x39)):
                    return False
            elif not 0x30 <= it <= 0x39:
                return False
        return True

    def tobytes(self):
        return _wrap(self.items)

    def __repr__(self):
        return "<symview %d>" % len(self.items)


class SymFile:
    """read-only binary file whose content is a list of byte items (ints or 8-bit SymInts).  It has no peek(), like
    io.BytesIO, so FlowReader.peek takes its tell/read/seek fallback."""

    def __init__(self, items):
        self.items = list(items)
        self.pos = 0

    def read(self, n=-1):
        rem = len(self.items) - self.pos
        if n is None:
            n = -1
        if type(n) is _SymInt:
            # a length prefix that reaches the end of the file (or beyond) is ONE path, whatever its value
            if _bi.bool(n < 0) or _bi.bool(n >= rem):
                n = rem
            else:
                n = _symx.concretize(n)
        elif n < 0 or n > rem:
            n = rem
        chunk = self.items[self.pos:self.pos + n]
        self.pos += len(chunk)
        return _wrap(chunk)

    def tell(self):
        return self.pos

    def seek(self, pos, whence=0):
        if whence != 0:
            raise _symx.Unsupported("seek whence")
        self.pos = pos
        return pos


class SymStr(str):
    """opaque text decoded from symbolic bytes: some str of unknown content (never equal to a key mitmproxy looks up)"""

    def __new__(cls, items):
        s = super().__new__(cls, "�<symstr>")
        s.sym_items = items
        return s


_INT_CLASS = {**{c: "D" for c in range(0x30, 0x3A)}, 0x2B: "+", 0x2D: "-", 0x5F: "_", **{c: "W" for c in (9, 10, 11, 12, 13, 32)}}


def _int_class(it):
    if type(it) is not _SymInt:
        return _INT_CLASS.get(it, "O")
    if _bi.bool((it >= 0x30) & (it <= 0x39)):
        return "D"
    if _bi.bool(it == 0x2B):
        return "+"
    if _bi.bool(it == 0x2D):
        return "-"
    if _bi.bool(it == 0x5F):
        return "_"
    if _bi.bool(((it >= 9) & (it <= 13)) | (it == 32)):
        return "W"
    return "O"


_REP = {"D": b"1", "+": b"+", "-": b"-", "_": b"_", "W": b" "}


def sym_int_of_bytes(x):
    """contract model of int(<bytes-like>) for symbolic content.  Contract (validated by `validate_shims`):
    (1) a literal containing a byte outside [0-9+-_ \\t\\n\\v\\f\\r] is invalid; (2) whether a literal over that alphabet is
    valid depends only on the class sequence (digit / + / - / _ / whitespace) — decided by calling the real int() on a
    representative; (3) the value of a valid literal is the decimal value of its digits, negated after a '-'."""
    items = x.items
    classes = []
    for it in items:
        c = _int_class(it)
        if c == "O":
            raise ValueError("invalid literal for int() with base 10: <symbolic>")
        classes.append(c)
    _bi.int(b"".join(_REP[c] for c in classes))  # raises ValueError for invalid shapes ('' / '1 1' / '__' / '+-1' ...)
    val = 0
    for it, c in zip(items, classes):
        if c == "D":
            val = val * 10 + (it - 0x30)
    return -val if "-" in classes else val


class _IntShim:
    def __call__(self, *a, **k):
        if len(a) == 1 and not k and isinstance(a[0], _SymBytes):
            c = a[0].concrete()
            return _bi.int(c) if c is not None else sym_int_of_bytes(a[0])
        if a and type(a[0]) is _SymInt:
            return a[0]
        return _bi.int(*a, **k)

    def __instancecheck__(self, obj):
        return _symx.sym_isinstance(obj, _bi.int)


class _FloatShim:
    def __call__(self, *a, **k):
        if len(a) == 1 and isinstance(a[0], _SymBytes):
            c = a[0].concrete()
            if c is not None:
                return _bi.float(c)
            # nondeterministic contract: float(<bytes>) either raises ValueError or returns some float
            if _X.boolean("float_literal_valid"):
                return 1.5
            raise ValueError("could not convert string to float: <symbolic>")
        return _bi.float(*a, **k)

    def __instancecheck__(self, obj):
        return _bi.isinstance(obj, _bi.float)


class _StrShim:
    def __call__(self, *a, **k):
        if a and isinstance(a[0], _SymBytes):
            c = a[0].concrete()
            if c is not None:
                return _bi.str(c, *a[1:], **k)
            if a[1:] not in (("utf8",), ("utf-8",)):
                raise _symx.Unsupported("str() of symbolic bytes with encoding %r" % (a[1:],))
            # nondeterministic contract: UTF-8 decoding either fails (only possible with a byte >= 0x80) or gives some text
            if _X.boolean("utf8_valid"):
                return SymStr(a[0].items)
            hi = None
            for it in a[0].items:
                t = (it >= 0x80) if type(it) is _SymInt else it >= 0x80
                hi = t if hi is None else (hi | t)
            _X.assume(hi)
            raise UnicodeDecodeError("utf-8", b"", 0, 1, "invalid byte (symbolic)")
        return _bi.str(*a, **k)

    def __instancecheck__(self, obj):
        return _bi.isinstance(obj, _bi.str)


def _memoryview_shim(x):
    if isinstance(x, _SymBytes):
        return SymView(x.items)
    return _bi.memoryview(x)


class SymKeyDict(dict):
    """dict whose lookups accept symbolic int / tuple-of-int keys: a symbolic key is compared with every stored key
    (one fork per key) instead of being hashed (which would enumerate all its values)"""

    @staticmethod
    def _has_sym(k):
        return type(k) is _SymInt or (isinstance(k, tuple) and any(type(x) is _SymInt for x in k))

    def _find(self, k):
        for key in dict.keys(self):
            if type(k) is _SymInt:
                if type(key) is _bi.int and _bi.bool(k == key):
                    return key
            elif isinstance(key, tuple) and len(key) == len(k):
                if all(_bi.bool(a == b) if type(a) is _SymInt else a == b for a, b in zip(k, key)):
                    return key
        return _MISSING

    def __contains__(self, k):
        if self._has_sym(k):
            return self._find(k) is not _MISSING
        return dict.__contains__(self, k)

    def __getitem__(self, k):
        if self._has_sym(k):
            key = self._find(k)
            if key is _MISSING:
                raise KeyError(k)
            return dict.__getitem__(self, key)
        return dict.__getitem__(self, k)


_MISSING = object()


class sym_reader_env:
    """context manager: install the contract shims into the modules the reader runs through, restore afterwards"""

    STUBS = [
        "tnetstring.int -> symbolic decimal parser for symbolic bytes (validity by class sequence via the real int(), value from digits)",
        "tnetstring.float / tnetstring.str(.,'utf8') on symbolic bytes -> nondeterministic {ValueError, opaque value}",
        "tnetstring.memoryview -> SymView (slicing / indexing with symbolic bounds forks over clamped positions)",
        "file object -> SymFile (tell/read/seek, no peek: same interface FlowReader uses on io.BytesIO)",
        "compat.isinstance -> isinstance(symint, int) is True; compat.converters -> SymKeyDict (symbolic keys compared, not hashed)",
        "str(symint) inside error messages -> '<sym>'",
    ]

    def __init__(self, X):
        self.X = X

    def __enter__(self):
        global _X
        from mitmproxy.io import compat, tnetstring

        self.tn, self.compat = tnetstring, compat
        _X = self.X
        self.X.opaque_str(True)
        tnetstring.int, tnetstring.float, tnetstring.str, tnetstring.memoryview = _IntShim(), _FloatShim(), _StrShim(), _memoryview_shim
        self.saved_conv = compat.converters
        compat.converters = SymKeyDict(compat.converters)
        _symx.install_isinstance(compat)
        return self

    def __exit__(self, *a):
        global _X
        for n in ("int", "float", "str", "memoryview"):
            self.tn.__dict__.pop(n, None)
        self.compat.converters = self.saved_conv
        _symx.uninstall_isinstance(self.compat)
        _X = None
        return False


def validate_shims():
    """check the int() contract used by `sym_int_of_bytes` against the real C function (exhaustive for <= 2 bytes,
    class-sequence closure for <= 4 symbols) and the symbolic decimal value on concrete digits wrapped as SymBytes"""
    import itertools

    n = 0
    alpha = set(_INT_CLASS)
    for b in range(256):
        for lit in (_bi.bytes([b]), b"1" + _bi.bytes([b]), _bi.bytes([b]) + b"1", b"1" + _bi.bytes([b]) + b"2"):
            try:
                _bi.int(lit)
                ok = True
            except ValueError:
                ok = False
            if b not in alpha:
                assert not ok, lit
            n += 1
    members = {"D": b"0379", "+": b"+", "-": b"-", "_": b"_", "W": b" \t\n\x0b\x0c\r"}
    for k in range(0, 5):
        for seq in itertools.product("D+-_W", repeat=k):
            outs = set()
            for pick in (0, -1):
                lit = _bi.bytes(members[c][pick] for c in seq)
                try:
                    v = _bi.int(lit)
                except ValueError:
                    v = None
                outs.add(v is None)
                # the model on the same literal (items wrapped so that the model path runs)
                try:
                    mv = sym_int_of_bytes(_SymBytes(list(lit)))
                except ValueError:
                    mv = None
                assert mv == v, (lit, mv, v)
                n += 1
            assert len(outs) == 1, seq
    return n
