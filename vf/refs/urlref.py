"""Reference URL splitter / normaliser written from RFC 3986 (sections 3, 3.2.2, 3.2.3, 6.2.2, 6.2.3), RFC 9110
(section 4.2.3: http(s) normalisation, section 7.2: Host = uri-host [":" port]) and RFC 3490 (IDNA ToASCII, here a
literal table for the labels the harness menus use).  Independent of mitmproxy and of urllib.parse.

    split(url)      -> Parts(scheme, host, port_text, rest)        raises Invalid
    authority(a)    -> (host_text, port_text | None)               raises Invalid
    norm(url)       -> (scheme, hostkey, effective_port, rest)     raises Invalid
    hostkey(host)   -> comparable key: ("ip6", int, zone) | ("ip4", int) | ("name", "a-label.a-label")
"""
import ipaddress

DEFAULT_PORT = {"http": 80, "https": 443}

# U-label -> A-label (RFC 3492 punycode of the nameprepped label); literal oracle table for the menu labels
U2A = {"bücher": "xn--bcher-kva", "例え": "xn--r8jz45g", "münchen": "xn--mnchen-3ya"}

_ALPHA = "abcdefghijklmnopqrstuvwxyzABCDEFGHIJKLMNOPQRSTUVWXYZ"
_DIGIT = "0123456789"
_HEX = _DIGIT + "abcdefABCDEF"
_UNRESERVED = _ALPHA + _DIGIT + "-._~"
_SUBDELIMS = "!$&'()*+,;="
_PCHAR_EXTRA = ":@"
_REST_OK = set(_UNRESERVED + _SUBDELIMS + _PCHAR_EXTRA + "/?#%")  # characters that may appear literally after the authority


class Invalid(ValueError):
    pass


class Parts:
    def __init__(self, scheme, host, port_text, rest, userinfo=None):
        self.scheme, self.host, self.port_text, self.rest, self.userinfo = scheme, host, port_text, rest, userinfo

    def __repr__(self):
        return f"Parts({self.scheme!r},{self.host!r},{self.port_text!r},{self.rest!r})"


def authority(a):
    """host [":" port] (no userinfo).  IPv6 literals must be bracketed; a reg-name / IPv4 host has no colon."""
    if a.startswith("["):
        j = a.find("]")
        if j < 0:
            raise Invalid("unterminated IP-literal")
        host, tail = a[: j + 1], a[j + 1:]
        if tail == "":
            port = None
        elif tail.startswith(":"):
            port = tail[1:]
        else:
            raise Invalid("garbage after IP-literal")
    else:
        n = a.count(":")
        if n == 0:
            host, port = a, None
        elif n == 1:
            host, port = a.split(":")
        else:
            raise Invalid("more than one colon outside an IP-literal")
    if host == "":
        raise Invalid("empty host")
    if port is not None and any(c not in _DIGIT for c in port):
        raise Invalid("port is not *DIGIT")
    return host, port


def split(url):
    i = url.find("://")
    if i <= 0:
        raise Invalid("no scheme")
    scheme = url[:i]
    if scheme[0] not in _ALPHA or any(c not in _ALPHA + _DIGIT + "+-." for c in scheme):
        raise Invalid("bad scheme")
    after = url[i + 3:]
    end = len(after)
    for d in "/?#":
        k = after.find(d)
        if k >= 0:
            end = min(end, k)
    auth, rest = after[:end], after[end:]
    userinfo = None
    if "@" in auth:
        userinfo, auth = auth.rsplit("@", 1)
    host, port = authority(auth)
    return Parts(scheme, host, port, rest, userinfo)


def hostkey(host):
    """identity of a host under case folding, IDNA ToASCII and IP literal value"""
    h = host
    if h.startswith("[") and h.endswith("]"):
        h = h[1:-1]
        if ":" not in h:
            raise Invalid("bracketed host is not an IPv6 literal")
    if ":" in h:
        zone = None
        for sep in ("%25", "%"):
            if sep in h:
                h, zone = h.split(sep, 1)
                break
        try:
            return ("ip6", int(ipaddress.IPv6Address(h)), zone)
        except ValueError as e:
            raise Invalid(str(e))
    parts = h.split(".")
    if len(parts) == 4 and all(p and all(c in _DIGIT for c in p) for p in parts):
        try:
            return ("ip4", int(ipaddress.IPv4Address(h)))
        except ValueError as e:
            raise Invalid(str(e))
    out = []
    for lab in h.lower().split("."):
        if any(ord(c) > 127 for c in lab):
            if lab not in U2A:
                raise Invalid("U-label outside the reference table: %r" % lab)
            lab = U2A[lab]
        out.append(lab)
    return ("name", ".".join(out))


def effective_port(scheme, port_text):
    s = scheme.lower()
    if port_text is None or port_text == "":
        if s not in DEFAULT_PORT:
            raise Invalid("no default port for scheme")
        return DEFAULT_PORT[s]
    return int(port_text)


def norm_rest(rest):
    """path-abempty ["?" query] ["#" fragment]: empty path == "/", characters outside the URI repertoire are
    percent-encoded as UTF-8, hex digits of percent-triplets upper-cased (RFC 3986 6.2.2.1 / 6.2.3).
    Weaker reading of "equivalent": an empty query / fragment ("/p?" , "/p#") is the same as an absent one
    (RFC 3986 6.2.3 leaves this to the scheme; http origin servers do not distinguish them)."""
    if rest == "" or rest[0] in "?#":
        rest = "/" + rest
    pq, hsh, frag = rest.partition("#")
    path, qm, query = pq.partition("?")
    rest = path + ("?" + query if query else "") + ("#" + frag if frag else "")
    out = []
    i = 0
    while i < len(rest):
        c = rest[i]
        if c == "%" and len(rest) - i >= 3 and rest[i + 1] in _HEX and rest[i + 2] in _HEX:
            out.append("%" + rest[i + 1: i + 3].upper())
            i += 3
            continue
        if c in _REST_OK:
            out.append(c)
        else:
            out.append("".join("%%%02X" % b for b in c.encode("utf-8", "surrogateescape")))
        i += 1
    return "".join(out)


def norm(url):
    p = split(url)
    return (p.scheme.lower(), hostkey(p.host), effective_port(p.scheme, p.port_text), norm_rest(p.rest))


def names(authority_text, scheme, host, port):
    """does a Host header / :authority value name (host, port) for this scheme?  -> (bool, reason)"""
    try:
        h, pt = authority(authority_text)
        hk = hostkey(h)
        if ":" in h and not h.startswith("["):
            raise Invalid("IPv6 literal without brackets")
        want = hostkey(host)
    except Invalid as e:
        return False, f"not a valid host[:port]: {e}"
    if hk != want:
        return False, f"names host {h!r}, expected {host!r}"
    p = effective_port(scheme, pt)
    if p != port:
        return False, f"names port {p}, expected {port}"
    return True, ""
