"""Independent RFC 9112 reference: framing decision (§6.3) and a strict HTTP/1 message parser.

Written from the RFC text, not from mitmproxy's code.  Used as the oracle of C01/C02/C06/C12.
The decision function returns either ("reject", reason) — a recipient MUST treat the framing as
invalid — or the framing a conforming recipient derives.  mitmproxy may always be stricter (reject
what the reference accepts); it must never accept what the reference rejects, and when it accepts it
must derive the same framing.
"""
from __future__ import annotations

TCHAR = set(b"!#$%&'*+-.^_`|~0123456789abcdefghijklmnopqrstuvwxyzABCDEFGHIJKLMNOPQRSTUVWXYZ")
KNOWN_CODINGS = {b"chunked", b"compress", b"deflate", b"gzip", b"identity", b"x-gzip", b"x-compress"}


def is_token(b: bytes) -> bool:
    return len(b) > 0 and all(c in TCHAR for c in b)


def _ows_strip(v: bytes) -> bytes:
    return v.strip(b" \t")


def parse_cl(values):
    """-> int, or raises ValueError (RFC 9110 §8.6: 1*DIGIT; a list is valid only if all members equal)"""
    nums = set()
    for v in values:
        for part in v.split(b","):
            p = _ows_strip(part)
            if not p or not all(48 <= c <= 57 for c in p):
                raise ValueError("content-length not 1*DIGIT")
            nums.add(int(p))
    if len(nums) != 1:
        raise ValueError("conflicting content-length values")
    return nums.pop()


def parse_te(values):
    """-> list of lower-case codings, or ValueError"""
    out = []
    for v in values:
        if any(c >= 0x80 for c in v):
            raise ValueError("non-ascii transfer-coding")
        for part in v.split(b","):
            p = _ows_strip(part).lower()
            if not p:
                raise ValueError("empty transfer-coding")
            name = p.split(b";")[0].strip(b" \t")
            if not is_token(name):
                raise ValueError("transfer-coding not a token")
            if name not in KNOWN_CODINGS:
                raise ValueError("unknown transfer-coding")
            out.append(name)
    return out


def framing(kind, version, method, status, fields):
    """kind: "request"/"response"; method: the request method (for responses: of the request answered)
    -> ("reject", reason) | ("length", n) | ("chunked",) | ("until-close",)"""
    te, cl = [], []
    for name, value in fields:
        if not is_token(name):
            return ("reject", "invalid-field-name")
        ln = name.lower()
        if ln == b"transfer-encoding":
            te.append(value)
        elif ln == b"content-length":
            cl.append(value)
    if te and cl:
        return ("reject", "cl-and-te")
    codings = None
    if te:
        try:
            codings = parse_te(te)
        except ValueError as e:
            return ("reject", "bad-te")
        if codings.count(b"chunked") > 1:
            return ("reject", "chunked-twice")
        if b"chunked" in codings and codings[-1] != b"chunked":
            return ("reject", "chunked-not-final") if kind == "request" else ("until-close",) if False else ("reject", "chunked-not-final")
        if kind == "request" and codings[-1] != b"chunked":
            return ("reject", "request-te-without-final-chunked")
    n = None
    if cl:
        try:
            n = parse_cl(cl)
        except ValueError:
            return ("reject", "bad-cl")
    if kind == "response":
        if method == b"HEAD" or 100 <= status <= 199 or status in (204, 304):
            return ("length", 0)
        if method == b"CONNECT" and 200 <= status <= 299:
            return ("length", 0)
    if te:
        if codings[-1] == b"chunked":
            return ("chunked",)
        return ("until-close",)
    if cl:
        return ("length", n)
    if kind == "request":
        return ("length", 0)
    return ("until-close",)


class ParseError(Exception):
    pass


class Incomplete(Exception):
    pass


class Msg:
    def __init__(self):
        self.kind = None
        self.method = self.target = self.version = None
        self.status = self.reason = None
        self.fields = []
        self.body = b""
        self.trailers = []
        self.framing = None

    def header_list(self):
        return [(n.lower(), v) for n, v in self.fields]

    def __repr__(self):
        if self.kind == "request":
            return f"<req {self.method!r} {self.target!r} {self.fields} body={self.body!r}>"
        return f"<resp {self.status} {self.fields} body={self.body!r}>"


def _read_line(buf, pos):
    i = buf.find(b"\r\n", pos)
    if i < 0:
        if b"\n" in buf[pos:]:
            raise ParseError("bare LF line terminator")
        raise Incomplete()
    line = buf[pos:i]
    if b"\r" in line or b"\n" in line or b"\0" in line:
        raise ParseError("CR/LF/NUL inside line")
    return line, i + 2


def _read_fields(buf, pos):
    fields = []
    while True:
        line, pos = _read_line(buf, pos)
        if line == b"":
            return fields, pos
        if line[:1] in (b" ", b"\t"):
            raise ParseError("obs-fold")
        name, sep, value = line.partition(b":")
        if not sep or not is_token(name):
            raise ParseError(f"bad field line {line!r}")
        fields.append((name, _ows_strip(value)))


def parse_message(buf: bytes, pos: int, kind: str, req_method: bytes | None = None, eof: bool = False):
    """parse one message starting at pos -> (Msg, newpos); raises Incomplete / ParseError"""
    m = Msg()
    m.kind = kind
    line, pos = _read_line(buf, pos)
    parts = line.split(b" ")
    if kind == "request":
        if len(parts) != 3 or not is_token(parts[0]) or not parts[1] or not parts[2].startswith(b"HTTP/1."):
            raise ParseError(f"bad request line {line!r}")
        m.method, m.target, m.version = parts
        method = m.method
    else:
        if len(parts) < 2 or not parts[0].startswith(b"HTTP/1.") or len(parts[1]) != 3 or not parts[1].isdigit():
            raise ParseError(f"bad status line {line!r}")
        m.version, m.status = parts[0], int(parts[1])
        m.reason = b" ".join(parts[2:])
        method = req_method
    m.fields, pos = _read_fields(buf, pos)
    fr = framing(kind, m.version, method, m.status, m.fields)
    m.framing = fr
    if fr[0] == "reject":
        raise ParseError("framing: " + fr[1])
    if fr[0] == "length":
        if len(buf) - pos < fr[1]:
            raise Incomplete()
        m.body = buf[pos : pos + fr[1]]
        pos += fr[1]
    elif fr[0] == "chunked":
        body = b""
        while True:
            line, pos = _read_line(buf, pos)
            size_s = line.split(b";")[0].strip(b" \t")
            if not size_s or not all(c in b"0123456789abcdefABCDEF" for c in size_s):
                raise ParseError(f"bad chunk size {line!r}")
            size = int(size_s, 16)
            if size == 0:
                break
            if len(buf) - pos < size + 2:
                raise Incomplete()
            body += buf[pos : pos + size]
            if buf[pos + size : pos + size + 2] != b"\r\n":
                raise ParseError("chunk not terminated by CRLF")
            pos += size + 2
        m.trailers, pos = _read_fields(buf, pos)
        m.body = body
    else:  # until close
        if not eof:
            raise Incomplete()
        m.body = buf[pos:]
        pos = len(buf)
    return m, pos


def parse_stream(buf: bytes, kind: str, req_methods=None, eof: bool = True):
    """parse a whole stream -> (messages, leftover bytes, error or None)"""
    msgs, pos = [], 0
    i = 0
    while pos < len(buf):
        try:
            rm = None
            if kind == "response":
                rm = req_methods[i] if req_methods and i < len(req_methods) else b"GET"
            m, pos2 = parse_message(buf, pos, kind, rm, eof)
        except Incomplete:
            return msgs, buf[pos:], "incomplete"
        except ParseError as e:
            return msgs, buf[pos:], f"parse error: {e}"
        msgs.append(m)
        pos = pos2
        if not (kind == "response" and 100 <= m.status <= 199 and m.status != 101):
            i += 1
    return msgs, b"", None
