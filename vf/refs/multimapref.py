"""Reference model for C35: an ordered multimap with case-insensitive names.

Written from the property sentence ("lookup, assignment, add, insert, delete, get_all/set_all,
iteration, length, equality, copy ... match an ordered multimap with case-insensitive names that
preserves the spelling and relative order of untouched fields"), not from mitmproxy's code.

State: a plain list of (name: bytes, value: bytes).  Names are compared with ASCII case folding
(RFC 9110 section 5.1: field names are case-insensitive).  Text results are the UTF-8/surrogateescape
decoding of the bytes (the documented str interface of mitmproxy.http.Headers).

Where the sentence leaves a choice open the reference does NOT pick one; it exposes a predicate:
  * set_all / __setitem__: the sentence fixes what happens to *untouched* fields and what the
    values for the name are afterwards; it does not say at which positions the new fields go nor
    which spelling a replaced field carries.  `check_replace` verifies exactly the fixed part and
    the model then adopts the implementation's field list.
  * items()/values() without multi: read as the mapping view {name: self[name]} in iteration order
    (the docstring's "first value per key" and the folding __getitem__ disagree; the mapping reading
    is the one the property's "lookup" clause supports).
  * equality: equal field lists must compare equal, field lists that differ in a value, in length
    or in the order of fields must compare unequal; lists differing only in the *case of a name* are
    left undecided (the sentence does not say whether spelling takes part in equality).
"""


def fold(name: bytes) -> bytes:
    # ASCII-only case folding, independent of bytes.lower()
    return bytes(c + 32 if 65 <= c <= 90 else c for c in name)


def text(b: bytes) -> str:
    return b.decode("utf-8", "surrogateescape")


class Missing(Exception):
    """the reference's KeyError"""


class RefMultimap:
    def __init__(self, fields=()):
        self.fields = [(bytes(n), bytes(v)) for n, v in fields]

    # -- observers
    def get_all(self, name: bytes):
        k = fold(name)
        return [text(v) for n, v in self.fields if fold(n) == k]

    def getitem(self, name: bytes):
        vs = self.get_all(name)
        if not vs:
            raise Missing(name)
        return ", ".join(vs)  # RFC 9110 5.3: a recipient MAY combine multiple field lines with ", "

    def contains(self, name: bytes):
        return len(self.get_all(name)) > 0

    def names(self):
        """distinct names in order of first occurrence, spelled as first seen"""
        seen, out = [], []
        for n, _ in self.fields:
            if fold(n) not in seen:
                seen.append(fold(n))
                out.append(text(n))
        return out

    def length(self):
        return len(self.names())

    def items_multi(self):
        return [(text(n), text(v)) for n, v in self.fields]

    def items_single(self):
        return [(n, self.getitem(n.encode("utf-8", "surrogateescape"))) for n in self.names()]

    # -- mutators with a fixed meaning
    def delitem(self, name: bytes):
        if not self.contains(name):
            raise Missing(name)
        k = fold(name)
        self.fields = [(n, v) for n, v in self.fields if fold(n) != k]

    def add(self, name: bytes, value: bytes):
        self.fields.append((name, value))

    def insert(self, index: int, name: bytes, value: bytes):
        self.fields.insert(index, (name, value))  # Python sequence insert semantics (negative / out-of-range clamp)

    def pop(self, name: bytes):
        v = self.getitem(name)
        self.delitem(name)
        return v

    # -- mutator with an open choice: verify the fixed part, then adopt
    def check_replace(self, name: bytes, values, after):
        """problems (list of str) of `after` as the result of set_all(name, values) on self.fields"""
        k = fold(name)
        after = [(bytes(n), bytes(v)) for n, v in after]
        problems = []
        untouched_before = [f for f in self.fields if fold(f[0]) != k]
        untouched_after = [f for f in after if fold(f[0]) != k]
        if untouched_before != untouched_after:
            problems.append(f"untouched fields changed: {untouched_before} -> {untouched_after}")
        got_vals = [v for n, v in after if fold(n) == k]
        if got_vals != [bytes(v) for v in values]:
            problems.append(f"values for {name!r} are {got_vals}, expected {list(values)}")
        return problems

    def adopt(self, after):
        self.fields = [(bytes(n), bytes(v)) for n, v in after]

    # -- equality (three-valued)
    def eq_expected(self, other_fields):
        """True / False / None (undecided: differs only in the case of names)"""
        o = [(bytes(n), bytes(v)) for n, v in other_fields]
        if o == self.fields:
            return True
        if [(fold(n), v) for n, v in o] == [(fold(n), v) for n, v in self.fields]:
            return None
        return False
