"""A small model of how a POSIX shell turns a command line into argv, for the shapes an exporter built
on `shlex.quote` can emit.  Written from POSIX.1-2017 XCU §2.2–2.6 and the bash(1)/dash(1) `printf`
descriptions — not from mitmproxy's code.  It is validated against the real /bin/sh and /bin/bash on
a fixed corpus (see `validate`) before any verdict relies on it.

Modelled:
  * blanks separate words; a newline / `;` `&` `|` `(` `)` `<` `>` outside quotes is an operator
  * unquoted runs of the characters  A-Za-z0-9_@%+=:,./-   (what shlex.quote leaves bare)
  * '...'  single quotes (everything literal)
  * "..."  double quotes with backslash escapes of  $ ` " \\ newline  and one form of expansion:
           $(printf <one word>)  — command substitution of the printf builtin with a format and no
           arguments; trailing newlines of its output are removed, (bash) NUL bytes are dropped;
           no field splitting inside double quotes
  * unquoted backslash escapes
  * bash only: `<<< word` here-string (dash: syntax error)
Everything else raises `Unmodelled` with a class (`operator`, `expansion`, `glob`, ...) — the exporter
must not produce it.

printf format processing (no arguments):  bash: \\\\ \\a \\b \\e \\E \\f \\n \\r \\t \\v \\' \\" \\? \\NNN(octal, 1-3) \\xHH(1-2);
dash: \\\\ \\a \\b \\e \\f \\n \\r \\t \\v \\NNN and **no** \\x.  `%%` prints `%`; every other `%` directive consumes
characters and prints something else (or fails) — the model marks the result `inexact`.
"""
from __future__ import annotations

import os
import subprocess
import tempfile

BARE = set("ABCDEFGHIJKLMNOPQRSTUVWXYZabcdefghijklmnopqrstuvwxyz0123456789_@%+=:,./-")
OPERATORS = set(";&|()<>\n")


_ASSIGN = __import__("re").compile(r"[A-Za-z_][A-Za-z0-9_]*=")


class Unmodelled(Exception):
    def __init__(self, cls, detail):
        super().__init__(f"{cls}: {detail}")
        self.cls = cls
        self.detail = detail


class Word(str):
    """argv entry; `inexact` = produced by a construct whose precise output is not modelled (only known to differ from its source text)"""

    inexact = False
    notes: tuple = ()


def _mk(s, inexact=False, notes=()):
    w = Word(s)
    w.inexact = inexact
    w.notes = tuple(notes)
    return w


class Command:
    def __init__(self):
        self.argv: list[Word] = []
        self.herestring: Word | None = None

    def __repr__(self):
        return f"Command({list(self.argv)!r}, herestring={self.herestring!r})"


_SIMPLE = {"a": "\a", "b": "\b", "f": "\f", "n": "\n", "r": "\r", "t": "\t", "v": "\v", "\\": "\\"}


def _byte(v):
    """a raw byte printf emitted: ASCII as itself, >= 0x80 as a surrogate-escaped byte (see to_bytes)"""
    return chr(v) if v < 0x80 else chr(0xDC00 + v)


def printf_format(fmt: str, dialect: str):
    """-> (output, inexact, notes).  Output is a str of code points < 256 for escape-produced bytes (the caller maps to bytes)."""
    out = []
    notes = []
    inexact = False
    i, n = 0, len(fmt)
    while i < n:
        c = fmt[i]
        if c == "\\":
            if i + 1 >= n:
                out.append("\\")
                i += 1
                continue
            d = fmt[i + 1]
            if d in _SIMPLE:
                out.append(_SIMPLE[d])
                notes.append("backslash-escape")
                i += 2
            elif d == "e" or (dialect == "bash" and d == "E"):
                out.append("\x1b")
                notes.append("backslash-escape")
                i += 2
            elif dialect == "bash" and d in "'\"?":
                out.append(d)
                notes.append("backslash-escape")
                i += 2
            elif d in "01234567":
                j = i + 1
                k = 0
                v = 0
                while j < n and k < 3 and fmt[j] in "01234567":
                    v = v * 8 + int(fmt[j])
                    j += 1
                    k += 1
                out.append(_byte(v & 0xFF))
                notes.append("octal-escape")
                i = j
            elif d == "x" and dialect == "bash":
                j = i + 2
                k = 0
                v = 0
                while j < n and k < 2 and fmt[j] in "0123456789abcdefABCDEF":
                    v = v * 16 + int(fmt[j], 16)
                    j += 1
                    k += 1
                if k == 0:
                    # bash: "missing hex digit for \x", the two characters are printed as they are
                    out.append("\\x")
                    notes.append("bad-hex-escape")
                else:
                    out.append(_byte(v))
                    notes.append("hex-escape")
                i = j
            elif d in "uU" and dialect == "bash":
                j = i + 2
                k = 0
                v = 0
                while j < n and k < (4 if d == "u" else 8) and fmt[j] in "0123456789abcdefABCDEF":
                    v = v * 16 + int(fmt[j], 16)
                    j += 1
                    k += 1
                if k == 0 or v > 0x10FFFF or 0xD800 <= v <= 0xDFFF:
                    inexact = True
                    out.append("\\" + d)
                else:
                    out.append(chr(v))
                notes.append("unicode-escape")
                i = j
            else:
                out.append("\\" + d)
                i += 2
        elif c == "%":
            if i + 1 < n and fmt[i + 1] == "%":
                out.append("%")
                notes.append("percent-percent")
                i += 2
            else:
                inexact = True
                notes.append("percent-directive")
                i += 1
        else:
            out.append(c)
            i += 1
    return "".join(out), inexact, notes


class _Lexer:
    def __init__(self, text, dialect, depth=0):
        self.t = text
        self.i = 0
        self.dialect = dialect
        self.depth = depth

    def peek(self):
        return self.t[self.i] if self.i < len(self.t) else ""

    def commands(self, until_paren=False):
        """-> list[Command]; stops at EOF (or the matching unquoted ')' when until_paren)"""
        cmds = []
        cur = Command()
        while True:
            self._skip_blanks()
            c = self.peek()
            if c == "":
                if until_paren:
                    raise Unmodelled("syntax", "unterminated $(")
                break
            if c == ")" and until_paren:
                self.i += 1
                break
            if c == "\n" or c == ";":
                self.i += 1
                if cur.argv or cur.herestring is not None:
                    cmds.append(cur)
                    cur = Command()
                continue
            if self.t.startswith("<<<", self.i):
                if self.dialect != "bash":
                    raise Unmodelled("syntax", "<<< here-string is not POSIX sh (dash: 'Syntax error: redirection unexpected')")
                self.i += 3
                self._skip_blanks()
                w = self._word()
                if w is None:
                    raise Unmodelled("syntax", "<<< without word")
                if cur.herestring is not None:
                    raise Unmodelled("syntax", "two here-strings")
                cur.herestring = w
                continue
            if c in OPERATORS:
                raise Unmodelled("operator", f"unquoted {c!r} at {self.i}")
            w = self._word()
            if w is None:
                raise Unmodelled("syntax", f"cannot lex at {self.i}: {self.t[self.i:self.i + 10]!r}")
            cur.argv.append(w)
        if cur.argv or cur.herestring is not None:
            cmds.append(cur)
        # leading NAME=value words are variable assignments, not part of argv (XCU 2.9.1)
        out = []
        for c in cmds:
            while c.argv and _ASSIGN.match(c.argv[0]):
                c.argv.pop(0)
            if c.argv or c.herestring is not None:
                out.append(c)
        return out

    def _skip_blanks(self):
        while self.peek() in (" ", "\t") and self.peek() != "":
            self.i += 1

    def _word(self):
        parts = []
        inexact = False
        notes = []
        started = False
        while True:
            c = self.peek()
            if c == "" or c in " \t" or c in OPERATORS:
                break
            if c == ")" and self.depth:
                break
            if c == "'":
                j = self.t.find("'", self.i + 1)
                if j < 0:
                    raise Unmodelled("syntax", "unterminated single quote")
                parts.append(self.t[self.i + 1 : j])
                self.i = j + 1
            elif c == '"':
                self.i += 1
                s, ie, ns = self._dquote()
                parts.append(s)
                inexact |= ie
                notes += ns
            elif c == "\\":
                if self.i + 1 >= len(self.t):
                    parts.append("\\")
                    self.i += 1
                elif self.t[self.i + 1] == "\n":
                    self.i += 2
                else:
                    parts.append(self.t[self.i + 1])
                    self.i += 2
            elif c in BARE:
                parts.append(c)
                self.i += 1
            elif c in "$`":
                raise Unmodelled("expansion", f"unquoted {c!r} at {self.i}")
            elif c in "*?[":
                raise Unmodelled("glob", f"unquoted {c!r} at {self.i}")
            elif c == "~" and not started:
                raise Unmodelled("tilde", f"unquoted ~ at word start {self.i}")
            elif c == "#" and not started:
                raise Unmodelled("comment", f"unquoted # at word start {self.i}")
            else:
                raise Unmodelled("unquoted-special", f"unquoted {c!r} at {self.i}")
            started = True
        if not started:
            return None
        return _mk("".join(parts), inexact, notes)

    def _dquote(self):
        out = []
        inexact = False
        notes = []
        while True:
            c = self.peek()
            if c == "":
                raise Unmodelled("syntax", "unterminated double quote")
            if c == '"':
                self.i += 1
                return "".join(out), inexact, notes
            if c == "\\":
                d = self.t[self.i + 1 : self.i + 2]
                if d in ("$", "`", '"', "\\"):
                    out.append(d)
                    self.i += 2
                elif d == "\n":
                    self.i += 2
                else:
                    out.append("\\")
                    self.i += 1
            elif c == "`":
                raise Unmodelled("expansion", "backquote inside double quotes")
            elif c == "$":
                if self.t.startswith("$(", self.i) and not self.t.startswith("$((", self.i):
                    self.i += 2
                    sub = _Lexer(self.t, self.dialect, self.depth + 1)
                    sub.i = self.i
                    cmds = sub.commands(until_paren=True)
                    self.i = sub.i
                    if len(cmds) != 1 or cmds[0].herestring is not None or not cmds[0].argv or cmds[0].argv[0] != "printf":
                        raise Unmodelled("expansion", f"command substitution other than a single printf: {cmds!r}")
                    argv = cmds[0].argv
                    if len(argv) != 2:
                        raise Unmodelled("expansion", f"printf with {len(argv) - 1} operands")
                    s, ie, ns = printf_format(str(argv[1]), self.dialect)
                    if self.dialect == "bash" and "\x00" in s:
                        s = s.replace("\x00", "")
                        ns = ns + ["nul-dropped"]
                    stripped = s.rstrip("\n")
                    if stripped != s:
                        ns = ns + ["trailing-newline-stripped"]
                    out.append(stripped)
                    inexact |= ie or argv[1].inexact
                    notes += ns + ["command-substitution"]
                else:
                    nxt = self.t[self.i + 1 : self.i + 2]
                    if nxt == "" or nxt in ' "\\':  # a lone $ is literal
                        out.append("$")
                        self.i += 1
                    else:
                        raise Unmodelled("expansion", f"${nxt} inside double quotes")
            else:
                out.append(c)
                self.i += 1


def evaluate(cmdline: str, dialect: str = "bash") -> list[Command]:
    """-> the simple commands the shell would run, each with its argv (after quote removal / the one modelled expansion)"""
    return _Lexer(cmdline, dialect).commands()


# ------------------------------------------------------------------------------------------
# validation against the real shells with stub programs that print their argv

STUB = """#!/bin/sh
# stub: print program name and every argument, NUL-terminated, then stdin (shell builtins only: one process per invocation)
printf 'ARGV\\0%s\\0' "${0##*/}"
for a in "$@"; do printf '%s\\0' "$a"; done
printf 'STDIN\\0'
while IFS= read -r l; do printf '%s\\n' "$l"; done
[ -n "$l" ] && printf '%s' "$l"
printf '\\0ENDINV\\0'
"""
_SEP = "printf '\\0ENDCMD\\0'"


def make_stub_dir():
    d = tempfile.mkdtemp(prefix="vf-shstub-")
    for name in ("curl", "http"):
        p = os.path.join(d, name)
        with open(p, "w") as f:
            f.write(STUB)
        os.chmod(p, 0o755)
    return d


def run_real_many(cmdlines, shell: str, stubdir: str, timeout=1800):
    """run several command lines in one real shell process (each followed by a separator print);
    -> per command line: list of stub invocations [(argv bytes list, stdin bytes)]"""
    env = {"PATH": stubdir + ":/usr/bin:/bin", "LC_ALL": "C.UTF-8", "HOME": stubdir}
    script = "".join(c + "\n" + _SEP + "\n" for c in cmdlines)
    p = subprocess.run([shell, "-c", script.encode("utf-8", "surrogateescape")], capture_output=True, env=env, cwd=stubdir, timeout=timeout, stdin=subprocess.DEVNULL)
    chunks = p.stdout.split(b"\0ENDCMD\0")
    res = []
    for ch in chunks[: len(cmdlines)]:
        inv = []
        for part in ch.split(b"\0ENDINV\0"):
            if not part.startswith(b"ARGV\0"):
                continue
            head, sep, rest = part[5:].partition(b"STDIN\0")
            inv.append((head.split(b"\0")[:-1], rest))
        res.append(inv)
    while len(res) < len(cmdlines):
        res.append(None)  # the shell stopped before (syntax error)
    return res, p.returncode, p.stderr.decode("utf-8", "replace")


def run_real(cmdline: str, shell: str, stubdir: str, timeout=1800):
    res, rc, err = run_real_many([cmdline], shell, stubdir, timeout)
    return (res[0] or []), rc, err


def detect_dialect(shell: str) -> str:
    try:
        p = subprocess.run([shell, "-c", "printf '\\x41'"], capture_output=True, timeout=10)
    except Exception:  # noqa
        return "absent"
    return "bash" if p.stdout == b"A" else "dash"


def to_bytes(word: str) -> bytes:
    """how a model word reaches the program: the command line is UTF-8; bytes >= 0x80 that printf emitted from an escape are
    kept in the model as surrogate escapes and come out as the raw byte"""
    return word.encode("utf-8", "surrogateescape")


CORPUS_WORDS = [
    "a", "", " ", "a b", "'", "''", "a'b", '"', "\\", "\\\\", "$x", "$(id)", "`id`", ";", "a;b", "&", "|", "<", ">", "(", ")", "%", "%s", "@", "@x", "!", "!!", "*", "?",
    "~", "#", "# x", "\n", "a\nb", "\t", "é", "\x85", "€", "-d", "--", "$", "${x}", "a\\'b", "'\\''", "x=1", "{a,b}", "[a]", "\\n", "%%", "100%", "a\\", "\\x41",
]
# printf formats (always reach the shell as: "$(printf '<fmt>')" built with shlex.quote)
CORPUS_FORMATS = [
    "a", "a\\x0a", "a\\x0ab", "\\x0a", "\\x0a\\x0a", "a\\x0a\\x0a", "\\x01", "\\x1b[31m", "\\x09x", "\\\\x01", "\\\\", "\\\\\\x01", "\\n\\x01", "\\a\\x01", "\\'\\x01", "\\\"\\x01",
    "\\?\\x01", "\\Z\\x01", "\\1\\x01", "\\101\\x01", "\\x\\x01", "\\x4\\x01", "\\x41\\x01", "%%\\x01", "a'b\\x01", "$x\\x01", "`id`\\x01", "$(id)\\x01", ";\\x01", "é\\x01", "\\x00a\\x01",
    " \\x01", "@\\x01", "#\\x01", "~\\x01", "!\\x01", "*\\x01", "\\x01\\x0a", "\\e\\x01", "\\x01\\", "\\c\\x01",
]
CORPUS_FORMATS += ["\\E\\x01", "a\\cb\\x01", "\\8\\x01", "\\0101\\x01", "\\1012\\x01", "\\x411\\x01", "\\u0041\\x01", "a%%b\\x01", "\\x01%%", "\\xe9\\x01", "\\351\\x01"]
CORPUS_INEXACT = ["%\\x01", "%s\\x01", "%d\\x01", "100%\\x01", "%a\\x01", "% \\x01", "%'\\x01", "%\\\\x01"]


def validate(shells=("/bin/sh", "/bin/bash")):
    """model == real shell on the corpus; returns the number of cases; raises AssertionError on the first disagreement"""
    import shlex

    stubdir = make_stub_dir()
    n = 0
    try:
        for shell in shells:
            dialect = detect_dialect(shell)
            if dialect == "absent":
                continue
            cases = []
            for prog in ("curl", "http"):
                for w in CORPUS_WORDS:
                    cases.append((f"{prog} -X {shlex.quote(w)} {shlex.quote('http://h/' + w)}", None))
            for f in CORPUS_FORMATS + CORPUS_INEXACT:
                cases.append((f'curl -d "$(printf {shlex.quote(f)})"', f))
            if dialect == "bash":
                for w in CORPUS_WORDS[:20]:
                    cases.append((f"http POST http://h/ <<< {shlex.quote(w)}", None))
                cases.append(('http POST http://h/ <<< "$(printf \'a\\x0a\')"', None))
            reals = []
            for k in range(0, len(cases), 40):
                res, rc, err = run_real_many([c for c, _ in cases[k : k + 40]], shell, stubdir)
                reals += [(r, rc, err) for r in res]
            for (cmd, fmt), (inv, rc, err) in zip(cases, reals):
                assert inv is not None, f"{shell}: the real shell stopped before {cmd!r}: {err}"
                try:
                    model = evaluate(cmd, dialect)
                except Unmodelled as u:
                    raise AssertionError(f"{shell}: model refuses corpus command {cmd!r}: {u}")
                assert len(model) == 1 and len(inv) == 1, f"{shell}: {cmd!r}: model {model} real {inv} rc={rc} {err}"
                real_argv, real_stdin = inv[0]
                margv = model[0].argv
                if any(w.inexact for w in margv):
                    # the model only claims the output differs from the literal format text
                    lit = fmt.encode()
                    assert real_argv[-1] != lit, f"{shell}: {cmd!r}: model says the % directive changes the text but the real shell printed it literally"
                else:
                    assert [to_bytes(w) for w in margv] == real_argv, f"{shell} ({dialect}): {cmd!r}: model argv {[to_bytes(w) for w in margv]} != real {real_argv} (rc={rc}, {err!r})"
                    if model[0].herestring is not None:
                        assert real_stdin == to_bytes(model[0].herestring) + b"\n", f"{shell}: {cmd!r}: here-string {real_stdin!r}"
                n += 1
            # operators must be reported as such: the real shell runs a second program / redirects
            for cmd, want in [("x=1 curl a", [[b"curl", b"a"]]), ("x=1 y=2 http b=3", [[b"http", b"b=3"]]), ("curl a; x=1", [[b"curl", b"a"]])]:
                inv, rc, err = run_real(cmd, shell, stubdir)
                got = [[to_bytes(w) for w in c.argv] for c in evaluate(cmd, dialect)]
                assert got == want == [a for a, _ in inv], f"{shell}: {cmd!r}: model {got} real {inv}"
                n += 1
            for bad in ["curl a; http b", "curl a | http b", "curl a\nhttp b", "curl $(http b)", "curl a > x"]:
                try:
                    evaluate(bad, dialect)
                except Unmodelled:
                    n += 1
                    continue
                cmds = evaluate(bad, dialect)
                assert len(cmds) > 1, f"model does not see a second command in {bad!r}"
                n += 1
    finally:
        import shutil

        shutil.rmtree(stubdir, ignore_errors=True)
    return n
