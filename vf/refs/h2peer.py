"""In-memory HTTP/2 peer (client or server side) built on the hyper-h2 library, used by harnesses that
drive mitmproxy's Http2Server / Http2Client through the sans-io driver.  It is test equipment, not an
oracle: it only frames/deframes; what the harness concludes from the decoded events is stated there.

    peer = H2Peer(client_side=True); wire = peer.start()            # preface + SETTINGS
    wire = peer.request(1, [(":method","GET"),...], end_stream=True)
    for ev in peer.feed(bytes_from_mitmproxy): ...                   # h2.events.*
    wire = peer.flush()                                              # ACKs etc. produced while feeding
"""
from __future__ import annotations

import h2.config
import h2.connection
import h2.events
import h2.exceptions


class H2Peer:
    def __init__(self, client_side: bool):
        self.conn = h2.connection.H2Connection(
            config=h2.config.H2Configuration(client_side=client_side, header_encoding=False, validate_inbound_headers=False,
                                             validate_outbound_headers=False, normalize_outbound_headers=False,
                                             normalize_inbound_headers=False))
        self.client_side = client_side
        self.events = []  # every decoded event in order
        self.error = None

    def start(self) -> bytes:
        self.conn.initiate_connection()
        return self.conn.data_to_send()

    def flush(self) -> bytes:
        return self.conn.data_to_send()

    def feed(self, data: bytes):
        try:
            evs = self.conn.receive_data(data)
        except h2.exceptions.ProtocolError as e:
            self.error = e
            return []
        for e in evs:
            if isinstance(e, h2.events.DataReceived):
                self.conn.acknowledge_received_data(e.flow_controlled_length, e.stream_id)
        self.events += evs
        return evs

    # -- client side
    def request(self, stream_id, headers, *, end_stream=True, body: bytes | None = None) -> bytes:
        hs = [(k.encode() if isinstance(k, str) else k, v.encode() if isinstance(v, str) else v) for k, v in headers]
        self.conn.send_headers(stream_id, hs, end_stream=end_stream and body is None)
        if body is not None:
            self.conn.send_data(stream_id, body, end_stream=end_stream)
        return self.conn.data_to_send()

    # -- server side
    def respond(self, stream_id, status=200, headers=(), body: bytes = b"") -> bytes:
        hs = [(b":status", str(status).encode())] + [(k.encode() if isinstance(k, str) else k, v.encode() if isinstance(v, str) else v) for k, v in headers]
        self.conn.send_headers(stream_id, hs, end_stream=not body)
        if body:
            self.conn.send_data(stream_id, body, end_stream=True)
        return self.conn.data_to_send()

    # -- decoded views
    def responses(self):
        """client side: {stream_id: {"headers": [(k,v)], "body": bytes, "ended": bool, "reset": code|None}}"""
        out = {}
        for e in self.events:
            sid = getattr(e, "stream_id", None)
            if sid is None:
                continue
            r = out.setdefault(sid, {"headers": None, "body": b"", "ended": False, "reset": None})
            if isinstance(e, h2.events.ResponseReceived):
                r["headers"] = list(e.headers)
            elif isinstance(e, h2.events.DataReceived):
                r["body"] += e.data
            elif isinstance(e, h2.events.StreamEnded):
                r["ended"] = True
            elif isinstance(e, h2.events.StreamReset):
                r["reset"] = e.error_code
        return out

    def requests(self):
        """server side: [(stream_id, headers)] in arrival order"""
        return [(e.stream_id, list(e.headers)) for e in self.events if isinstance(e, h2.events.RequestReceived)]
