"""Independent TLS / DTLS ClientHello reference: encoder, strict parser, record-layer framing.

Written from the RFCs, not from mitmproxy's code:
  RFC 8446 §4.1.2 (ClientHello), §4.2 (extensions, no duplicates), §5.1 (record layer, zero-length
  handshake fragments forbidden, legacy_record_version), RFC 5246 §6.2.1 / App. E.1 (record versions
  {3,0}..{3,3}), RFC 6066 §3 (server_name), RFC 7301 §3.1 (ALPN), RFC 6347 §4.1 (DTLS record:
  type, version, epoch(2), sequence(6), length), §4.2.2 (handshake header with message_seq,
  fragment_offset, fragment_length), §4.2.3 (fragmentation / reassembly), §4.2.1 (cookie).

Every function works on *item lists*: Python lists whose elements are ints or 8-bit symbolic ints
(vf.symx.SymInt), so the same reference runs in the symbolic exploration and in the concrete replay.
Length fields may therefore be symbolic; `Reader.take` forks on "enough bytes left?" and then on the
feasible concrete lengths (bounded by the buffer).
"""
from __future__ import annotations

from vf.symx import SymInt, concretize


class Reject(Exception):
    """the reference parser rejects the input as malformed"""


# ------------------------------------------------------------------------------------------
# integers <-> items


def u(nbytes, v):
    """big-endian encoding of v (int or symbolic int) on nbytes bytes"""
    return [(v >> (8 * i)) & 0xFF for i in reversed(range(nbytes))]


def be(items):
    acc = 0
    for x in items:
        acc = (acc << 8) | x
    return acc


def vec(nbytes, items):
    items = list(items)
    return u(nbytes, len(items)) + items


def is_concrete(items):
    return not any(type(x) is SymInt for x in items)


def to_bytes(items):
    """bytes of a fully concrete item list"""
    return bytes(items)


# ------------------------------------------------------------------------------------------
# encoder


class Buf:
    """item buffer that remembers where every length field lives: fields[name] = (offset, size)"""

    def __init__(self):
        self.items = []
        self.fields = {}

    def raw(self, items):
        self.items += list(items)

    def open(self, name, size):
        off = len(self.items)
        self.items += [0] * size
        return (name, off, size)

    def close(self, h):
        name, off, size = h
        n = len(self.items) - off - size
        self.items[off : off + size] = u(size, n)
        self.fields[name] = (off, size)


def sni_body(names, buf=None, tag="sni"):
    """server_name extension_data; names = [(name_type, host_items)]"""
    b = buf or Buf()
    h = b.open(f"{tag}.list", 2)
    for i, (t, host) in enumerate(names):
        b.raw([t])
        hh = b.open(f"{tag}.name{i}", 2)
        b.raw(host)
        b.close(hh)
    b.close(h)
    return b.items


def alpn_body(protos, buf=None, tag="alpn"):
    b = buf or Buf()
    h = b.open(f"{tag}.list", 2)
    for i, p in enumerate(protos):
        hh = b.open(f"{tag}.proto{i}", 1)
        b.raw(p)
        b.close(hh)
    b.close(h)
    return b.items


def hello_body(*, dtls=False, version=None, random=None, session_id=(), cookie=(), suites=(0x1301,), compression=(0,),
               extensions=None):
    """ClientHello body (without handshake header).

    extensions: None (no extensions block at all) or a list of
        ("sni", [(name_type, host_items)]) | ("alpn", [proto_items]) | (type:int|sym, body_items)
    returns (items, fields) — fields maps each length field to (offset, size) inside the body.
    """
    b = Buf()
    b.raw(version if version is not None else ([0xFE, 0xFD] if dtls else [3, 3]))
    b.raw(random if random is not None else [0xA5] * 32)
    h = b.open("session_id", 1)
    b.raw(session_id)
    b.close(h)
    if dtls:
        h = b.open("cookie", 1)
        b.raw(cookie)
        b.close(h)
    h = b.open("cipher_suites", 2)
    for s in suites:
        b.raw(u(2, s))
    b.close(h)
    h = b.open("compression", 1)
    b.raw(compression)
    b.close(h)
    if extensions is not None:
        hx = b.open("extensions", 2)
        for i, (t, body) in enumerate(extensions):
            if t == "sni":
                b.raw(u(2, 0))
                he = b.open(f"ext{i}", 2)
                sni_body(body, b, tag=f"ext{i}.sni")
            elif t == "alpn":
                b.raw(u(2, 16))
                he = b.open(f"ext{i}", 2)
                alpn_body(body, b, tag=f"ext{i}.alpn")
            else:
                b.raw(u(2, t))
                he = b.open(f"ext{i}", 2)
                b.raw(body)
            b.close(he)
        b.close(hx)
    return b.items, b.fields


def handshake(body, *, dtls=False, msg_type=1, msg_seq=0):
    """handshake message = header + body (DTLS: one unfragmented fragment)"""
    body = list(body)
    if dtls:
        return [msg_type] + u(3, len(body)) + u(2, msg_seq) + u(3, 0) + u(3, len(body)) + body
    return [msg_type] + u(3, len(body)) + body


def dtls_fragments(body, cuts, *, msg_type=1, msg_seq=0):
    """RFC 6347 §4.2.3: the message body cut at `cuts`; every fragment carries the full 12-byte header"""
    body = list(body)
    edges = [0] + sorted(cuts) + [len(body)]
    out = []
    for a, b_ in zip(edges, edges[1:]):
        out.append([msg_type] + u(3, len(body)) + u(2, msg_seq) + u(3, a) + u(3, b_ - a) + body[a:b_])
    return out


TLS_RECORD_VERSIONS = [(3, 0), (3, 1), (3, 2), (3, 3)]
DTLS_RECORD_VERSIONS = [(0xFE, 0xFF), (0xFE, 0xFD)]  # DTLS 1.0, DTLS 1.2 (also the legacy value of DTLS 1.3)


def record(payload, *, dtls=False, version=None, ctype=22, epoch=0, seq=0):
    payload = list(payload)
    if dtls:
        v = version if version is not None else (0xFE, 0xFD)
        return [ctype, v[0], v[1]] + u(2, epoch) + u(6, seq) + u(2, len(payload)) + payload
    v = version if version is not None else (3, 1)
    return [ctype, v[0], v[1]] + u(2, len(payload)) + payload


def split_records(stream, cuts, *, version=None):
    """TLS: a handshake byte stream cut at `cuts` (sorted offsets, 0 < c < len), one record per piece"""
    stream = list(stream)
    edges = [0] + sorted(cuts) + [len(stream)]
    out = []
    for a, b_ in zip(edges, edges[1:]):
        out += record(stream[a:b_], version=version)
    return out


# ------------------------------------------------------------------------------------------
# strict reference parser


class Reader:
    def __init__(self, items):
        self.it = list(items)
        self.p = 0

    def left(self):
        return len(self.it) - self.p

    def take(self, n):
        if bool(n > self.left()):
            raise Reject("truncated")
        n = concretize(n)
        r = self.it[self.p : self.p + n]
        self.p += n
        return r

    def uint(self, k):
        return be(self.take(k))

    def vec(self, k, lo=0, hi=None):
        n = self.uint(k)
        if bool(n < lo) or (hi is not None and bool(n > hi)):
            raise Reject("vector length out of range")
        return self.take(n)


class RefHello:
    def __init__(self):
        self.version = self.random = self.session_id = self.cookie = None
        self.cipher_suites = []
        self.compression = None
        self.extensions = None  # None = no extensions block; else [(type, body_items)]
        self.sni = None  # None = no server_name extension; else [(name_type, host_items)]
        self.alpn = None  # None = no ALPN extension; else [proto_items]


def parse_sni(body):
    r = Reader(body)
    lst = Reader(r.vec(2, lo=1))
    if r.left():
        raise Reject("trailing bytes after server_name_list")
    names = []
    while lst.left():
        t = lst.uint(1)
        for t2, _ in names:
            if bool(t2 == t):
                raise Reject("duplicate name_type")
        host = lst.vec(2, lo=1) if bool(t == 0) else lst.vec(2)
        names.append((t, host))
    return names


def parse_alpn(body):
    r = Reader(body)
    lst = Reader(r.vec(2, lo=2))
    if r.left():
        raise Reject("trailing bytes after protocol_name_list")
    protos = []
    while lst.left():
        protos.append(lst.vec(1, lo=1))
    return protos


def parse_hello(body, *, dtls=False):
    """strict RFC parse of a ClientHello body; raises Reject on any malformation"""
    r = Reader(body)
    h = RefHello()
    h.version = r.take(2)
    h.random = r.take(32)
    h.session_id = r.vec(1, hi=32)
    if dtls:
        h.cookie = r.vec(1)
    cs = r.vec(2, lo=2)
    if len(cs) % 2:
        raise Reject("odd cipher_suites length")
    h.cipher_suites = [be(cs[i : i + 2]) for i in range(0, len(cs), 2)]
    h.compression = r.vec(1, lo=1)
    if not r.left():
        return h
    ex = Reader(r.vec(2))
    if r.left():
        raise Reject("trailing bytes after extensions")
    h.extensions = []
    while ex.left():
        t = ex.uint(2)
        body_ = ex.vec(2)
        for t2, _ in h.extensions:
            if bool(t2 == t):
                raise Reject("duplicate extension")
        h.extensions.append((t, body_))
        if bool(t == 0):
            h.sni = parse_sni(body_)
        elif bool(t == 16):
            h.alpn = parse_alpn(body_)
    return h


# ------------------------------------------------------------------------------------------
# record layer reference


def tls_record_magic(d):
    """RFC 8446 §5.1 / RFC 5246 App. E.1: could `d` (>= 3 items) start a TLS handshake record?"""
    return (d[0] == 22) & (d[1] == 3) & (d[2] <= 3)


def dtls_record_magic(d):
    """RFC 6347 §4.1: handshake record of DTLS 1.0 {254,255} or DTLS 1.2 {254,253}"""
    return (d[0] == 22) & (d[1] == 0xFE) & ((d[2] == 0xFF) | (d[2] == 0xFD))


class Incomplete(Exception):
    """more bytes are needed; .partial = the bytes of an unfinished record header (None if the header was complete)"""

    def __init__(self, partial=None):
        super().__init__()
        self.partial = partial


class Fragmented(Exception):
    """DTLS: the first handshake message is fragmented (needs dtls_reassemble)"""


def _record_header(data, off, dtls, check_version, trace=None):
    """-> (header_len, payload_len) of the handshake record at `off`; Incomplete / Reject.
    `trace` (optional list) receives the offset of every complete record header examined."""
    hdr = 13 if dtls else 5
    if len(data) < off + hdr:
        raise Incomplete(data[off:])
    if trace is not None:
        trace.append(off)
    h = data[off : off + hdr]
    if check_version:
        ok = dtls_record_magic(h) if dtls else tls_record_magic(h)
    else:
        ok = (h[0] == 22) & (h[1] == (0xFE if dtls else 3))
    if not bool(ok):
        raise Reject("not a handshake record")
    n = be(h[hdr - 2 :])
    if bool(n == 0):
        raise Reject("zero-length handshake record")  # RFC 8446 §5.1
    if bool(n > len(data) - off - hdr):
        raise Incomplete()
    return hdr, concretize(n)


def tls_first_message(data, *, check_version=True, trace=None):
    """Walk the leading handshake records of `data`; the record payloads form one byte stream
    (RFC 8446 §5.1).  Returns the first complete handshake message (4-byte header + body) as items;
    raises Incomplete if more bytes are needed, Reject on a malformed record."""
    data = list(data)
    off, acc = 0, []
    while True:
        hdr, n = _record_header(data, off, False, check_version, trace)
        acc += data[off + hdr : off + hdr + n]
        off += hdr + n
        if len(acc) >= 4:
            mlen = be(acc[1:4])
            if bool(mlen <= len(acc) - 4):
                return acc[: 4 + concretize(mlen)]


def dtls_first_message(data, *, check_version=True, trace=None):
    """First handshake message of a DTLS flight if it arrives unfragmented in the first record
    (12-byte header + body); Fragmented if fragment_offset != 0 or fragment_length != length."""
    data = list(data)
    hdr, n = _record_header(data, 0, True, check_version, trace)
    body = data[hdr : hdr + n]
    if len(body) < 12:
        raise Reject("short handshake fragment header")
    length, frag_off, frag_len = be(body[1:4]), be(body[6:9]), be(body[9:12])
    if bool(frag_off != 0) or bool(frag_len != length):
        raise Fragmented()
    if bool(frag_len > len(body) - 12):
        raise Reject("fragment exceeds record")
    return body[: 12 + concretize(frag_len)]


def dtls_reassemble(data, *, check_version=True):
    """RFC 6347 §4.2.3 reassembly of the first handshake message (lowest message_seq seen first)
    from the complete records in `data` (one or more fragments per record, any order).  Returns the
    message in unfragmented form (12-byte header with fragment_offset 0, fragment_length = length)."""
    data = list(data)
    off = 0
    frags = []
    head = None
    while True:
        try:
            hdr, n = _record_header(data, off, True, check_version)
        except Incomplete:
            if head is None or not frags:
                raise
            break
        rec = data[off + hdr : off + hdr + n]
        off += hdr + n
        p = 0
        while p < len(rec):
            if len(rec) - p < 12:
                raise Reject("short handshake fragment header")
            mtype, length, seq = rec[p], concretize(be(rec[p + 1 : p + 4])), concretize(be(rec[p + 4 : p + 6]))
            fo, fl = concretize(be(rec[p + 6 : p + 9])), concretize(be(rec[p + 9 : p + 12]))
            if fl > len(rec) - p - 12 or fo + fl > length:
                raise Reject("fragment exceeds record / message")
            if head is None:
                head = (mtype, length, seq)
            if seq == head[2]:
                frags.append((fo, rec[p + 12 : p + 12 + fl]))
            p += 12 + fl
        body = [None] * head[1]
        for fo, fb in frags:
            body[fo : fo + len(fb)] = fb
        if all(x is not None for x in body):
            return [head[0]] + u(3, head[1]) + u(2, head[2]) + u(3, 0) + u(3, head[1]) + body
    raise Incomplete()
