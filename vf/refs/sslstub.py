"""OpenSSL framing STUB (DESIGN 2.3): a fake pyOpenSSL `SSL.Connection` for C14.

OpenSSL itself is TRUSTED and OUTSIDE the claim.  This stub replaces it by the *contract* mitmproxy's
TLSLayer relies on, with a null cipher, so that the Python plumbing around it (bio_write / recv loop /
bio_read draining / sendall / WantReadError / ZeroReturnError / get_shutdown) can be driven exhaustively:

  wire format   real TLS record framing: type(1) 0x03 0x03 length(2) payload — payload in the clear
                22 handshake (a byte stream of messages: type(1) length(3) body), 23 application data,
                21 alert (payload 01 00 = close_notify)
  bio_write(b)  memory BIO: accepts everything, never blocks; b"" is an error (as in pyOpenSSL)
  do_handshake  accept role: needs ClientHello(1) -> emits ServerHello(2)+Finished(20) -> needs Finished(20)
                connect role: emits ClientHello(1) -> needs ServerHello(2)+Finished(20) -> emits Finished(20)
                raises WantReadError until the needed messages are complete (messages may span records,
                records may span bio_write calls)
  recv(n)       plaintext of (the rest of) ONE complete application-data record, at most n bytes (SSL_read
                never coalesces records); post-handshake handshake records (NewSessionTicket ...) are consumed
                silently; no complete record -> WantReadError; close_notify -> RECEIVED_SHUTDOWN is set and
                ZeroReturnError is raised (also on every later call)
  sendall(b)    application-data records of at most `max_fragment` bytes appended to the outgoing BIO
  bio_read(n)   up to n buffered outgoing bytes; nothing buffered -> WantReadError
  get_shutdown  SENT_SHUTDOWN / RECEIVED_SHUTDOWN flags

`Peer` is the other endpoint used by the harness: it builds the byte stream a real peer would put on the wire
and decodes what mitmproxy wrote.
"""
from __future__ import annotations

from OpenSSL import SSL

HANDSHAKE, APPDATA, ALERT = 22, 23, 21
CLIENT_HELLO, SERVER_HELLO, NEW_SESSION_TICKET, FINISHED = 1, 2, 4, 20


def record(ctype, payload):
    payload = bytes(payload)
    return bytes([ctype, 3, 3]) + len(payload).to_bytes(2, "big") + payload


def message(mtype, body=b""):
    return bytes([mtype]) + len(body).to_bytes(3, "big") + bytes(body)


def parse_records(wire: bytes):
    """-> (list of (type, payload) of the complete records, number of bytes consumed)"""
    out, off = [], 0
    while len(wire) - off >= 5:
        n = int.from_bytes(wire[off + 3 : off + 5], "big")
        if len(wire) - off - 5 < n:
            break
        out.append((wire[off], wire[off + 5 : off + 5 + n]))
        off += 5 + n
    return out, off


class StubConnection:
    def __init__(self, role, *, max_fragment=16384, alpn=b"", server_flight_extra=b""):
        assert role in ("accept", "connect")
        self.role = role
        self.max_fragment = max_fragment
        self.alpn = alpn
        self.inbuf = bytearray()  # raw bytes written by bio_write, not yet framed
        self.hs_stream = bytearray()  # reassembled handshake byte stream
        self.pending = bytearray()  # rest of a partially read application-data record
        self.out = bytearray()
        self.state = 0  # handshake progress
        self.done = False
        self.shutdown = 0
        self.calls = []
        self.server_flight_extra = server_flight_extra

    # -- BIO side
    def bio_write(self, data):
        if not data:
            raise ValueError("bio_write of an empty buffer")
        self.calls.append(("bio_write", len(data)))
        self.inbuf += bytes(data)
        return len(data)

    def bio_read(self, n):
        if not self.out:
            raise SSL.WantReadError()
        r = bytes(self.out[:n])
        del self.out[:n]
        return r

    # -- record layer
    def _next_record(self):
        """pop one complete record from the incoming BIO or return None"""
        if len(self.inbuf) < 5:
            return None
        n = int.from_bytes(self.inbuf[3:5], "big")
        if len(self.inbuf) - 5 < n:
            return None
        rec = (self.inbuf[0], bytes(self.inbuf[5 : 5 + n]))
        del self.inbuf[: 5 + n]
        return rec

    def _next_message(self):
        """next complete handshake message from the handshake stream, pulling records as needed; None = need more"""
        while True:
            if len(self.hs_stream) >= 4:
                n = int.from_bytes(self.hs_stream[1:4], "big")
                if len(self.hs_stream) >= 4 + n:
                    m = (self.hs_stream[0], bytes(self.hs_stream[4 : 4 + n]))
                    del self.hs_stream[: 4 + n]
                    return m
            if len(self.inbuf) >= 1 and self.inbuf[0] != HANDSHAKE:
                if self.hs_stream:
                    raise SSL.Error([("SSL routines", "", "unexpected record")])
                return None
            rec = self._next_record()
            if rec is None:
                return None
            self.hs_stream += rec[1]

    # -- handshake
    def set_accept_state(self):
        self.role = "accept"

    def set_connect_state(self):
        self.role = "connect"

    def do_handshake(self):
        self.calls.append(("do_handshake",))
        if self.done:
            return
        if self.role == "connect" and self.state == 0:
            self.out += record(HANDSHAKE, message(CLIENT_HELLO, b"\x03\x03" + bytes(32) + b"\x00\x00\x02\x13\x01\x01\x00"))
            self.state = 1
        while True:
            if self.role == "accept":
                want = CLIENT_HELLO if self.state == 0 else FINISHED
            else:
                want = SERVER_HELLO if self.state == 1 else FINISHED
            m = self._next_message()
            if m is None:
                raise SSL.WantReadError()
            if m[0] != want:
                raise SSL.Error([("SSL routines", "", "unexpected message")])
            if self.role == "accept":
                if self.state == 0:
                    self.out += record(HANDSHAKE, message(SERVER_HELLO, b"\x03\x03") + message(FINISHED, b"srv")) + self.server_flight_extra
                    self.state = 1
                else:
                    self.done = True
                    return
            else:
                if self.state == 1:
                    self.state = 2
                else:
                    self.out += record(HANDSHAKE, message(FINISHED, b"cli"))
                    self.done = True
                    return

    # -- application data
    def recv(self, n):
        self.calls.append(("recv", n))
        if not self.done:
            raise SSL.WantReadError()
        if self.pending:
            r = bytes(self.pending[:n])
            del self.pending[:n]
            return r
        if self.shutdown & SSL.RECEIVED_SHUTDOWN:
            raise SSL.ZeroReturnError()
        while True:
            # post-handshake handshake messages are processed inside SSL_read
            if self.hs_stream or (len(self.inbuf) >= 1 and self.inbuf[0] == HANDSHAKE):
                if self._next_message() is None:
                    raise SSL.WantReadError()
                continue
            rec = self._next_record()
            if rec is None:
                raise SSL.WantReadError()
            ctype, payload = rec
            if ctype == APPDATA:
                if not payload:
                    continue  # empty application-data records are legal and carry nothing
                self.pending += payload
                r = bytes(self.pending[:n])
                del self.pending[:n]
                return r
            if ctype == ALERT and payload[:2] == b"\x01\x00":
                self.shutdown |= SSL.RECEIVED_SHUTDOWN
                raise SSL.ZeroReturnError()
            raise SSL.Error([("SSL routines", "", "unexpected record")])

    def sendall(self, data):
        self.calls.append(("sendall", len(data)))
        if not self.done:
            raise SSL.Error([("SSL routines", "", "handshake not finished")])
        if self.shutdown & SSL.SENT_SHUTDOWN:
            raise SSL.Error([("SSL routines", "", "protocol is shutdown")])
        data = bytes(data)
        for i in range(0, len(data), self.max_fragment):
            self.out += record(APPDATA, data[i : i + self.max_fragment])
        return len(data)

    def shutdown_(self):
        self.out += record(ALERT, b"\x01\x00")
        self.shutdown |= SSL.SENT_SHUTDOWN

    def get_shutdown(self):
        return self.shutdown

    # -- what TLSLayer.receive_handshake_data reads after the handshake
    def get_peer_cert_chain(self):
        return []

    def get_peer_certificate(self):
        return None

    def get_alpn_proto_negotiated(self):
        return self.alpn

    def get_cipher_name(self):
        return "TLS_NULL_STUB"

    def get_protocol_version_name(self):
        return "TLSv1.3"


class Peer:
    """the remote endpoint (a TLS client when mitmproxy's stub accepts, a TLS server when it connects)"""

    @staticmethod
    def finished_flight(role_of_stub):
        """last handshake flight the peer sends: client Finished, or ServerHello+Finished"""
        if role_of_stub == "accept":
            return record(HANDSHAKE, message(FINISHED, b"cli"))
        return record(HANDSHAKE, message(SERVER_HELLO, b"\x03\x03") + message(FINISHED, b"srv"))

    @staticmethod
    def app_records(chunks):
        return b"".join(record(APPDATA, c) for c in chunks)

    @staticmethod
    def ticket():
        return record(HANDSHAKE, message(NEW_SESSION_TICKET, b"tk"))

    @staticmethod
    def close_notify():
        return record(ALERT, b"\x01\x00")

    @staticmethod
    def decode(wire: bytes):
        """what mitmproxy wrote: -> (handshake payload bytes, application plaintext, close_notify seen, undecodable rest)"""
        recs, used = parse_records(wire)
        hs = b"".join(p for t, p in recs if t == HANDSHAKE)
        app = b"".join(p for t, p in recs if t == APPDATA)
        closed = any(t == ALERT and p[:2] == b"\x01\x00" for t, p in recs)
        return hs, app, closed, wire[used:]
