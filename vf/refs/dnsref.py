"""Independent RFC 1035 / RFC 3597 reference DNS wire decoder and encoder (with name compression).

Written from the RFCs, not from mitmproxy's code.  Oracle of C25 / C26 / C27.

* RFC 1035 §4.1: header (id, 16 flag bits, four counts), question section, three RR sections.
* RFC 1035 §4.1.4: a name is a sequence of labels ended by a zero octet or by a 2-octet pointer
  (top bits 11, 14-bit offset from the start of the message).  Label types 01/10 are reserved.
* RFC 3597 §4: *which* RDATA contains (possibly compressed) domain names is a property of the RR
  TYPE.  `LAYOUT` lists, for every type that embeds names, the exact field sequence; every type that
  is not listed (A, AAAA, TXT, HINFO, unknown types ...) is opaque: its RDATA never contains a
  pointer and must be treated as a byte string.

The code works on any indexable sequence of byte values.  Items may be plain ints or symbolic
integers: only `==`, `&`, `|`, `<<`, `>>`, `int()` are applied to items.  `int(x)` is applied to
structural octets only (label lengths, pointers, counts, RDLENGTH), never to opaque RDATA octets,
TTLs or numeric RDATA fields.
"""
from __future__ import annotations

from collections import namedtuple


class RefError(Exception):
    """the buffer is not a well-formed DNS message"""


Q = namedtuple("Q", "name type cls")  # name: tuple of label byte-strings
RR = namedtuple("RR", "name type cls ttl fields")  # fields: tuple of (kind, fieldname, value)
Msg = namedtuple("Msg", "id flags qd an ns ar")

A, NS, MD, MF, CNAME, SOA, MB, MG, MR, PTR, HINFO, MINFO, MX, TXT = 1, 2, 3, 4, 5, 6, 7, 8, 9, 12, 13, 14, 15, 16
RP, AFSDB, RT, SIG, PX, AAAA, NXT, SRV, NAPTR, KX, DNAME = 17, 18, 21, 24, 26, 28, 30, 33, 35, 36, 39

# field kinds: ("name", fieldname) | ("raw", fieldname, nbytes) | ("rest", fieldname) | ("cstr", fieldname)
LAYOUT = {
    NS: [("name", "nsdname")], MD: [("name", "madname")], MF: [("name", "madname")],
    CNAME: [("name", "cname")], MB: [("name", "madname")], MG: [("name", "mgmname")],
    MR: [("name", "newname")], PTR: [("name", "ptrdname")], DNAME: [("name", "target")],
    SOA: [("name", "mname"), ("name", "rname"), ("raw", "serial", 4), ("raw", "refresh", 4),
          ("raw", "retry", 4), ("raw", "expire", 4), ("raw", "minimum", 4)],
    MINFO: [("name", "rmailbx"), ("name", "emailbx")],
    MX: [("raw", "preference", 2), ("name", "exchange")],
    RP: [("name", "mbox"), ("name", "txt")],
    AFSDB: [("raw", "subtype", 2), ("name", "hostname")],
    RT: [("raw", "preference", 2), ("name", "host")],
    KX: [("raw", "preference", 2), ("name", "exchanger")],
    PX: [("raw", "preference", 2), ("name", "map822"), ("name", "mapx400")],
    SRV: [("raw", "priority", 2), ("raw", "weight", 2), ("raw", "port", 2), ("name", "target")],
    NAPTR: [("raw", "order", 2), ("raw", "preference", 2), ("cstr", "flags"), ("cstr", "services"),
            ("cstr", "regexp"), ("name", "replacement")],
    SIG: [("raw", "fixed", 18), ("name", "signer"), ("rest", "signature")],
    NXT: [("name", "next"), ("rest", "bitmap")],
}

TYPE_NAMES = {A: "A", NS: "NS", CNAME: "CNAME", SOA: "SOA", PTR: "PTR", HINFO: "HINFO", MX: "MX", TXT: "TXT",
              AAAA: "AAAA", SRV: "SRV", MINFO: "MINFO", RP: "RP", NAPTR: "NAPTR", DNAME: "DNAME"}


def type_name(t) -> str:
    return TYPE_NAMES.get(t, f"TYPE{t}")


def _u(items, off, n):
    if off + n > len(items):
        raise RefError(f"truncated: need {n} octets at {off}")
    v = 0
    for x in items[off:off + n]:
        v = (v << 8) | x
    return v


def read_name(items, off, limit=None, content=True):
    """-> (labels, offset after the name in the *original* position).  `limit`: exclusive end of the
    region the name's own octets (not pointer targets) must stay in.  content=False: labels are
    returned as their lengths only (label octets are not looked at)."""
    labels = []
    end = None
    hops = 0
    pos = off
    total = 0
    while True:
        if pos >= len(items):
            raise RefError("name runs past the end of the message")
        n = int(items[pos])
        if n & 0xC0 == 0xC0:
            if pos + 1 >= len(items):
                raise RefError("truncated pointer")
            target = ((n & 0x3F) << 8) | int(items[pos + 1])
            if end is None:
                end = pos + 2
            hops += 1
            if hops > len(items):
                raise RefError("compression pointer loop")
            pos = target
            continue
        if n & 0xC0:
            raise RefError("reserved label type")
        if n == 0:
            if end is None:
                end = pos + 1
            break
        if pos + 1 + n > len(items):
            raise RefError("label runs past the end of the message")
        labels.append(bytes(int(x) for x in items[pos + 1:pos + 1 + n]) if content else n)
        total += n + 1
        if total > 254:
            raise RefError("name longer than 255 octets")
        pos += 1 + n
    if limit is not None and end > limit:
        raise RefError("name runs past the end of RDATA")
    return tuple(labels), end


def _fields(items, rtype, off, end, lenient=False):
    """lenient: a field that cannot be read ends the list with ("error", fieldname, reason) instead of
    raising, so that a caller can say *which* field of a damaged RDATA went wrong"""
    lay = LAYOUT.get(rtype)
    if lay is None:
        return (("raw", "rdata", list(items[off:end])),)
    out = []
    pos = off
    fname = "rdata"
    try:
        for spec in lay:
            kind, fname = spec[0], spec[1]
            if kind == "name":
                labels, pos = read_name(items, pos, end)
                out.append(("name", fname, labels))
            elif kind == "raw":
                n = spec[2]
                if pos + n > end:
                    raise RefError(f"RDATA too short for {fname}")
                out.append(("raw", fname, list(items[pos:pos + n])))
                pos += n
            elif kind == "cstr":
                if pos >= end:
                    raise RefError(f"RDATA too short for {fname}")
                n = int(items[pos])
                if pos + 1 + n > end:
                    raise RefError(f"character-string {fname} runs past RDATA")
                out.append(("raw", fname, list(items[pos:pos + 1 + n])))
                pos += 1 + n
            else:  # rest
                out.append(("raw", fname, list(items[pos:end])))
                pos = end
        fname = "length"
        if pos != end:
            raise RefError("RDATA length does not match its layout")
    except RefError as e:
        if not lenient:
            raise
        out.append(("error", fname, str(e)))
    return tuple(out)


def decode(buf, *, typed=True, exact=True, lenient=False) -> Msg:
    """typed=False: every RDATA is kept opaque (used when only header/questions/owners matter)"""
    items = list(buf)
    if len(items) < 12:
        raise RefError("shorter than a header")
    mid, flags = _u(items, 0, 2), _u(items, 2, 2)
    counts = [int(_u(items, 4 + 2 * i, 2)) for i in range(4)]
    pos = 12
    qd = []
    for _ in range(counts[0]):
        name, pos = read_name(items, pos)
        qd.append(Q(name, _u(items, pos, 2), _u(items, pos + 2, 2)))
        pos += 4
    secs = []
    for c in counts[1:]:
        sec = []
        for _ in range(c):
            name, pos = read_name(items, pos)
            rtype, cls, ttl = int(_u(items, pos, 2)), _u(items, pos + 2, 2), _u(items, pos + 4, 4)
            rdlen = int(_u(items, pos + 8, 2))
            pos += 10
            if pos + rdlen > len(items):
                raise RefError("RDATA runs past the end of the message")
            f = _fields(items, rtype, pos, pos + rdlen, lenient) if typed else (("raw", "rdata", list(items[pos:pos + rdlen])),)
            sec.append(RR(name, rtype, cls, ttl, f))
            pos += rdlen
        secs.append(sec)
    if exact and pos != len(items):
        raise RefError("trailing octets")
    return Msg(mid, flags, qd, secs[0], secs[1], secs[2])


def split_tcp(stream):
    """RFC 1035 §4.2.2: each message is prefixed with a two-octet length.  -> (messages, rest, error)
    error is set when a zero length prefix is met (no DNS message is shorter than its 12-octet
    header, so a zero-length frame is malformed); parsing stops there."""
    items = list(stream)
    out = []
    pos = 0
    while len(items) - pos >= 2:
        n = (items[pos] << 8) | items[pos + 1]
        if n == 0:
            return out, items[pos:], "zero-length"
        if len(items) - pos - 2 < n:
            break
        n = int(n)  # (bounded by the octets present: decided by comparison first, so symbolic lengths do not enumerate)
        out.append(items[pos + 2:pos + 2 + n])
        pos += 2 + n
    return out, items[pos:], None


# ------------------------------------------------------------------------------------------------
# encoder


class Encoder:
    """Builds a message octet by octet.  Names can be written compressed (pointer to the longest
    suffix already in the message) or uncompressed; every suffix written is remembered so that later
    names can point at it, exactly as real servers do."""

    def __init__(self):
        self.items = []
        self.where = {}  # tuple of lower-cased labels -> offset

    def u(self, v, nbytes):
        for i in reversed(range(nbytes)):
            self.items.append((v >> (8 * i)) & 0xFF)

    def raw(self, octets):
        self.items.extend(octets)

    def name(self, labels, compress):
        labels = tuple(labels)
        for i in range(len(labels)):
            suffix = tuple(l.lower() for l in labels[i:])
            if compress and suffix in self.where:
                self.u(0xC000 | self.where[suffix], 2)
                return
            if len(self.items) < 0x4000:
                self.where.setdefault(suffix, len(self.items))
            self.items.append(len(labels[i]))
            self.items.extend(labels[i])
        self.items.append(0)


def encode(msg: Msg, *, compress_owner=lambda sec, i: False, compress_rdata=lambda sec, i, fname: False) -> list:
    """-> list of octet items.  RR.fields entries: ("name", fname, labels) | ("raw", fname, octets)
    | ("u", fname, value, nbytes)."""
    e = Encoder()
    e.u(msg.id, 2)
    e.u(msg.flags, 2)
    for n in (len(msg.qd), len(msg.an), len(msg.ns), len(msg.ar)):
        e.u(n, 2)
    for q in msg.qd:
        e.name(q.name, False)
        e.u(q.type, 2)
        e.u(q.cls, 2)
    for sname, sec in (("an", msg.an), ("ns", msg.ns), ("ar", msg.ar)):
        for i, rr in enumerate(sec):
            e.name(rr.name, compress_owner(sname, i))
            e.u(rr.type, 2)
            e.u(rr.cls, 2)
            e.u(rr.ttl, 4)
            lenpos = len(e.items)
            e.u(0, 2)
            start = len(e.items)
            for f in rr.fields:
                if f[0] == "name":
                    e.name(f[2], compress_rdata(sname, i, f[1]))
                elif f[0] == "u":
                    e.u(f[2], f[3])
                else:
                    e.raw(f[2])
            n = len(e.items) - start
            e.items[lenpos], e.items[lenpos + 1] = n >> 8, n & 0xFF
    return e.items


def norm_fields(fields):
    """encoder-side field list -> decoder-side shape (("u", f, v, n) becomes raw octets)"""
    out = []
    for f in fields:
        if f[0] == "u":
            out.append(("raw", f[1], [(f[2] >> (8 * i)) & 0xFF for i in reversed(range(f[3]))]))
        else:
            out.append((f[0], f[1], f[2] if f[0] == "name" else list(f[2])))
    return tuple(out)


def name_eq(a, b) -> bool:
    """RFC 1035 §2.3.3 / RFC 4343: names compare case-insensitively (ASCII letters only)"""
    return len(a) == len(b) and all(x.lower() == y.lower() for x, y in zip(a, b))


def text_name(labels) -> str:
    return ".".join(l.decode("latin-1") for l in labels)
