"""Independent reference for the server side of SOCKS5 (RFC 1928) with username/password
sub-negotiation (RFC 1929).  Written from the RFC text, not from mitmproxy's code.

The parser works on any indexable byte sequence whose items are ints *or* symbolic ints (vf.symx):
it only indexes, slices, compares and adds, so under the symbolic engine every `if` on a symbolic
comparison forks and the same code serves as the oracle for all inputs at once.

`parse(buf, auth_required, validate)` reads the complete client byte stream received so far and
returns a `Ref` describing what a conforming server must have done by now:

  status   "pending"  the bytes are a proper prefix of a handshake: nothing may be decided yet
           "reject"   the server must refuse and close
           "connect"  the handshake is complete: CONNECT to (atyp, addr items, port), `rest` goes to the
                      next layer
  replies  list of exact reply messages (lists of ints) that must have been sent before the final
           reply, in order: method selection (RFC 1928 section 3), auth status (RFC 1929 section 2)
  rep      constraint on the *final* reply:
             None        no final reply is due yet (pending)
             int         a section-6 reply with exactly this REP code (0 = succeeded)
             "method"    the method-selection message X'05' X'FF' (no acceptable methods)
             "auth"      the RFC 1929 status message with STATUS != 0
             "any"       the RFC defines no code for this error (wrong VER): nothing, or any failure reply
  lenient  True where the RFC does not say what a server does with the deviation (RSV != 0, RFC 1929
           VER != 1, zero-length name fields): the server may either refuse (as "any") or carry on as if
           the field were valid; `alt` then holds the Ref of carrying on
  stage / stage_len / decide_by
           the stage that produced a rejection, how many bytes of that stage's message were available
           and the length of the shortest complete message of that stage: a server may postpone the
           refusal until `decide_by` bytes of the message have arrived (it cannot be required to
           validate a header it has not fully received)
"""
from __future__ import annotations

VER = 5
M_NOAUTH, M_USERPASS, M_NONE = 0x00, 0x02, 0xFF
CMD_CONNECT = 1
ATYP_V4, ATYP_DOMAIN, ATYP_V6 = 1, 3, 4
REP_OK, REP_CMD_NOT_SUPPORTED, REP_ATYP_NOT_SUPPORTED = 0, 7, 8

# shortest complete message of each stage (RFC 1928 section 3: NMETHODS 1..255; RFC 1929: ULEN, PLEN
# 1..255; section 4: shortest request is a 1-octet domain name, we allow the 0-octet one as the bound)
DECIDE_BY = {"greeting": 3, "auth": 5, "request": 7}


class Ref:
    def __init__(self, status, replies, rep=None, **kw):
        self.status = status
        self.replies = replies
        self.rep = rep
        self.lenient = False
        self.alt = None
        self.stage = kw.pop("stage", None)
        self.stage_len = kw.pop("stage_len", None)
        self.decide_by = DECIDE_BY.get(self.stage)
        self.atyp = kw.pop("atyp", None)
        self.addr = kw.pop("addr", None)
        self.port = kw.pop("port", None)
        self.rest = kw.pop("rest", None)
        self.user = kw.pop("user", None)
        self.password = kw.pop("password", None)
        self.why = kw.pop("why", "")
        assert not kw, kw

    def __repr__(self):
        return f"<Ref {self.status} rep={self.rep} {self.why} lenient={self.lenient}>"


def _items(b):
    return list(b.items) if hasattr(b, "items") and not isinstance(b, dict) else list(b)


def _c(x):
    """a length field that is about to be used as an index: under the symbolic engine __index__ forks
    over every feasible value, on plain ints it is the identity"""
    return x if isinstance(x, int) else x.__index__()


def _lenient(ref_strict, ref_alt):
    ref_strict.lenient = True
    ref_strict.alt = ref_alt
    return ref_strict


def parse(buf, auth_required, validate=None):
    """validate(user_items, password_items) -> bool, consulted once iff a complete RFC 1929 message
    is present (the predicate is arbitrary: the reference only fixes *what* is validated)."""
    b = _items(buf)
    n = len(b)
    replies = []
    # ---- section 3: version identifier / method selection message  VER NMETHODS METHODS
    if n < 1:
        return Ref("pending", replies, stage="greeting", stage_len=n)
    if b[0] != VER:
        return Ref("reject", replies, "any", stage="greeting", stage_len=n, why="greeting VER != 5")
    if n < 2:
        return Ref("pending", replies, stage="greeting", stage_len=n)
    nm = b[1]
    if n < nm + 2:
        return Ref("pending", replies, stage="greeting", stage_len=n)
    nm = _c(nm)
    want = M_USERPASS if auth_required else M_NOAUTH
    offered = False
    for i in range(2, 2 + nm):
        if b[i] == want:
            offered = True
    if not offered:
        return Ref("reject", replies, "method", stage="greeting", stage_len=n, why="required method not offered")
    replies = replies + [[VER, want]]
    pos = 2 + nm
    # ---- RFC 1929 section 2:  VER ULEN UNAME PLEN PASSWD
    user = password = None
    auth_ver_bad = None
    if auth_required:
        m = n - pos
        if m < 2:
            return Ref("pending", replies, stage="auth", stage_len=m)
        ul = b[pos + 1]
        if m < 2 + ul + 1:
            return Ref("pending", replies, stage="auth", stage_len=m)
        ul = _c(ul)
        pl = b[pos + 2 + ul]
        if m < 2 + ul + 1 + pl:
            return Ref("pending", replies, stage="auth", stage_len=m)
        pl = _c(pl)
        user = b[pos + 2 : pos + 2 + ul]
        password = b[pos + 3 + ul : pos + 3 + ul + pl]
        auth_ver_bad = b[pos] != 1
        ok = bool(validate(user, password))
        if not ok:
            return Ref("reject", replies, "auth", stage="auth", stage_len=m, user=user, password=password, why="credentials refused")
        replies = replies + [[1, 0]]
        pos = pos + 3 + ul + pl
    r = _request(b, pos, replies, user, password)
    if auth_required and bool(auth_ver_bad):
        # RFC 1929 fixes VER = X'01' but does not say what a server does otherwise
        strict = Ref("reject", replies[:-1], "any", stage="auth", stage_len=None, user=user, password=password, why="RFC 1929 VER != 1")
        return _lenient(strict, r)
    return r


def _request(b, pos, replies, user, password):
    """section 4:  VER CMD RSV ATYP DST.ADDR DST.PORT"""
    n = len(b)
    m = n - pos
    kw = dict(stage="request", stage_len=m, user=user, password=password)
    if m < 1:
        return Ref("pending", replies, **kw)
    if b[pos] != VER:
        return Ref("reject", replies, "any", why="request VER != 5", **kw)
    if m < 2:
        return Ref("pending", replies, **kw)
    if b[pos + 1] != CMD_CONNECT:
        # BIND / UDP ASSOCIATE / unknown: "command not supported"
        return Ref("reject", replies, REP_CMD_NOT_SUPPORTED, why="CMD != CONNECT", **kw)
    if m < 3:
        return Ref("pending", replies, **kw)
    r = _address(b, pos, m, replies, kw)
    if b[pos + 2] != 0:
        # RSV "must be X'00'"; the RFC gives no reply code for a violation
        strict = Ref("reject", replies, "any", why="RSV != 0", **kw)
        return _lenient(strict, r)
    return r


def _address(b, pos, m, replies, kw):
    if m < 4:
        return Ref("pending", replies, **kw)
    atyp = b[pos + 3]
    if atyp == ATYP_V4:
        alen, off = 4, 4
    elif atyp == ATYP_V6:
        alen, off = 16, 4
    elif atyp == ATYP_DOMAIN:
        if m < 5:
            return Ref("pending", replies, **kw)
        alen, off = b[pos + 4], 5
    else:
        return Ref("reject", replies, REP_ATYP_NOT_SUPPORTED, why="unknown ATYP", **kw)
    if m < off + alen + 2:
        return Ref("pending", replies, **kw)
    alen = _c(alen)
    addr = b[pos + off : pos + off + alen]
    p = pos + off + alen
    port = b[p] * 256 + b[p + 1]
    rest = b[p + 2 :]
    atyp = _c(atyp)
    ok = Ref("connect", replies, REP_OK, atyp=atyp, addr=addr, port=port, rest=rest, **kw)
    if atyp == ATYP_DOMAIN and alen == 0:
        strict = Ref("reject", replies, "any", why="empty domain name", **kw)
        return _lenient(strict, ok)
    return ok


def wellformed_reply(msg):
    """RFC 1928 section 6 reply  VER REP RSV ATYP BND.ADDR BND.PORT  -> REP code, or None if malformed"""
    msg = list(msg)
    if len(msg) < 4 or msg[0] != VER or msg[2] != 0:
        return None
    if msg[3] == ATYP_V4:
        want = 4 + 4 + 2
    elif msg[3] == ATYP_V6:
        want = 4 + 16 + 2
    elif msg[3] == ATYP_DOMAIN:
        if len(msg) < 5:
            return None
        want = 4 + 1 + msg[4] + 2
    else:
        return None
    if len(msg) != want:
        return None
    return msg[1]
