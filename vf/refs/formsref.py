"""Independent references for C34 (query / cookie / form / path views).

Each wire format gets (a) its own *representability* rule — which (name, value) pairs the format can carry —
and, where the format has a crisp grammar, (b) a small reference *parser* of the wire bytes.  Everything here is
written from the specifications, not from mitmproxy's code:

  application/x-www-form-urlencoded   WHATWG URL standard, section 5 (parser and serializer)
  Cookie / Set-Cookie                 RFC 6265 section 4.1.1 / 4.2.1 (+ RFC 2109/2965 quoted-string as an extension tier)
  multipart/form-data                 RFC 7578 + RFC 2046 section 5.1.1
  path segments                       RFC 3986 section 3.3

Text is `str` with the UTF-8/surrogateescape convention mitmproxy documents for binary data: a str is a
faithful stand-in for bytes iff it survives encode/decode with that error handler.
"""

TCHAR = set("!#$%&'*+-.^_`|~0123456789abcdefghijklmnopqrstuvwxyzABCDEFGHIJKLMNOPQRSTUVWXYZ")


def is_binary_safe_text(s: str) -> bool:
    """s stands for exactly one byte string under UTF-8/surrogateescape (lone surrogates other than U+DC80..U+DCFF,
    and escaped bytes that happen to form valid UTF-8, do not)"""
    try:
        return s.encode("utf-8", "surrogateescape").decode("utf-8", "surrogateescape") == s
    except UnicodeError:
        return False


# ------------------------------------------------------------------------------------------
# application/x-www-form-urlencoded

def urlencoded_representable(pairs) -> bool:
    """the serializer percent-encodes every byte outside its safe set, so every pair of byte strings can be carried"""
    return all(is_binary_safe_text(k) and is_binary_safe_text(v) for k, v in pairs)


def _pct_decode(b: bytes) -> bytes:
    out, i = bytearray(), 0
    hexd = b"0123456789abcdefABCDEF"
    while i < len(b):
        if b[i] == 0x25 and i + 2 < len(b) and b[i + 1] in hexd and b[i + 2] in hexd:
            out.append(int(b[i + 1:i + 3], 16))
            i += 3
        else:
            out.append(b[i])
            i += 1
    return bytes(out)


def urlencoded_parse(raw: bytes):
    """WHATWG 'application/x-www-form-urlencoded parsing': split on '&', skip empty sequences, split on the first '=',
    '+' -> SP, percent-decode.  Result as surrogateescape text."""
    out = []
    for seq in raw.split(b"&"):
        if not seq:
            continue
        if b"=" in seq:
            n, v = seq.split(b"=", 1)
        else:
            n, v = seq, b""
        n, v = (_pct_decode(x.replace(b"+", b" ")) for x in (n, v))
        out.append((n.decode("utf-8", "surrogateescape"), v.decode("utf-8", "surrogateescape")))
    return out


# ------------------------------------------------------------------------------------------
# cookies

def _cookie_octet(c: str) -> bool:
    o = ord(c)
    return o == 0x21 or 0x23 <= o <= 0x2B or 0x2D <= o <= 0x3A or 0x3C <= o <= 0x5B or 0x5D <= o <= 0x7E


def cookie_name_ok(name: str) -> bool:
    return len(name) > 0 and all(c in TCHAR for c in name)


def cookie_value_tier(value: str):
    """'rfc6265' : *cookie-octet (optionally wrapped in DQUOTEs, which then belong to the value as sent)
       'quoted'  : only expressible as an RFC 2109/2965 quoted-string (SP , ; \\ DQUOTE, non-ASCII) — extension tier
       None      : cannot travel in a header field at all (CTLs incl. CR, LF, NUL, DEL)"""
    if all(_cookie_octet(c) for c in value):
        return "rfc6265"
    if len(value) >= 2 and value[0] == value[-1] == '"' and all(_cookie_octet(c) for c in value[1:-1]):
        return "rfc6265"
    if any(ord(c) < 0x20 or ord(c) == 0x7F for c in value):
        return None
    if not is_binary_safe_text(value):
        return None
    return "quoted"


# ------------------------------------------------------------------------------------------
# multipart/form-data

def multipart_name_ok(name: bytes) -> bool:
    """RFC 7578 4.2: the name travels inside a quoted parameter of one header line"""
    return len(name) > 0 and not any(c in name for c in (b'"', b"\r", b"\n"))


def multipart_value_ok(value: bytes, boundary: bytes) -> bool:
    """RFC 2046 5.1.1: the boundary delimiter must not appear inside the encapsulated part (at the start of a line)"""
    d = b"--" + boundary
    if value.startswith(d):
        return False
    return not any(sep + d in value for sep in (b"\r\n", b"\n", b"\r"))


def multipart_parse(body: bytes, boundary: bytes):
    """RFC 2046 5.1.1 body parser: parts are delimited by CRLF '--' boundary; the CRLF preceding the delimiter belongs
    to the delimiter.  Returns [(name, content)] or None if the body is not well-formed."""
    delim = b"--" + boundary
    if body.startswith(delim):
        body = b"\r\n" + body
    chunks = body.split(b"\r\n" + delim)
    if len(chunks) < 2:
        return None
    out = []
    closed = False
    for ch in chunks[1:]:
        if ch.startswith(b"--"):
            closed = True
            break
        # transport padding then CRLF
        rest = ch.lstrip(b" \t")
        if not rest.startswith(b"\r\n"):
            return None
        rest = rest[2:]
        if rest.startswith(b"\r\n"):
            head, content = b"", rest[2:]
        elif b"\r\n\r\n" in rest:
            head, content = rest.split(b"\r\n\r\n", 1)
        else:
            return None
        name = None
        for line in head.split(b"\r\n"):
            if line.lower().startswith(b"content-disposition:"):
                i = line.find(b'name="')
                # skip filename="..."
                while i > 0 and line[i - 1:i] not in (b" ", b";"):
                    i = line.find(b'name="', i + 1)
                if i >= 0:
                    j = line.find(b'"', i + 6)
                    if j >= 0:
                        name = line[i + 6:j]
        if name is None:
            return None
        out.append((name, content))
    return out if closed else None


# ------------------------------------------------------------------------------------------
# path

def path_segments(path: str):
    """RFC 3986 3.3: path = *( "/" segment ); every segment counts, empty ones included ('/a/' != '/a').
    `path` is the path component only (no ;params of the last segment split off, no query)."""
    if path == "" or path == "*":
        return []
    b = path.encode("utf-8", "surrogateescape")
    if not b.startswith(b"/"):
        return None
    return [_pct_decode(s).decode("utf-8", "surrogateescape") for s in b[1:].split(b"/")]
