"""Obligation types and their runners.  An obligation is one solver-decided sub-claim of a property.

Statuses:
  discharged    the decision tree / query set was exhausted within the stated bound, no counterexample
  violated      a counterexample was found AND reproduced by a plain concrete replay on the real code
  inconclusive  time-out / solver unknown / unsupported operation: searched, nothing found, NOT a verdict
  error         the harness itself is broken or vacuous (exit 3)
"""
from __future__ import annotations

import json
import os
import subprocess
import sys
import time
import traceback
import inspect

from . import symx

ROOT = os.path.dirname(os.path.dirname(os.path.abspath(__file__)))
NPROC = int(os.environ.get("VERIF_PROCS", "16"))


class ObResult:
    def __init__(self, ob):
        self.name = ob.name
        self.engine = ob.engine
        self.status = "error"
        self.bounds = ob.bounds
        self.encoded = list(ob.encoded)
        self.stubs = list(getattr(ob, "stubs", []))
        self.paths = 0
        self.nontrivial = 0
        self.queries = 0
        self.solver_s = 0.0
        self.wall_s = 0.0
        self.violations = []  # confirmed: {key,msg,values,witness}
        self.spurious = []  # counterexamples that did not replay
        self.inconclusive = []
        self.errors = []
        self.reached = {}
        self.samples = []
        self.extra = {}

    def as_dict(self):
        return dict(self.__dict__)


class Symx:
    """own-engine obligation: fn(X) executed symbolically, tree exhausted, CEs replayed concretely"""

    engine = "symx"

    def __init__(self, name, fn, *, bounds, encoded, must_reach=(), stubs=(), parallel_depth=0, budget_s=None,
                 setup=None, teardown=None):
        self.name, self.fn, self.bounds, self.encoded = name, fn, bounds, encoded
        self.must_reach = tuple(must_reach)
        self.stubs = list(stubs)
        self.parallel_depth = parallel_depth
        self.budget_s = budget_s
        self.setup, self.teardown = setup, teardown

    def run(self, known_keys, seed=0):
        r = ObResult(self)
        t0 = time.time()
        try:
            if self.parallel_depth:
                res = symx.explore_parallel(self.fn, procs=NPROC, depth=self.parallel_depth,
                                            budget_s=self.budget_s, known_keys=known_keys)
            else:
                import fnmatch

                sk = list(known_keys)
                res = symx.explore(self.fn, budget_s=self.budget_s,
                                   stop_on=lambda rec: not any(fnmatch.fnmatchcase(rec["key"], k) for k in sk))
        except Exception:  # noqa
            r.errors.append(traceback.format_exc()[-3000:])
            r.wall_s = time.time() - t0
            return r
        r.paths, r.queries, r.solver_s = res.paths, res.queries, round(res.solver_s, 3)
        r.reached = res.reached
        r.nontrivial = max(res.reached.values()) if res.reached else 0
        r.samples = res.samples
        r.inconclusive = [i[0] for i in res.inconclusive[:10]]
        r.errors = res.harness_errors[:3]
        r.extra = {"max_depth": res.max_depth, "infeasible_paths": res.infeasible,
                   "partitions": getattr(res, "partitions", 1), "tree_exhausted": res.exhausted}
        # confirm every counterexample by a concrete replay (no symbolic machinery)
        for v in res.violations:
            kind, exc = symx.replay(self.fn, v["values"])
            if kind == "violation" and exc.key == v["key"]:
                v = dict(v, witness=symx._jsonable(exc.witness) or v["witness"], msg=exc.msg or v["msg"])
                r.violations.append(v)
            elif kind == "crash" and v["key"].startswith("crash:") and type(exc).__name__ == v["key"][6:]:
                r.violations.append(v)
            elif kind == "timeout" and v["key"].startswith("hang:"):
                r.violations.append(v)  # the concrete replay did not return either
            else:
                r.spurious.append({"key": v["key"], "values": v["values"], "replay": kind,
                                   "replay_detail": str(exc)[:300] if exc else ""})
        missing = [m for m in self.must_reach if not res.reached.get(m)]
        if r.errors:
            r.status = "error"
        elif r.spurious:
            r.status = "error"
            r.errors.append("counterexample did not reproduce concretely (engine/harness artefact): %r" % r.spurious[:2])
        elif r.violations:
            r.status = "violated"
        elif missing and res.exhausted:
            r.status = "error"
            r.errors.append(f"vacuous harness: labels never reached: {missing}")
        elif res.exhausted:
            r.status = "discharged"
        else:
            r.status = "inconclusive"
            if not r.inconclusive:
                r.inconclusive = ["time budget exhausted before the decision tree"]
        r.wall_s = round(time.time() - t0, 3)
        return r

    def replay(self, values):
        return symx.replay(self.fn, values)


class Smt:
    """SMT obligations generated from source: build() -> list of Query"""

    engine = "smt"

    def __init__(self, name, build, *, bounds, encoded, stubs=()):
        self.name, self.build, self.bounds, self.encoded = name, build, bounds, encoded
        self.stubs = list(stubs)

    def run(self, known_keys, seed=0):
        from . import smt

        r = ObResult(self)
        t0 = time.time()
        try:
            queries = self.build()
        except smt.AnchorNotFound as e:
            r.errors.append(f"anchor not found in current source: {e}")
            r.wall_s = time.time() - t0
            return r
        except Exception:  # noqa
            r.errors.append(traceback.format_exc()[-3000:])
            r.wall_s = time.time() - t0
            return r
        n_dis = 0
        for q in queries:
            out = q.run()
            r.queries += 1
            r.solver_s += out["solver_s"]
            if len(r.samples) < 8:
                r.samples.append({"query": q.name, "result": out["result"], "solver_s": round(out["solver_s"], 4)})
            if out["result"] == "unsat":
                n_dis += 1
            elif out["result"] == "sat":
                w = out["witness"]
                ok, detail = q.replay(w) if q.replay else (True, "no replay function: witness is the model itself")
                rec = {"key": q.key, "msg": f"{q.name}: {detail}", "values": {"witness": symx._jsonable(w)}, "witness": {}}
                if ok:
                    r.violations.append(rec)
                else:
                    r.spurious.append(rec)
            else:
                r.inconclusive.append(f"{q.name}: {out['result']}")
        r.paths = r.queries
        r.nontrivial = r.queries
        r.extra = {"queries_unsat": n_dis}
        if r.spurious:
            r.status = "error"
            r.errors.append("SMT witness did not reproduce on the real code: %r" % r.spurious[:2])
        elif r.violations:
            r.status = "violated"
        elif r.inconclusive:
            r.status = "inconclusive"
        elif not queries:
            r.status = "error"
            r.errors.append("no queries generated")
        else:
            r.status = "discharged"
        r.solver_s = round(r.solver_s, 3)
        r.wall_s = round(time.time() - t0, 3)
        return r


class Chx:
    """CrossHair obligation: a function `fn` in harness file `file` carrying PEP-316 `pre:` lines and
    `post: _` (returns truthy <=> property holds).  A twin `twin` (same body, always returns False
    after the interesting code) must come back violated, else the harness is vacuous."""

    engine = "crosshair"

    def __init__(self, name, file, fn, *, bounds, encoded, timeout=30, twin=None, stubs=(), keyfn=None, unpatch=()):
        self.name, self.file, self.fn, self.bounds, self.encoded = name, file, fn, bounds, encoded
        self.timeout = timeout
        self.twin = twin
        self.stubs = list(stubs)
        self.keyfn = keyfn
        self.unpatch = list(unpatch)

    def _child(self, fn, timeout, seed):
        cmd = [sys.executable, "-m", "vf.chx_child", self.file, fn, str(timeout), str(seed)] + self.unpatch
        env = dict(os.environ, PYTHONPATH=ROOT + os.pathsep + os.environ.get("PYTHONPATH", ""), PYTHONHASHSEED="0")
        try:
            p = subprocess.run(cmd, capture_output=True, text=True, timeout=timeout * 3 + 120, env=env, cwd=ROOT)
        except subprocess.TimeoutExpired:
            return {"state": "TIMEOUT", "messages": [], "stats": {}, "stderr": "child timeout"}
        for line in reversed(p.stdout.splitlines()):
            if line.startswith("CHXJSON "):
                d = json.loads(line[8:])
                d["stderr"] = p.stderr[-2000:]
                return d
        return {"state": "CRASH", "messages": [], "stats": {}, "stderr": (p.stdout + p.stderr)[-3000:]}

    def launch(self, seed=0):
        """returns a callable that yields the ObResult (children are run by the pool in run.py)"""
        raise NotImplementedError

    def run(self, known_keys, seed=0):
        from . import chx

        r = ObResult(self)
        t0 = time.time()
        excluded = []
        d = self._child(self.fn, self.timeout, seed)
        r.extra["crosshair_state"] = d["state"]
        r.paths = d.get("stats", {}).get("num_paths", 0)
        r.nontrivial = r.paths
        r.extra["stats"] = d.get("stats", {})
        r.solver_s = d.get("solver_s", 0.0)
        if d["state"] in ("CRASH", "TIMEOUT", "SYNTAX_ERR", "IMPORT_ERR"):
            r.errors.append(f"crosshair child {d['state']}: {d.get('stderr', '')[-1500:]} {d.get('messages')}")
        elif d["state"] in ("POST_FAIL", "EXEC_ERR", "POST_ERR", "PRE_UNSAT_CE"):
            for m in d["messages"]:
                if m["state"] not in ("POST_FAIL", "EXEC_ERR", "POST_ERR"):
                    continue
                try:
                    args, kwargs = chx.parse_call(m["message"], self.file)
                except Exception as e:  # noqa
                    r.errors.append(f"cannot parse counterexample {m['message']!r}: {e}")
                    continue
                ok, detail = chx.replay(self.file, self.fn, args, kwargs)
                key = self.keyfn(args, kwargs) if self.keyfn else f"{self.fn}"
                rec = {"key": key, "msg": m["message"][:500], "values": {"args": symx._jsonable(args), "kwargs": symx._jsonable(kwargs),
                       "args_repr": repr(args), "kwargs_repr": repr(kwargs)}, "witness": {"replay": detail}}
                if ok:
                    r.violations.append(rec)
                else:
                    r.spurious.append(rec)
        if r.errors:
            r.status = "error"
        elif r.violations:
            r.status = "violated"
        elif r.spurious:
            # engine artefact: not a verdict either way
            r.status = "inconclusive"
            r.inconclusive.append("crosshair counterexample did not reproduce concretely (engine artefact): %s" % r.spurious[0]["msg"][:200])
        elif d["state"] == "CONFIRMED":
            r.status = "discharged"
        elif d["state"] == "PRE_UNSAT":
            r.status = "error"
            r.errors.append("unable to meet precondition (vacuous or every path aborted)")
        else:
            r.status = "inconclusive"
            r.inconclusive.append(f"crosshair: {d['state']} (not confirmed within {self.timeout}s)")
        # reachability twin
        if self.twin and r.status in ("discharged", "inconclusive") and not r.spurious:
            td = self._child(self.twin, min(self.timeout, 30), seed)
            r.extra["twin_state"] = td["state"]
            if td["state"] not in ("POST_FAIL", "EXEC_ERR", "POST_ERR"):
                r.status = "error"
                r.errors.append(f"reachability twin {self.twin} was not violated ({td['state']}): harness vacuous")
        if d.get("samples"):
            r.samples = d["samples"][:6]
        if not r.samples:
            r.samples = [{"function": self.fn, "crosshair_state": d["state"]}]
        r.wall_s = round(time.time() - t0, 3)
        return r


class Concrete:
    """setup-time validation step (translator / oracle validation); not a verdict on the property,
    but a failing validation makes the whole check a harness error"""

    engine = "validation"

    def __init__(self, name, fn, *, bounds, encoded=()):
        self.name, self.fn, self.bounds, self.encoded = name, fn, bounds, list(encoded)

    def run(self, known_keys, seed=0):
        r = ObResult(self)
        t0 = time.time()
        try:
            n = self.fn()
            r.paths = int(n or 0)
            r.status = "validated"
            r.samples = [{"validation_cases": r.paths}]
        except Exception:  # noqa
            r.errors.append(traceback.format_exc()[-3000:])
            r.status = "error"
        r.wall_s = round(time.time() - t0, 3)
        return r
