"""Engine C: SMT obligations generated from the *current* source text of /repo.

* `source_regex(module_file, name)` pulls a `re.compile(...)` literal (or any constant) out of the
  source by AST, `regex_to_z3` translates the sre parse tree into a z3 regular expression, and
  `Query` objects assert the negated property; unsat = holds, sat = witness (replayed on the real
  compiled regex / function), unknown or error = inconclusive.
* Fails closed with AnchorNotFound if the named literal is no longer in the source.
"""
from __future__ import annotations

import ast
import os
import time

import z3

try:
    import re._parser as sre_parse
    import re._constants as sre_c
except ImportError:  # pragma: no cover
    import sre_parse
    import sre_constants as sre_c

REPO = os.environ.get("VERIF_REPO", "/repo")


class AnchorNotFound(Exception):
    pass


def read_source(relpath):
    p = os.path.join(REPO, relpath)
    if not os.path.exists(p):
        raise AnchorNotFound(relpath)
    with open(p, encoding="utf-8") as f:
        return f.read()


def find_assign(relpath, name):
    """AST node of the value assigned to `name` (module level or class level `Cls.name`)"""
    tree = ast.parse(read_source(relpath))
    parts = name.split(".")

    def search(body, parts):
        for node in body:
            if isinstance(node, (ast.Assign, ast.AnnAssign)):
                targets = node.targets if isinstance(node, ast.Assign) else [node.target]
                for t in targets:
                    if isinstance(t, ast.Name) and t.id == parts[0] and len(parts) == 1:
                        return node.value
            if isinstance(node, (ast.ClassDef, ast.FunctionDef)) and node.name == parts[0] and len(parts) > 1:
                return search(node.body, parts[1:])
        return None

    v = search(tree.body, parts)
    if v is None:
        raise AnchorNotFound(f"{relpath}:{name}")
    return v


def find_function(relpath, qualname):
    tree = ast.parse(read_source(relpath))
    body = tree.body
    node = None
    for part in qualname.split("."):
        node = next((n for n in body if isinstance(n, (ast.FunctionDef, ast.AsyncFunctionDef, ast.ClassDef)) and n.name == part), None)
        if node is None:
            raise AnchorNotFound(f"{relpath}:{qualname}")
        body = node.body
    return node


def regex_literals_in(node):
    """all (pattern, flags_src) of re.compile/re.match/re.search/... calls under an AST node"""
    out = []
    for n in ast.walk(node):
        if isinstance(n, ast.Call) and isinstance(n.func, ast.Attribute) and isinstance(n.func.value, ast.Name) and n.func.value.id == "re":
            if n.args and isinstance(n.args[0], ast.Constant) and isinstance(n.args[0].value, (str, bytes)):
                flags = [ast.unparse(a) for a in n.args[1:] if not isinstance(a, ast.Constant)] + [ast.unparse(k.value) for k in n.keywords if k.arg == "flags"]
                out.append((n.func.attr, n.args[0].value, flags))
    return out


def source_regex(relpath, name):
    """pattern (str) and flags of `name = re.compile(<literal>, flags)` in the current source"""
    v = find_assign(relpath, name)
    lits = regex_literals_in(v)
    if not lits:
        raise AnchorNotFound(f"{relpath}:{name} is not a re.compile literal")
    _, pat, flags = lits[0]
    return pat, flags


# ------------------------------------------------------------------------------------------
# sre parse tree -> z3 regex (over strings of code points; bytes patterns map to latin-1)

MAXCHAR = 0x10FFFF


def _chr(c):
    return z3.Re(z3.StringVal(chr(c)) if c < 0x110000 else None)


def _u(c):
    # z3 string literal for a single code point (escape non-printables)
    return z3.StringVal(chr(c))


Z3_MAXCHAR = 0x2FFFF  # z3's character sort ends here; StringVal() of a larger code point silently becomes a 9-10 character string


def _range(a, b):
    # clamp to z3's character domain: without this Range("(", chr(0x10FFFF)) has a multi-character
    # upper bound and denotes the EMPTY set, which silently empties no_chars()/any_string()/complements
    if a > Z3_MAXCHAR:
        return z3.Empty(z3.ReSort(z3.StringSort()))
    b = min(b, Z3_MAXCHAR)
    if a == b:
        return z3.Re(_u(a))
    return z3.Range(_u(a), _u(b))


_CATS = {
    "CATEGORY_DIGIT": [(48, 57)],
    "CATEGORY_SPACE": [(9, 13), (32, 32)],
    "CATEGORY_WORD": [(48, 57), (65, 90), (95, 95), (97, 122)],
}


_ND = None


def _unicode_decimal_ranges():
    global _ND
    if _ND is None:
        _ND = _norm([(c, c) for c in range(0x110000) if chr(c).isdecimal()])
    return list(_ND)


def _ranges_of_class(items, ascii_only, ignorecase, maxchar):
    neg = False
    rs = []
    for op, av in items:
        if op is sre_c.NEGATE:
            neg = True
        elif op is sre_c.LITERAL:
            rs.append((av, av))
        elif op is sre_c.RANGE:
            rs.append((av[0], av[1]))
        elif op is sre_c.CATEGORY:
            nm = str(av)
            base = nm.replace("CATEGORY_NOT_", "CATEGORY_")
            if base not in _CATS:
                raise NotImplementedError(nm)
            if not ascii_only and base == "CATEGORY_DIGIT":
                # str pattern without re.ASCII: \d is Py_UNICODE_ISDECIMAL (general category Nd)
                cr = _unicode_decimal_ranges()
                if "NOT_" in nm:
                    cr = _complement(cr, maxchar)
                rs += cr
                continue
            if not ascii_only and base != "CATEGORY_SPACE":
                raise NotImplementedError(f"{nm} without re.ASCII / bytes pattern (unicode category)")
            if not ascii_only:
                raise NotImplementedError(f"{nm} on str pattern")
            cr = _CATS[base]
            if "NOT_" in nm:
                cr = _complement(cr, maxchar)
            rs += cr
        else:
            raise NotImplementedError(op)
    if ignorecase:
        extra = []
        for a, b in rs:
            for lo, hi, d in ((65, 90, 32), (97, 122, -32)):
                x, y = max(a, lo), min(b, hi)
                if x <= y:
                    extra.append((x + d, y + d))
        rs += extra
    rs = _norm(rs)
    if neg:
        rs = _complement(rs, maxchar)
    return rs


def _norm(rs):
    rs = sorted(rs)
    out = []
    for a, b in rs:
        if out and a <= out[-1][1] + 1:
            out[-1] = (out[-1][0], max(out[-1][1], b))
        else:
            out.append((a, b))
    return out


def _complement(rs, maxchar):
    out, cur = [], 0
    for a, b in _norm(rs):
        if a > cur:
            out.append((cur, a - 1))
        cur = b + 1
    if cur <= maxchar:
        out.append((cur, maxchar))
    return out


def _re_of_ranges(rs):
    if not rs:
        return z3.Empty(z3.ReSort(z3.StringSort()))
    parts = [_range(a, b) for a, b in rs]
    return parts[0] if len(parts) == 1 else z3.Union(*parts)


def regex_to_z3(pattern, flags=0, *, is_bytes=None, anchored=None):
    """z3 regex for the language of *full matches* of `pattern`.
    Leading ^ / trailing $ (or \\Z) are accepted and ignored; other anchors, look-around,
    back-references and non-greedy-specific semantics are rejected (NotImplementedError) —
    language membership does not depend on greediness."""
    import re

    if is_bytes is None:
        is_bytes = isinstance(pattern, bytes)
    if isinstance(pattern, bytes):
        pattern = pattern.decode("latin-1")
        tree = sre_parse.parse(pattern.encode("latin-1"), flags)
    else:
        tree = sre_parse.parse(pattern, flags)
    fl = tree.state.flags | flags
    ascii_only = is_bytes or bool(fl & re.ASCII)
    ic = bool(fl & re.IGNORECASE)
    dotall = bool(fl & re.DOTALL)
    maxchar = 255 if is_bytes else MAXCHAR
    if fl & re.MULTILINE:
        raise NotImplementedError("MULTILINE")

    def conv(p, top=False):
        seq = []
        items = list(p)
        for idx, (op, av) in enumerate(items):
            if op is sre_c.LITERAL:
                seq.append(_re_of_ranges(_ranges_of_class([(sre_c.LITERAL, av)], ascii_only, ic, maxchar)))
            elif op is sre_c.NOT_LITERAL:
                seq.append(_re_of_ranges(_ranges_of_class([(sre_c.NEGATE, None), (sre_c.LITERAL, av)], ascii_only, ic, maxchar)))
            elif op is sre_c.IN:
                seq.append(_re_of_ranges(_ranges_of_class(av, ascii_only, ic, maxchar)))
            elif op is sre_c.ANY:
                seq.append(_re_of_ranges([(0, maxchar)] if dotall else _complement([(10, 10)], maxchar)))
            elif op in (sre_c.MAX_REPEAT, sre_c.MIN_REPEAT) or str(op) == "POSSESSIVE_REPEAT":
                lo, hi, sub = av
                r = conv(sub)
                if hi is sre_c.MAXREPEAT:
                    seq.append(z3.Star(r) if lo == 0 else (z3.Plus(r) if lo == 1 else z3.Concat(z3.Loop(r, lo, lo), z3.Star(r))))
                elif lo == 0 and hi == 1:
                    seq.append(z3.Option(r))
                else:
                    seq.append(z3.Loop(r, lo, hi))
            elif op is sre_c.SUBPATTERN:
                seq.append(conv(av[3]))
            elif op is sre_c.BRANCH:
                seq.append(z3.Union(*[conv(b) for b in av[1]]))
            elif op is sre_c.AT:
                nm = str(av)
                if top and idx == 0 and nm in ("AT_BEGINNING", "AT_BEGINNING_STRING"):
                    continue
                if top and idx == len(items) - 1 and nm in ("AT_END_STRING",):
                    continue
                if top and idx == len(items) - 1 and nm == "AT_END":
                    # `$` also matches before a trailing newline: L$ = L | L\n is NOT a full-match language;
                    # for fullmatch()/validation use we report the stricter language and flag it.
                    seq.append(z3.Option(z3.Re(z3.StringVal("\n"))))
                    continue
                raise NotImplementedError(nm)
            else:
                raise NotImplementedError(op)
        if not seq:
            return z3.Re(z3.StringVal(""))
        return seq[0] if len(seq) == 1 else z3.Concat(*seq)

    return conv(tree, top=True)


def any_string(is_bytes=False):
    return z3.Star(_re_of_ranges([(0, 255 if is_bytes else MAXCHAR)]))


def chars(s):
    return z3.Union(*[z3.Re(z3.StringVal(c)) for c in s]) if len(s) > 1 else z3.Re(z3.StringVal(s))


def z3str_value(v):
    """python str of a z3 string model value"""
    if v is None:
        return None
    return v.as_string() if hasattr(v, "as_string") else str(v)


def _unescape_z3(s):
    # z3 prints non-ASCII / control chars as \u{XX}
    import re

    return re.sub(r"\\u\{([0-9a-fA-F]+)\}", lambda m: chr(int(m.group(1), 16)), s)


class Query:
    """assert the negated property; expect unsat"""

    def __init__(self, name, assertions, *, key, witness_vars=(), replay=None, timeout_ms=30000):
        self.name, self.assertions, self.key = name, assertions, key
        self.witness_vars = list(witness_vars)
        self.replay = replay
        self.timeout_ms = timeout_ms

    def run(self):
        s = z3.Solver()
        s.set("timeout", self.timeout_ms)
        s.add(*self.assertions)
        t = time.perf_counter()
        try:
            r = s.check()
        except z3.Z3Exception as e:
            return {"result": f"error: {e}", "solver_s": time.perf_counter() - t, "witness": None}
        dt = time.perf_counter() - t
        if r == z3.unsat:
            return {"result": "unsat", "solver_s": dt, "witness": None}
        if r == z3.sat:
            m = s.model()
            w = {}
            for v in self.witness_vars:
                mv = m.eval(v, model_completion=True)
                if z3.is_string_value(mv):
                    w[str(v)] = _unescape_z3(mv.as_string())
                elif z3.is_bv_value(mv) or z3.is_int_value(mv):
                    w[str(v)] = mv.as_long()
                elif z3.is_true(mv) or z3.is_false(mv):
                    w[str(v)] = z3.is_true(mv)
                else:
                    w[str(v)] = str(mv)
            return {"result": "sat", "solver_s": dt, "witness": w}
        return {"result": "unknown: " + s.reason_unknown(), "solver_s": dt, "witness": None}


def lang_subset(name, sub, sup, *, key, replay=None, var="s", within=None, extra=()):
    """query: exists s in (L(sub) ∩ L(within)) \\ L(sup) — a single regex-emptiness query"""
    s = z3.String(var)
    r = z3.Intersect(sub, z3.Complement(sup)) if within is None else z3.Intersect(sub, within, z3.Complement(sup))
    return Query(name, [z3.InRe(s, r), *extra], key=key, witness_vars=[s], replay=replay)


def no_chars(excluded, is_bytes=False):
    """regex of all strings not containing any of the excluded code points"""
    rs = _complement(_norm([(ord(c), ord(c)) for c in excluded]), 255 if is_bytes else MAXCHAR)
    return z3.Star(_re_of_ranges(rs))
