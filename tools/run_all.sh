#!/bin/bash
# tools/run_all.sh [tier] [ids...] — run checks sequentially, one summary line each; RUN_TIMEOUT=<s> caps each check
tier="${1:-quick}"; shift
cd /verif
ids="$@"
[ -z "$ids" ] && ids=$(python3 -c "import json;print(' '.join(c['property_id'] for c in json.load(open('MANIFEST.json'))['checks']))")
for pid in $ids; do
  s=$(date +%s)
  if [ -n "${RUN_TIMEOUT:-}" ]; then out=$(timeout -k 10 "$RUN_TIMEOUT" ./check "$pid" --tier "$tier" 2>&1); rc=$?; else out=$(./check "$pid" --tier "$tier" 2>&1); rc=$?; fi
  echo "$pid rc=$rc $(( $(date +%s) - s ))s :: $(echo "$out" | tail -1 | cut -c1-220)"
  echo "$out" | grep -a -E "^(VIOLATION|KNOWN-FINDING|HARNESS-ERROR|NOTE)" | cut -c1-300
done
