#!/bin/bash
# tools/run_all.sh [tier] — run every check in MANIFEST sequentially, summarise
tier="${1:-quick}"
cd /verif
for pid in $(python3 -c "import json;print(' '.join(c['property_id'] for c in json.load(open('MANIFEST.json'))['checks']))"); do
  s=$(date +%s)
  out=$(./check "$pid" --tier "$tier" 2>&1); rc=$?
  echo "$pid rc=$rc $(( $(date +%s) - s ))s :: $(echo "$out" | tail -1 | cut -c1-220)"
  echo "$out" | grep -E "^(VIOLATION|KNOWN-FINDING|HARNESS-ERROR)" | cut -c1-300
done
