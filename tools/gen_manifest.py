#!/usr/bin/env python
"""Regenerate /verif/MANIFEST.json from props/*.py metadata and tools/not_applicable.json."""
import importlib
import json
import os
import sys

ROOT = os.path.dirname(os.path.dirname(os.path.abspath(__file__)))
sys.path.insert(0, ROOT)

ENGINE_TEXT = {
    "symx": "vf.symx (own z3 bit-vector concolic engine; real code executed per feasible path, tree exhaustion)",
    "crosshair": "CrossHair 0.0.110 (symbolic execution of Python with z3)",
    "smt": "vf.smt (SMT obligations generated from the current source: regex->z3, table algebra)",
}


def main():
    props = [json.loads(l) for l in open(os.path.join(ROOT, "properties.jsonl"))]
    na_static = json.load(open(os.path.join(ROOT, "tools", "not_applicable.json")))
    checks, na = [], []
    for p in props:
        pid = p["id"]
        path = os.path.join(ROOT, "props", pid + ".py")
        if pid in na_static:
            na.append({"property_id": pid, "reason": na_static[pid]})
            continue
        if not os.path.exists(path):
            na.append({"property_id": pid, "reason": "no solver-based check has been built for this property yet (see DESIGN.md section 5 for the plan)"})
            continue
        mod = importlib.import_module("props." + pid)
        obs = mod.obligations("quick")
        engines = sorted({o.engine for o in obs if o.engine != "validation"})
        level = getattr(mod, "LEVEL", "model_checking")
        doc = (mod.__doc__ or "").strip()
        text = getattr(mod, "LEVEL_TEXT", None) or (
            "Bounded symbolic checking of the real code: " + doc.split("\n\n")[0].replace("\n", " ")
            + " Obligations: " + "; ".join(f"{o.name} [{o.engine}] — {o.bounds}" for o in obs if o.engine != "validation")
            + ". Within these bounds the solver-driven exploration is exhaustive; outside them nothing is claimed.")
        note = getattr(mod, "LEVEL_NOTE", None) or ("Assumes/trusts: " + "; ".join(getattr(mod, "ASSUMPTIONS", []) + ["z3", "CPython", "the engine code under /verif/vf"])
                                                    + ". Outside the claim: " + "; ".join(getattr(mod, "OUTSIDE", [])) + ".")
        checks.append({
            "property_id": pid,
            "quick_cmd": f"./check {pid} --tier quick",
            "thorough_cmd": f"./check {pid} --tier thorough",
            "evidence_file": f"/verif/evidence/{pid}.json",
            "replay_cmd_template": f"./check {pid} --replay {{path}}",
            "engine": "+".join(engines),
            "level_claimed": {"category": level, "text": text[:3000], "design_ref": f"DESIGN.md section 5, {pid}"},
            "level_note": note[:2000],
            "technique": getattr(mod, "TECHNIQUE", None) or ("solver-based bounded checking of the real code: " + ", ".join(ENGINE_TEXT[e] for e in engines)),
        })
    man = {
        "version": 1,
        "setup_cmd": "./setup.sh",
        "hooks": {
            "guard": "MITMPROXY_VERIF",
            "enable": "no source hooks are needed: every stub/shim is applied from the harness process (DESIGN.md 2.3); the guard name is reserved",
            "baseline_off_cmd": "cd /repo && /venv/bin/python -m pytest -ra -q -p no:cacheprovider --timeout=900 --continue-on-collection-errors",
            "source_commits": json.load(open(os.path.join(ROOT, "tools", "hook_commits.json"))),
            "add_only": True,
        },
        "engines": [
            {"name": "symx", "path": "vf/symx.py", "kind_free_text": ENGINE_TEXT["symx"],
             "serves_properties": [c["property_id"] for c in checks if "symx" in c["engine"]]},
            {"name": "crosshair", "path": "vf/chx_child.py", "kind_free_text": ENGINE_TEXT["crosshair"],
             "serves_properties": [c["property_id"] for c in checks if "crosshair" in c["engine"]]},
            {"name": "smt", "path": "vf/smt.py", "kind_free_text": ENGINE_TEXT["smt"],
             "serves_properties": [c["property_id"] for c in checks if "smt" in c["engine"]]},
        ],
        "checks": checks,
        "not_applicable": na,
        "notes": "All checks: ./check <ID> [--tier quick|thorough]; exit 0 held / 1 VIOLATION / 3 machinery could not decide. "
                 "Known findings: known_findings.json. Seeded breakages used to validate the checks: seeded/.",
    }
    with open(os.path.join(ROOT, "MANIFEST.json"), "w") as f:
        json.dump(man, f, indent=1)
    try:
        import jsonschema

        jsonschema.validate(man, json.load(open("/root/.vp/MANIFEST.schema.json")))
        print("MANIFEST.json valid:", len(checks), "checks,", len(na), "not applicable")
    except ImportError:
        print("MANIFEST.json written (jsonschema not available to validate)")


if __name__ == "__main__":
    main()
