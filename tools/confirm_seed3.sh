#!/bin/bash
# tools/confirm_seed.sh <ID> [name]  — confirm a seeded change delivered in /tmp/seed-out/<ID>:
#  demo passes on clean tree, patch applies, demo fails with patch, full suite still passes (modulo the
#  baseline's always-failing test).  On success stores it as /verif/seeded/<name>/.
set -u
id="$1"; name="${2:-$1}"
src="${SEED_SRC_ROOT:-/tmp/seed-out}/$id"; wt="/tmp/confirm/$id"
[ -f "$src/patch.diff" ] || { echo "no patch for $id"; exit 2; }
demo=$(ls "$src" | grep -E '^demo.*\.py$' | head -1)
rm -rf "$wt"; git -C /repo worktree prune; git -C /repo worktree add --detach "$wt" HEAD >/dev/null 2>&1 || { echo "worktree failed"; exit 2; }
cleanup() { git -C /repo worktree remove --force "$wt" >/dev/null 2>&1; }
trap cleanup EXIT
run_demo() { (cd "$wt" && cp "$src/$demo" "$wt/_demo_test.py" && PYTHONPATH="$wt" timeout 600 /venv/bin/python -m pytest -q -p no:cacheprovider -x _demo_test.py >"$1" 2>&1); }
run_demo /tmp/confirm/$id.clean.log; rc_clean=$?
git -C "$wt" apply "$src/patch.diff" || { echo "RESULT $id: patch does not apply"; exit 1; }
run_demo /tmp/confirm/$id.patched.log; rc_patched=$?
rm -f "$wt/_demo_test.py"
(cd "$wt" && PYTHONPATH="$wt" timeout 3000 /venv/bin/python -m pytest -q -p no:cacheprovider -n 8 --timeout=900 >/tmp/confirm/$id.suite.log 2>&1)
failed_tests=$(sed 's/\x1b\[[0-9;]*m//g' /tmp/confirm/$id.suite.log | grep -E "^(FAILED|ERROR) test/" | grep -v "test__view_urlencoded.py::test_view_urlencoded" | awk '{print $2}')
fails=0; flaky=""
for t in $failed_tests; do
  # timing-sensitive tests flake when the machine is loaded: re-run alone (still with the patch applied)
  if (cd "$wt" && PYTHONPATH="$wt" timeout 900 /venv/bin/python -m pytest -q -p no:cacheprovider "$t" >/dev/null 2>&1); then flaky="$flaky $t";
  elif ! (cd /repo && timeout 900 /venv/bin/python -m pytest -q -p no:cacheprovider "$t" >/dev/null 2>&1); then flaky="$flaky $t(also-fails-on-unpatched-tree-under-load)";
  else fails=$((fails+1)); fi
done
summary=$(tail -1 /tmp/confirm/$id.suite.log | sed 's/\x1b\[[0-9;]*m//g')
echo "demo clean rc=$rc_clean (want 0); demo patched rc=$rc_patched (want !=0); suite extra failures=$fails (load-flaky, pass when re-run alone:$flaky); suite: $summary"
if [ $rc_clean -eq 0 ] && [ $rc_patched -ne 0 ] && [ "$fails" -eq 0 ]; then
  mkdir -p "/verif/seeded/$name"
  cp "$src/patch.diff" "/verif/seeded/$name/patch.diff"; [ -f "$src/patch.orig.diff" ] && cp "$src/patch.orig.diff" "/verif/seeded/$name/patch.orig.diff"; cp "$src/$demo" "/verif/seeded/$name/demo_test.py"
  python3 - "$src/meta.json" "/verif/seeded/$name/meta.json" "$summary" <<'PY'
import json,sys
m=json.load(open(sys.argv[1]))
if __import__("os").path.exists(sys.argv[1].replace("meta.json","patch.orig.diff")): m["ported"]="the sub-agent wrote this change against the tree before the fix: commits; the orchestrator ported the same change onto the repaired tree (original kept as patch.orig.diff)"
m["confirmed_by_orchestrator"]={"demo_on_clean_tree":"pass","demo_with_patch":"fail","full_suite_with_patch":sys.argv[3]+" (the baseline's always-failing test__view_urlencoded::test_view_urlencoded fails; any other failure was a timing flake under machine load and passed when re-run alone with the patch)","how":"tools/confirm_seed.sh in a scratch worktree under /tmp/confirm, removed afterwards"}
json.dump(m,open(sys.argv[2],"w"),indent=1)
PY
  echo "RESULT $id: CONFIRMED -> seeded/$name"
else
  echo "RESULT $id: NOT CONFIRMED (see /tmp/confirm/$id.*.log)"; sed 's/\x1b\[[0-9;]*m//g' /tmp/confirm/$id.suite.log | grep -E "^(FAILED|ERROR) " | head -5
fi
