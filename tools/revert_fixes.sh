#!/bin/bash
# revert each applied fix in an overlay copy of /repo and run the property's quick check: the violation must come back
cd /verif
out=${REVFIX_OUT:-/tmp/revfix/results.txt}; : > $out
for f in fixes/*.diff; do
  b=$(basename $f .diff)
  case "$b" in *.needs-test-update|*.rejected|*.optional) continue;; esac
  pid=${b%%-*}
  ov=/tmp/revfix/ov-$b; rm -rf $ov; mkdir -p $ov; cp -r /repo/mitmproxy $ov/
  if ! (cd $ov && patch -R -s -p1 --dry-run < /verif/$f >/dev/null 2>&1); then echo "$b SKIP (not applied as it stands (recorded as a known finding instead) or its lines were changed again by a later fix)" >> $out; rm -rf $ov; continue; fi
  (cd $ov && patch -R -s -p1 < /verif/$f)
  o=$(VERIF_EVIDENCE_DIR=/tmp/revfix/evidence VERIF_PYTHONPATH_PREPEND=$ov VERIF_REPO=$ov ./check $pid 2>&1); rc=$?
  if [ $rc -eq 1 ] && echo "$o" | grep -q "^VIOLATION property=$pid"; then v=REPORTED; else v="NOT-REPORTED(rc=$rc)"; fi
  keys=$(echo "$o" | grep -E "^  \[[^]]+\] " | sed -E 's/^  \[[^]]+\] ([^ ]+): .*/\1/' | sort -u | head -3 | tr '\n' ' ')
  echo "$b $v $keys" >> $out
  rm -rf $ov
done
echo DONE >> $out
