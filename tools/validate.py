#!/usr/bin/env python3
"""validate MANIFEST.json and evidence/*.json against the schemas (run with python3-vt, which has jsonschema)"""
import glob, json, sys
import jsonschema
ok = True
man = json.load(open("/verif/MANIFEST.json"))
jsonschema.validate(man, json.load(open("/root/.vp/MANIFEST.schema.json")))
print("MANIFEST ok:", len(man["checks"]), "checks", len(man.get("not_applicable", [])), "n/a")
es = json.load(open("/root/.vp/EVIDENCE.schema.json"))
for f in sorted(glob.glob("/verif/evidence/*.json")):
    try:
        jsonschema.validate(json.load(open(f)), es)
    except Exception as e:
        ok = False
        print("INVALID", f, str(e)[:300])
print("evidence ok" if ok else "evidence problems")
sys.exit(0 if ok else 1)
