#!/bin/bash
# tools/seeded.sh <seeded-dir-name> [tier]  — apply seeded/<name>/patch.diff to /repo, run the check(s) of the
# property it breaks, undo the patch.  Prints DETECTED / MISSED.
set -u
name="$1"; tier="${2:-quick}"
d="/verif/seeded/$name"
pid=$(python3 -c "import json;print(json.load(open('$d/meta.json'))['property'])")
cd /repo
if ! git diff --quiet; then echo "/repo has uncommitted changes; refusing" >&2; exit 2; fi
git apply "$d/patch.diff" || { echo "patch does not apply" >&2; exit 2; }
trap 'git -C /repo checkout -- . ' EXIT
cd /verif
out=$(./check "$pid" --tier "$tier" 2>&1); rc=$?
echo "$out" | tail -8
if [ $rc -eq 1 ] && echo "$out" | grep -q "^VIOLATION property=$pid"; then echo "RESULT $name: DETECTED (exit 1)"; 
elif [ $rc -eq 3 ]; then echo "RESULT $name: HARNESS-ERROR (exit 3)";
else echo "RESULT $name: MISSED (exit $rc)"; fi
