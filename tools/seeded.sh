#!/bin/bash
# tools/seeded.sh <seeded-dir-name> [tier] [--inplace]
# Run the check of the property a seeded change breaks against the changed code and report DETECTED / MISSED.
#   default:   overlay mode — a scratch copy of /repo/mitmproxy with the patch applied shadows /repo for this run only
#              (safe while other work uses /repo);
#   --inplace: the prescribed way — git -C /repo apply, run, git -C /repo checkout -- .  (use when nothing else runs)
set -u
name="$1"; tier="${2:-quick}"; mode="${3:-overlay}"
d="/verif/seeded/$name"
pid=$(python3 -c "import json;print(json.load(open('$d/meta.json'))['property'])")
cd /verif
if [ "$mode" = "--inplace" ]; then
  if ! git -C /repo diff --quiet; then echo "/repo has uncommitted changes; refusing" >&2; exit 2; fi
  git -C /repo apply "$d/patch.diff" || { echo "patch does not apply" >&2; exit 2; }
  trap 'git -C /repo checkout -- . ' EXIT
  out=$(VERIF_EVIDENCE_DIR=/tmp/verif-seeded-evidence ./check "$pid" --tier "$tier" 2>&1); rc=$?
else
  ov="/tmp/seedrun-$name-$$"
  rm -rf "$ov"; mkdir -p "$ov"; cp -r /repo/mitmproxy "$ov/"; cp -r /repo/test "$ov/" 2>/dev/null
  (cd "$ov" && patch -s -p1 < "$d/patch.diff") || { echo "patch does not apply" >&2; rm -rf "$ov"; exit 2; }
  trap 'rm -rf "$ov"' EXIT
  out=$(VERIF_EVIDENCE_DIR=/tmp/verif-seeded-evidence VERIF_PYTHONPATH_PREPEND="$ov" VERIF_REPO="$ov" ./check "$pid" --tier "$tier" 2>&1); rc=$?
fi
echo "$out" | tail -8
keys=$(echo "$out" | grep -E "^  \[[^]]+\] " | sed -E 's/^  \[[^]]+\] ([^ ]+): .*/\1/' | sort -u | head -6 | tr '\n' ' ')
verdict="MISSED"
if [ $rc -eq 1 ] && echo "$out" | grep -q "^VIOLATION property=$pid"; then verdict="DETECTED"; elif [ $rc -eq 3 ]; then verdict="HARNESS-ERROR"; fi
python3 - "$d/result.json" "$tier" "$verdict" "$keys" <<'PY'
import json,sys,os
p,tier,verdict,keys=sys.argv[1:5]
r=json.load(open(p)) if os.path.exists(p) else {}
r[tier]=verdict
if keys.split(): r["keys"]=sorted(set(r.get("keys",[]))|set(keys.split()))
json.dump(r,open(p,"w"),indent=1)
PY
if [ $rc -eq 1 ] && echo "$out" | grep -q "^VIOLATION property=$pid"; then echo "RESULT $name: DETECTED (exit 1)";
elif [ $rc -eq 3 ]; then echo "RESULT $name: HARNESS-ERROR (exit 3)";
else echo "RESULT $name: MISSED (exit $rc)"; fi
