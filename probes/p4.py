def t3(s: str) -> bool:
    """
    pre: len(s) == 1
    post: _
    """
    q = '"' + s + '"'
    return q[1:-1] == s
def t5(s: str) -> bool:
    """
    pre: len(s) == 1
    post: _
    """
    q = '"' + s + '"'
    return q[1:len(q)-1] == s
def t6(s: str) -> int:
    """
    pre: len(s) == 1
    post: _ == 1
    """
    q = '"' + s + '"'
    return len(q[1:-1])
def t7(s: str) -> bool:
    """
    pre: len(s) == 1
    post: _
    """
    q = 'a' + s 
    return q[1:] == s
def t8(s: str) -> bool:
    """
    pre: len(s) == 1
    post: _
    """
    q = s + 'a'
    return q[:-1] == s
def t9(s: str) -> bool:
    """
    pre: len(s) == 1
    post: _
    """
    q = s + 'a'
    return q[:1] == s
