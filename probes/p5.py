from mitmproxy import command_lexer, types
from mitmproxy.addons import stickycookie

_st = types._StrType()

def arg_roundtrip(s: str) -> bool:
    """
    pre: len(s) <= 3
    post: _
    """
    return _st.parse(None, str, command_lexer.unquote(command_lexer.quote(s))) == s

def dm(host: str, dom: str) -> bool:
    """
    pre: 1 <= len(dom) <= 3 and len(host) <= 6
    pre: host.isascii() and dom.isascii()
    post: _
    """
    if stickycookie.domain_match(host, dom):
        d = dom.lower().lstrip(".")
        h = host.lower()
        return h == d or h.endswith("." + d)
    return True
