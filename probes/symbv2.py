"""Engine-B prototype v2: BV concolic engine with value (concretisation) nodes and a closed operator set."""
import z3

class Unsupported(Exception): pass

class _State:
    def __init__(self, trace):
        self.trace = trace; self.pos = 0; self.solver = z3.Solver(); self.queries = 0
ST = None

def _feasible(e):
    ST.queries += 1
    ST.solver.push(); ST.solver.add(e); r = ST.solver.check(); ST.solver.pop()
    if r == z3.unknown: raise Unsupported("solver unknown")
    return r == z3.sat

class SymBool:
    def __init__(self, e): self.e = e
    def __bool__(self):
        st = ST
        if st.pos < len(st.trace):
            node = st.trace[st.pos]
        else:
            t = _feasible(self.e); f = _feasible(z3.Not(self.e))
            node = {"kind": "b", "val": True if t else False, "pending": t and f}
            st.trace.append(node)
        st.pos += 1
        st.solver.add(self.e if node["val"] else z3.Not(self.e))
        return node["val"]

def concretize(x):
    if not isinstance(x, SymInt): return x
    st = ST
    if st.pos < len(st.trace):
        node = st.trace[st.pos]
    else:
        node = {"kind": "v", "tried": [], "val": None, "pending": True}
        st.trace.append(node)
    if node["val"] is None:   # need a fresh value different from tried
        st.queries += 1
        st.solver.push()
        for v in node["tried"]: st.solver.add(x.e != v)
        assert st.solver.check() == z3.sat
        v = st.solver.model().eval(x.e, model_completion=True).as_long()
        st.solver.add(x.e != v)
        node["pending"] = st.solver.check() == z3.sat
        st.solver.pop()
        node["val"] = v
    st.pos += 1
    st.solver.add(x.e == node["val"])
    return node["val"]

def _bv(x, w):
    if isinstance(x, SymInt):
        if x.w == w: return x.e
        return z3.ZeroExt(w - x.w, x.e) if x.w < w else z3.Extract(w - 1, 0, x.e)
    return z3.BitVecVal(int(x), w)

class SymInt:
    """unsigned; results are widened to 64 bits for + - * so that no wrap occurs on small operands"""
    def __init__(self, e, w):
        self.e = e; self.w = w
    def _w(self, o): return max(self.w, o.w if isinstance(o, SymInt) else 0)
    def _ar(self, o, f):
        w = max(self._w(o), 64); return SymInt(f(_bv(self, w), _bv(o, w)), w)
    def _bit(self, o, f):
        w = self._w(o); return SymInt(f(_bv(self, w), _bv(o, w)), w)
    def _cmp(self, o, f):
        w = self._w(o); return SymBool(f(_bv(self, w), _bv(o, w)))
    __add__ = lambda s, o: s._ar(o, lambda a, b: a + b); __radd__ = __add__
    __sub__ = lambda s, o: s._ar(o, lambda a, b: a - b)
    __rsub__ = lambda s, o: s._ar(o, lambda a, b: b - a)
    __mul__ = lambda s, o: s._ar(o, lambda a, b: a * b); __rmul__ = __mul__
    __and__ = lambda s, o: s._bit(o, lambda a, b: a & b); __rand__ = __and__
    __or__ = lambda s, o: s._bit(o, lambda a, b: a | b); __ror__ = __or__
    __xor__ = lambda s, o: s._bit(o, lambda a, b: a ^ b); __rxor__ = __xor__
    __rshift__ = lambda s, o: s._bit(o, z3.LShR)
    __lshift__ = lambda s, o: s._ar(o, lambda a, b: a << b)
    __eq__ = lambda s, o: s._cmp(o, lambda a, b: a == b)
    __ne__ = lambda s, o: s._cmp(o, lambda a, b: a != b)
    __lt__ = lambda s, o: s._cmp(o, z3.ULT); __le__ = lambda s, o: s._cmp(o, z3.ULE)
    __gt__ = lambda s, o: s._cmp(o, z3.UGT); __ge__ = lambda s, o: s._cmp(o, z3.UGE)
    __index__ = lambda s: concretize(s)
    __int__ = lambda s: concretize(s)
    __bool__ = lambda s: bool(s != 0)
    def __hash__(self): return hash(concretize(self))
    def __repr__(self): return f"<sym{self.w}>"
    __str__ = __repr__
    def __format__(self, spec): return "<sym>"
for _n in ("__floordiv__", "__rfloordiv__", "__mod__", "__rmod__", "__truediv__", "__rtruediv__", "__pow__", "__rpow__",
           "__neg__", "__invert__", "__rlshift__", "__rrshift__", "__divmod__", "__rdivmod__", "__float__", "__abs__", "to_bytes", "bit_length"):
    def _mk(n):
        def f(self, *a, **k): raise Unsupported(n)
        return f
    setattr(SymInt, _n, _mk(_n))

def explore(fn):
    global ST
    trace = []; paths = 0; q = 0
    while True:
        ST = _State(trace)
        ok = fn()
        paths += 1; q += ST.queries
        if not ok:
            assert ST.solver.check() == z3.sat
            return paths, q, ST.solver.model()
        trace = ST.trace[:ST.pos]
        while trace and not trace[-1]["pending"]: trace.pop()
        if not trace: return paths, q, None
        n = trace[-1]
        if n["kind"] == "b":
            n["val"] = not n["val"]; n["pending"] = False
        else:
            n["tried"].append(n["val"]); n["val"] = None

import builtins
_real_isinstance = builtins.isinstance
def sym_isinstance(obj, cls):
    if type(obj) is SymInt:
        if cls is int or (_real_isinstance(cls, tuple) and int in cls): return True
        return False
    return _real_isinstance(obj, cls)
def install_isinstance(*modules):
    for m in modules: m.__dict__["isinstance"] = sym_isinstance
