from typing import List
from mitmproxy import options, connection
from mitmproxy.proxy import context, events, commands, layer
from dataclasses import dataclass

_opts = options.Options()

def mkctx():
    return context.Context(
        connection.Client(peername=("client", 1234), sockname=("127.0.0.1", 8080),
                          timestamp_start=1605699329, state=connection.ConnectionState.OPEN),
        _opts,
    )

@dataclass
class Hook(commands.StartHook):
    n: tuple
    def __hash__(self): return id(self)

class Ev(events.Event):
    def __init__(self, n, block): self.n = n; self.block = block

class TL(layer.Layer):
    """On each Ev: log start, optionally block `block` times, log end."""
    def __init__(self, ctx):
        super().__init__(ctx)
        self.log = []
    def _handle_event(self, event):
        if isinstance(event, events.Start):
            return
        self.log.append(("start", event.n))
        for i in range(event.block):
            h = Hook((event.n, i))
            r = yield h
            self.log.append(("resumed", event.n, i, r))
        self.log.append(("end", event.n))

def run(sched: List[int]):
    l = TL(mkctx())
    pending = []   # hooks outstanding (only ever one for a single layer)
    n = 0
    sent = []
    list(l.handle_event(events.Start()))
    for s in sched:
        if s == 0 or s == 1 or s == 2:
            ev = Ev(n, s); n += 1
            sent.append(ev.n)
            for c in l.handle_event(ev):
                if isinstance(c, Hook): pending.append(c)
        elif s == 3 and pending:
            c = pending.pop(0)
            for c2 in l.handle_event(events.HookCompleted(c, ("r",) + c.n)):
                if isinstance(c2, Hook): pending.append(c2)
    # drain
    while pending:
        c = pending.pop(0)
        for c2 in l.handle_event(events.HookCompleted(c, ("r",) + c.n)):
            if isinstance(c2, Hook): pending.append(c2)
    return l.log, sent

def oracle(sent, blocks):
    exp = []
    for n, b in zip(sent, blocks):
        exp.append(("start", n))
        for i in range(b):
            exp.append(("resumed", n, i, ("r", n, i)))
        exp.append(("end", n))
    return exp

def sched_ok(sched: List[int]) -> bool:
    """
    pre: len(sched) <= 5
    pre: all(0 <= s <= 3 for s in sched)
    post: _
    """
    log, sent = run(sched)
    blocks = [s for s in sched if s != 3]
    return log == oracle(sent, blocks)
