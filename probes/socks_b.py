import time, z3
import symbv2 as symbv, symbytes
from symbv2 import SymInt, explore
from symbytes import SymBytes
from mitmproxy.proxy.layers import modes
from socks_h import mkctx
from mitmproxy.proxy import events, commands, layer
modes.struct.unpack = symbytes.unpack      # shim (harness process only)
modes.socket.inet_ntop = symbytes.inet_ntop
N = 9
def run(buf):
    ctx = mkctx()
    l = modes.Socks5Proxy(ctx)
    out = []
    list(l.handle_event(events.Start()))
    for c in l.handle_event(events.DataReceived(ctx.client, buf)):
        if isinstance(c, commands.SendData): out.append(("send", c.data))
        elif isinstance(c, commands.CloseConnection): out.append(("close",))
        elif isinstance(c, layer.NextLayerHook): out.append(("next",)); break
    return out, ctx.server.address
paths = [0]
def prop():
    buf = SymBytes([SymInt(z3.BitVec(f"b{i}", 8), 8) for i in range(N)])
    out, addr = run(buf)
    paths[0] += 1
    # sanity oracle: a connect only happens for version 5 greeting + 05 01 00 request
    if addr is not None:
        return bool(buf.items[0] == 5)
    return True
t = time.time(); r = explore(prop); print(r[:2], "ce" if r[2] is not None else None, time.time() - t)
