import re, time
try:
    import re._parser as sre_parse
    import re._constants as sre_c
except ImportError:
    import sre_parse, sre_constants as sre_c
import z3

def cls(items):
    parts=[]
    neg=False
    for op, av in items:
        if op is sre_c.NEGATE: neg=True
        elif op is sre_c.LITERAL: parts.append(z3.Re(z3.StringVal(chr(av))))
        elif op is sre_c.RANGE: parts.append(z3.Range(chr(av[0]), chr(av[1])))
        else: raise NotImplementedError(op)
    r = parts[0] if len(parts)==1 else z3.Union(*parts)
    if neg: raise NotImplementedError
    return r

def conv(p):
    seq=[]
    for op, av in p:
        if op is sre_c.LITERAL: seq.append(z3.Re(z3.StringVal(chr(av))))
        elif op is sre_c.IN: seq.append(cls(av))
        elif op is sre_c.MAX_REPEAT:
            lo, hi, sub = av
            r = conv(sub)
            if hi is sre_c.MAXREPEAT:
                seq.append(z3.Concat(*( [r]*lo + [z3.Star(r)])) if lo else z3.Star(r))
            else:
                seq.append(z3.Loop(r, lo, hi))
        elif op is sre_c.SUBPATTERN:
            seq.append(conv(av[3]))
        elif op is sre_c.BRANCH:
            seq.append(z3.Union(*[conv(b) for b in av[1]]))
        elif op is sre_c.AT:
            continue  # anchors handled by caller (we require ^...$)
        else:
            raise NotImplementedError(op)
    if not seq: return z3.Re(z3.StringVal(""))
    return seq[0] if len(seq)==1 else z3.Concat(*seq)

from mitmproxy.net.http import validate
pat = validate._valid_content_length_str.pattern
r = conv(sre_parse.parse(pat))
digits = z3.Plus(z3.Range("0","9"))
s = z3.String("s")
t=time.time()
sol = z3.Solver()
sol.add(z3.InRe(s, r), z3.Not(z3.InRe(s, digits)))
print("CL ⊆ 1*DIGIT:", sol.check(), time.time()-t)
# mutant: allow leading +
r2 = conv(sre_parse.parse(r"^(?:0|[+]?[1-9][0-9]*)$"))
sol = z3.Solver(); sol.add(z3.InRe(s, r2), z3.Not(z3.InRe(s, digits)))
t=time.time(); c = sol.check(); print("mutant:", c, sol.model()[s] if str(c)=="sat" else None, time.time()-t)
pat = validate._valid_header_name.pattern.decode()
rn = conv(sre_parse.parse(pat))
tchar = z3.Union(*[z3.Re(z3.StringVal(c)) for c in "!#$%&'*+-.^_`|~"], z3.Range("0","9"), z3.Range("a","z"), z3.Range("A","Z"))
sol = z3.Solver(); sol.add(z3.InRe(s, rn), z3.Not(z3.InRe(s, z3.Plus(tchar))))
t=time.time(); print("name ⊆ token:", sol.check(), time.time()-t)
sol = z3.Solver(); sol.add(z3.Not(z3.InRe(s, rn)), z3.InRe(s, z3.Plus(tchar)))
t=time.time(); print("token ⊆ name:", sol.check(), time.time()-t)
