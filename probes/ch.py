import sys
import backports.zstd  # preload C ext before crosshair's pure-python importer
import mitmproxy.http
from crosshair.main import main
sys.argv[0] = "crosshair"
main()
