import ipaddress, time, z3
from unittest import mock
import symbv
from symbv import SymInt, explore
for _cls in (ipaddress.IPv4Address, ipaddress.IPv6Address):
    for _n in ("is_private","is_global"):
        _p=_cls.__dict__[_n]; setattr(_cls,_n,property(getattr(_p.fget,"__wrapped__",_p.fget)))
from mitmproxy.addons import block
from mitmproxy import connection
from mitmproxy.proxy import mode_specs
class _O: block_global=True; block_private=False
class _C: options=_O()
block.ctx=_C()
REG=mode_specs.ProxyMode.parse("regular")
# IANA IPv4 special-purpose registry: (prefix, len, globally reachable)
V4=[("0.0.0.0",8,False),("0.0.0.0",32,False),("10.0.0.0",8,False),("100.64.0.0",10,False),("127.0.0.0",8,False),
("169.254.0.0",16,False),("172.16.0.0",12,False),("192.0.0.0",24,False),("192.0.0.0",29,False),("192.0.0.8",32,False),
("192.0.0.9",32,True),("192.0.0.10",32,True),("192.0.0.170",32,False),("192.0.0.171",32,False),("192.0.2.0",24,False),
("192.31.196.0",24,True),("192.52.193.0",24,True),("192.88.99.0",24,True),("192.168.0.0",16,False),("192.175.48.0",24,True),
("198.18.0.0",15,False),("198.51.100.0",24,False),("203.0.113.0",24,False),("240.0.0.0",4,False),("255.255.255.255",32,False)]
def ref_global(n):
    best=None
    for p,l,g in V4:
        a=int(ipaddress.IPv4Address(p))
        if bool((n>>(32-l))==(a>>(32-l))) if l<32 else bool(n==a):
            if best is None or l>best[0]: best=(l,g)
    return True if best is None else best[1]
X=z3.BitVec("x",32)
logs=[]
def prop(n):
    addr=ipaddress.IPv4Address(n)
    with mock.patch.object(ipaddress,"ip_address",lambda s:addr), mock.patch.object(block.logging,"warning",lambda *a,**k:None):
        c=connection.Client(peername=("x",1),sockname=("y",2),proxy_mode=REG)
        block.Block().client_connected(c)
    got = c.error is not None
    exp = ref_global(n) and not bool((n>>24)==127)
    return got==exp
t=time.time(); r=explore(prop,lambda:SymInt(X,32)); print(r[:2], time.time()-t)
if r[2] is not None:
    v=r[2][X].as_long(); print("CE", ipaddress.IPv4Address(v), ipaddress.IPv4Address(v).is_global)
