"""Minimal concolic engine over z3 bit-vectors: re-execution with a decision trace."""
import z3, time

class _State:
    def __init__(self): self.trace=[]; self.pos=0; self.solver=z3.Solver(); self.queries=0
ST=None

class SymBool:
    def __init__(self,e): self.e=e
    def __bool__(self):
        st=ST
        if st.pos < len(st.trace):
            v=st.trace[st.pos][0]
        else:
            # try True first if feasible
            st.queries+=1
            st.solver.push(); st.solver.add(self.e); t=st.solver.check()==z3.sat; st.solver.pop()
            st.queries+=1
            st.solver.push(); st.solver.add(z3.Not(self.e)); f=st.solver.check()==z3.sat; st.solver.pop()
            if t and f: st.trace.append([True, True])   # [value, other branch pending]
            elif t: st.trace.append([True, False])
            else: st.trace.append([False, False])
            v=st.trace[st.pos][0]
        st.pos+=1
        st.solver.add(self.e if v else z3.Not(self.e))
        return v
    def __invert__(self): return SymBool(z3.Not(self.e))

def _bv(x,w):
    return x.e if isinstance(x,SymInt) else z3.BitVecVal(int(x),w)

class SymInt(int):
    def __new__(cls,e,w):
        o=int.__new__(cls,0); o.e=e; o.w=w; return o
    def _b(self,o,f,boolres=False):
        r=f(self.e,_bv(o,self.w)); return SymBool(r) if boolres else SymInt(r,self.w)
    def __and__(self,o): return self._b(o,lambda a,b:a&b)
    __rand__=__and__
    def __or__(self,o): return self._b(o,lambda a,b:a|b)
    def __rshift__(self,o): return self._b(o,z3.LShR)
    def __lshift__(self,o): return self._b(o,lambda a,b:a<<b)
    def __eq__(self,o): return self._b(o,lambda a,b:a==b,True)
    def __ne__(self,o): return self._b(o,lambda a,b:a!=b,True)
    def __lt__(self,o): return self._b(o,z3.ULT,True)
    def __le__(self,o): return self._b(o,z3.ULE,True)
    def __gt__(self,o): return self._b(o,z3.UGT,True)
    def __ge__(self,o): return self._b(o,z3.UGE,True)
    def __hash__(self): raise TypeError("symbolic hash")
    def __int__(self): return self
    def __index__(self): raise TypeError("symbolic index")

def explore(fn, mk):
    """fn(sym)->bool property; returns (paths, counterexample or None)"""
    global ST
    trace=[]; paths=0; q=0
    while True:
        ST=_State(); ST.trace=trace
        sym=mk()
        ok=fn(sym)
        paths+=1; q+=ST.queries
        if not ok:
            assert ST.solver.check()==z3.sat
            return paths,q,ST.solver.model()
        # backtrack
        trace=ST.trace[:ST.pos]
        while trace and not trace[-1][1]: trace.pop()
        if not trace: return paths,q,None
        trace[-1]=[not trace[-1][0], False]

if __name__=="__main__":
    import ipaddress
    for _cls in (ipaddress.IPv4Address, ipaddress.IPv6Address):
        for _n in ("is_private","is_global"):
            _p=_cls.__dict__[_n]; setattr(_cls,_n,property(getattr(_p.fget,"__wrapped__",_p.fget)))
    X=z3.BitVec("x",32)
    def prop(n):
        a=ipaddress.IPv4Address(n)
        got=bool(a.is_loopback)
        exp=bool((n>>24)==127)
        return got==exp
    t=time.time(); print("loopback:",explore(prop,lambda:SymInt(X,32)),time.time()-t)
    def prop2(n):
        a=ipaddress.IPv4Address(n)
        g=bool(a.is_global); p=bool(a.is_private)
        return not (g and p)
    t=time.time(); print("global&private disjoint:",explore(prop2,lambda:SymInt(X,32)),time.time()-t)
    Y=z3.BitVec("y",128)
    def prop3(n):
        a=ipaddress.IPv6Address(n)
        m=a.ipv4_mapped
        b = m if m is not None else a
        return not (bool(b.is_loopback) and bool(b.is_global))
    t=time.time(); print("v6:",explore(prop3,lambda:SymInt(Y,128)),time.time()-t)
