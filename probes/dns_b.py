import time, z3, struct, sys
import symbv2 as symbv
from symbv2 import SymInt, explore, Unsupported, concretize
from symbytes import SymBytes
from mitmproxy import dns
from mitmproxy.net.dns import domain_names

class PyStruct:
    """big-endian unsigned model of struct.Struct for formats of B/H/I"""
    def __init__(self, fmt):
        assert fmt[0] == "!"; self.fmt = fmt; self.sizes = [{"B":1,"H":2,"I":4}[c] for c in fmt[1:]]
        self.size = sum(self.sizes); self._real = struct.Struct(fmt)
    def unpack_from(self, buf, offset=0):
        offset = concretize(offset)
        if not isinstance(buf, SymBytes): return self._real.unpack_from(buf, offset)
        if offset < 0 or len(buf) - offset < self.size:
            raise struct.error(f"unpack_from requires a buffer of at least {self.size} bytes")
        out = []
        for sz in self.sizes:
            parts = [b.e if isinstance(b, SymInt) else z3.BitVecVal(b, 8) for b in buf.items[offset:offset+sz]]
            e = parts[0] if sz == 1 else z3.Concat(*parts)
            out.append(SymInt(e, 8*sz)); offset += sz
        return tuple(out)
    def pack(self, *a): return self._real.pack(*[concretize(x) for x in a])

symbv.install_isinstance(dns, domain_names)
domain_names._LABEL_SIZE = PyStruct("!B"); domain_names._POINTER_OFFSET = PyStruct("!H")
dns.DNSMessage.HEADER = PyStruct("!HHHHHH"); dns.Question.HEADER = PyStruct("!HH"); dns.ResourceRecord.HEADER = PyStruct("!HHIH")
_cnt = [0]
def _decode(self, *a):
    # nondeterministic codec stub: opaque label token; failure explored via a fresh symbolic bit
    _cnt[0] += 1
    fail = SymInt(z3.BitVec(f"idnafail{_cnt[0]}", 1), 1)
    if fail == 1: raise UnicodeDecodeError("idna", b"", 0, 1, "stub")
    return f"<label{len(self)}>"
SymBytes.decode = _decode
NB = int(sys.argv[1]) if len(sys.argv) > 1 else 5   # symbolic body bytes after the 12-byte header
def prop():
    _cnt[0] = 0
    hdr = [SymInt(z3.BitVec(f"h{i}", 8), 8) for i in range(4)]  # id + flags symbolic
    # counts: small symbolic (hi byte 0)
    cnt = []
    for i in range(4):
        cnt += [0, SymInt(z3.BitVec(f"c{i}", 8), 8)]
    for c in cnt[1::2]:
        if not (c <= 2): return True   # bound: section counts <= 2
    body = [SymInt(z3.BitVec(f"b{i}", 8), 8) for i in range(NB)]
    buf = SymBytes(hdr + cnt + body)
    try:
        dns.DNSMessage.unpack(buf)
    except struct.error as e:
        prop.errs.add(str(e)[:60])
        return True
    except Unsupported:
        raise
    except Exception as e:
        prop.last = repr(e)
        return False
    return True
prop.errs=set()
t = time.time()
try:
    r = explore(prop)
    print("NB", NB, "paths", r[0], "queries", r[1], "CE" if r[2] is not None else "exhausted", round(time.time()-t, 2))
    print(sorted(prop.errs)[:12])
    if r[2] is not None:
        m = r[2]
        names = [f"h{i}" for i in range(4)]
        def val(n, w=8): return m.eval(z3.BitVec(n, w), model_completion=True).as_long()
        raw = bytes([val(f"h{i}") for i in range(4)] + sum([[0, val(f"c{i}")] for i in range(4)], []) + [val(f"b{i}") for i in range(NB)])
        print("exception:", prop.last, "input:", raw.hex())
        try:
            import importlib; 
            print("replay needs fresh process")
        except Exception: pass
except Unsupported as e:
    print("Unsupported:", e)
