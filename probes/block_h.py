import ipaddress
from unittest import mock
from mitmproxy.addons import block
from mitmproxy import connection
from mitmproxy.proxy import mode_specs
from mitmproxy.test import taddons

class _Opts:
    block_global = True
    block_private = False

class _Ctx:
    options = _Opts()

block.ctx = _Ctx()  # stub: options holder

for _cls in (ipaddress.IPv4Address, ipaddress.IPv6Address):
    for _n in ("is_private", "is_global"):
        _p = _cls.__dict__[_n]
        _f = getattr(_p.fget, "__wrapped__", _p.fget)
        setattr(_cls, _n, property(_f))

_REGULAR = mode_specs.ProxyMode.parse("regular")

# reference: IANA special registry, "globally reachable" for IPv4 (subset): 
def ref_v4_global(n: int) -> bool:
    def inn(a, bits):  # n in a/bits
        return (n >> (32 - bits)) == (a >> (32 - bits))
    A = lambda s: int(ipaddress.IPv4Address(s))
    if inn(A("0.0.0.0"), 8): return False
    if inn(A("10.0.0.0"), 8): return False
    if inn(A("100.64.0.0"), 10): return False
    if inn(A("127.0.0.0"), 8): return False
    if inn(A("169.254.0.0"), 16): return False
    if inn(A("172.16.0.0"), 12): return False
    if inn(A("192.0.0.0"), 24):
        return n in (A("192.0.0.9"), A("192.0.0.10"))
    if inn(A("192.0.2.0"), 24): return False
    if inn(A("192.88.99.0"), 24): return True  # deprecated 6to4 relay anycast: python treats as global
    if inn(A("192.168.0.0"), 16): return False
    if inn(A("198.18.0.0"), 15): return False
    if inn(A("198.51.100.0"), 24): return False
    if inn(A("203.0.113.0"), 24): return False
    if inn(A("224.0.0.0"), 4): return True   # multicast: python is_global True for global-scope multicast? unsure
    if inn(A("240.0.0.0"), 4): return False
    return True

def blocked_v4(n: int) -> bool:
    """
    pre: 0 <= n < 2**32
    post: _ == (ref_v4_global(n))
    """
    addr = ipaddress.IPv4Address(n)
    with mock.patch.object(ipaddress, "ip_address", lambda s: addr):
        c = connection.Client(peername=("x", 1), sockname=("y", 2), proxy_mode=_REGULAR)
        block.Block().client_connected(c)
        return c.error is not None
