import time, z3
import symbv2 as symbv, symbytes
from symbv2 import SymInt, explore
from symbytes import SymBytes
from mitmproxy.proxy.layers import modes
from socks_h import mkctx
from mitmproxy.proxy import events, commands, layer
modes.struct.unpack = symbytes.unpack
modes.socket.inet_ntop = symbytes.inet_ntop
import sys
N = int(sys.argv[1]) if len(sys.argv) > 1 else 10
def run(segs):
    ctx = mkctx()
    l = modes.Socks5Proxy(ctx)
    out = []
    list(l.handle_event(events.Start()))
    stop = False
    for s in segs:
        if stop or not len(s): continue
        for c in l.handle_event(events.DataReceived(ctx.client, s)):
            if isinstance(c, commands.SendData): out.append(("send", c.data))
            elif isinstance(c, commands.CloseConnection): out.append(("close",))
            elif isinstance(c, layer.NextLayerHook):
                out.append(("next", tuple(c.data.data_client()) if False else None)); stop = True; break
    rest = None
    return out, ctx.server.address
def mk():
    return [SymInt(z3.BitVec(f"b{i}", 8), 8) for i in range(N)]
def eq(a, b):
    if isinstance(a, (tuple, list)) and isinstance(b, (tuple, list)):
        return len(a) == len(b) and all(eq(x, y) for x, y in zip(a, b))
    if isinstance(a, (bytes, SymBytes)) or isinstance(b, (bytes, SymBytes)):
        return bool(SymBytes(list(a)) == b) if not isinstance(a, SymBytes) else bool(a == b)
    return bool(a == b)
tot = 0; t = time.time()
for k in range(1, N):
    def prop():
        items = mk()
        whole = run([SymBytes(items)])
        split = run([SymBytes(items[:k]), SymBytes(items[k:])])
        return eq(whole, split)
    r = explore(prop); tot += r[0]
    if r[2] is not None:
        m = r[2]; print("CE at split", k, bytes(m.eval(z3.BitVec(f"b{i}", 8), model_completion=True).as_long() for i in range(N)).hex()); break
print("N", N, "paths", tot, "time", round(time.time() - t, 2))
