import ipaddress
for _cls in (ipaddress.IPv4Address, ipaddress.IPv6Address):
    for _n in ("is_private", "is_global"):
        _p = _cls.__dict__[_n]
        _f = getattr(_p.fget, "__wrapped__", _p.fget)
        setattr(_cls, _n, property(_f))

def loop(n: int) -> bool:
    """
    pre: 0 <= n < 2**32
    post: _ == (n >> 24 == 127)
    """
    return ipaddress.IPv4Address(n).is_loopback

def priv10(n: int) -> bool:
    """
    pre: 0 <= n < 2**32
    pre: n >> 24 == 10
    post: _ == True
    """
    return ipaddress.IPv4Address(n).is_private
