import sys
import backports.zstd
import mitmproxy.http
from crosshair.main import main
import crosshair.core_and_libs  # registers patches
from crosshair import core
core._PATCH_REGISTRATIONS.pop(bytearray, None)   # keep concrete bytearrays concrete
import time
for _f in (time.time, time.monotonic, time.time_ns, time.monotonic_ns):
    core._PATCH_REGISTRATIONS.pop(_f, None)
sys.argv[0] = "crosshair"
main()
