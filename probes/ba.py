def f(x: int) -> int:
    """
    pre: 0 <= x <= 3
    post: _ >= 0
    """
    d = bytearray()
    d += b"hello"
    t = type(d).__name__
    if t != "bytearray":
        raise RuntimeError("type is " + t)
    del d[:2]
    return len(d) + x
def g(x: int) -> int:
    """
    post: _ >= 0
    """
    from h11._receivebuffer import ReceiveBuffer
    r = ReceiveBuffer()
    r += b"GET / HTTP/1.1\r\n\r\n"
    lines = r.maybe_extract_lines()
    return len(lines)
