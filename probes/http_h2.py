from typing import List
from mitmproxy import options, connection
from mitmproxy.addons.proxyserver import Proxyserver
from mitmproxy.proxy import context, events, commands, layer
from mitmproxy.proxy.layers import http
from mitmproxy.proxy.layers.http import HTTPMode
from mitmproxy import flow as mflow

from h11._receivebuffer import ReceiveBuffer as _RB
def _iadd(self, b):
    self._data.extend(b)
    return self
_RB.__iadd__ = _iadd
_opts = options.Options()
Proxyserver().load(_opts)

def mkctx():
    c = context.Context(
        connection.Client(peername=("client", 1234), sockname=("127.0.0.1", 8080),
                          timestamp_start=1605699329, state=connection.ConnectionState.OPEN),
        _opts)
    return c

REQ = b"POST http://example.com/ HTTP/1.1\r\nHost: example.com\r\nContent-Length: 3\r\n\r\nabc"
RESP = b"HTTP/1.1 200 OK\r\nContent-Length: 2\r\n\r\nhi"

def run(cut: int, fault: int, pol: List[int]):
    ctx = mkctx()
    l = http.HttpLayer(ctx, HTTPMode.regular)
    hooks = []; sent = {"c": b"", "s": b""}
    pending = []
    server = [None]
    npol = [0]
    def feed(ev):
        for c in l.handle_event(ev):
            pending.append(c)
        while pending:
            c = pending.pop(0)
            if isinstance(c, commands.StartHook):
                hooks.append(c.name)
                (d,) = c.args()
                p = pol[npol[0]] if npol[0] < len(pol) else 0
                npol[0] += 1
                if p == 1 and isinstance(d, mflow.Flow) and d.killable:
                    d.kill()
                for c2 in l.handle_event(events.HookCompleted(c)):
                    pending.append(c2)
            elif isinstance(c, commands.OpenConnection):
                server[0] = c.connection
                if fault == 1:
                    r = "refused"
                else:
                    c.connection.state = connection.ConnectionState.OPEN
                    c.connection.timestamp_start = 1
                    r = None
                for c2 in l.handle_event(events.OpenConnectionCompleted(c, r)):
                    pending.append(c2)
            elif isinstance(c, commands.SendData):
                sent["c" if c.connection is ctx.client else "s"] += c.data
            elif isinstance(c, commands.CloseConnection):
                c.connection.state = connection.ConnectionState.CLOSED
    feed(events.Start())
    feed(events.DataReceived(ctx.client, REQ[:cut]))
    if fault == 2:
        ctx.client.state = connection.ConnectionState.CLOSED
        feed(events.ConnectionClosed(ctx.client))
    else:
        feed(events.DataReceived(ctx.client, REQ[cut:]))
        if server[0] is not None and server[0].connected:
            if fault == 3:
                server[0].state = connection.ConnectionState.CLOSED
                feed(events.ConnectionClosed(server[0]))
            else:
                feed(events.DataReceived(server[0], RESP))
    return hooks

def lifecycle(cut: int, fault: int, pol: List[int]) -> bool:
    """
    pre: 0 <= cut <= 10 and 0 <= fault <= 3
    pre: len(pol) <= 4 and all(0 <= p <= 1 for p in pol)
    post: _
    """
    for i in range(11):
        if cut == i:
            cut = i
            break
    for i in range(4):
        if fault == i:
            fault = i
            break
    pol = [1 if p == 1 else 0 for p in pol]
    from crosshair.tracers import NoTracing
    with NoTracing():
        h = run(cut * 8, fault, pol)
    if "requestheaders" in h:
        if h[0] != "requestheaders": return False
        if h.count("request") > 1: return False
        if "response" in h and "error" in h: return False
    return True
