"""SymBytes on top of symbv: sequence of 8-bit symbols with concrete length."""
import z3, struct, socket
import symbv2 as symbv
from symbv2 import SymInt, SymBool, concretize

class SymBytes:
    def __init__(self, items): self.items = list(items)
    def __len__(self): return len(self.items)
    def __getitem__(self, k):
        if isinstance(k, slice):
            k = slice(*(concretize(v) if v is not None else None for v in (k.start, k.stop, k.step)))
            return SymBytes(self.items[k])
        return self.items[concretize(k)]
    def __add__(self, o): return SymBytes(self.items + list(o.items if isinstance(o, SymBytes) else o))
    def __radd__(self, o): return SymBytes(list(o) + self.items)
    def __bool__(self): return bool(self.items)
    def __eq__(self, o):
        o = list(o.items if isinstance(o, SymBytes) else o)
        if len(o) != len(self.items): return False
        for a, b in zip(self.items, o):
            if not (a == b): return False
        return True
    def __ne__(self, o): return not self.__eq__(o)
    def __contains__(self, v):
        for a in self.items:
            if a == v: return True
        return False
    def isupper(self): return False   # only feeds a log message in socks5
    def decode(self, *a): return ("<decoded>", tuple(self.items))
    def __repr__(self): return "<symbytes>"
    def __iter__(self): return iter(self.items)

_real_unpack = struct.unpack
def unpack(fmt, b):
    if isinstance(b, SymBytes):
        assert fmt == "!H"
        hi, lo = b.items
        w = 16
        e = z3.Concat(hi.e if isinstance(hi, SymInt) else z3.BitVecVal(hi, 8), lo.e if isinstance(lo, SymInt) else z3.BitVecVal(lo, 8))
        return (SymInt(e, 16),)
    return _real_unpack(fmt, b)
def inet_ntop(af, b):
    return ("<ip>", af, tuple(b.items) if isinstance(b, SymBytes) else b)
