def unq(x: str) -> str:
    if len(x) > 1 and x[0] in "'\"" and x[0] == x[-1]:
        return x[1:-1]
    else:
        return x

def t1(s: str) -> bool:
    """
    pre: len(s) <= 4
    pre: '"' not in s
    post: _
    """
    q = f'"{s}"'
    return unq(q) == s

def t2(s: str) -> bool:
    """
    pre: len(s) <= 4
    pre: '"' not in s
    post: _
    """
    q = '"' + s + '"'
    return unq(q) == s

def t3(s: str) -> bool:
    """
    pre: len(s) <= 4
    pre: '"' not in s
    post: _
    """
    q = '"' + s + '"'
    return q[1:-1] == s
def t4(s: str) -> bool:
    """
    pre: len(s) <= 4
    pre: '"' not in s
    post: _
    """
    q = f'"{s}"'
    return q[1:-1] == s
