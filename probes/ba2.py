def g(x: int) -> int:
    """
    post: _ >= 0
    """
    from h11._receivebuffer import ReceiveBuffer
    r = ReceiveBuffer()
    t0 = type(r._data).__name__
    r += b"GET / HTTP/1.1\r\n\r\n"
    t1 = type(r._data).__name__
    if (t0, t1) != ("bytearray", "bytearray"):
        raise RuntimeError(f"{t0} {t1}")
    m = __import__("h11._receivebuffer", fromlist=["x"]).blank_line_regex.search(r._data, 0)
    t2 = type(r._data).__name__
    out = r._data[:5]
    t3 = type(out).__name__
    if (t2, t3) != ("bytearray", "bytearray"):
        raise RuntimeError(f"{t2} {t3}")
    del r._data[:5]
    return 1
