from mitmproxy import options, connection
from mitmproxy.addons.proxyserver import Proxyserver
from mitmproxy.proxy import context, events, commands, layer
from mitmproxy.proxy.layers import modes

_opts = options.Options()
Proxyserver().load(_opts)
_opts.connection_strategy = "lazy"

def mkctx():
    return context.Context(
        connection.Client(peername=("client", 1234), sockname=("127.0.0.1", 8080),
                          timestamp_start=1605699329, state=connection.ConnectionState.OPEN),
        _opts,
    )

def run(segs):
    ctx = mkctx()
    l = modes.Socks5Proxy(ctx)
    out = []
    def feed(ev):
        for c in l.handle_event(ev):
            if isinstance(c, commands.SendData):
                out.append(("send", c.data))
            elif isinstance(c, commands.CloseConnection):
                out.append(("close",))
            elif isinstance(c, layer.NextLayerHook):
                out.append(("next", c.data.data_client()))
                return  # leave paused
            elif isinstance(c, commands.Log):
                pass
            else:
                out.append(("other", type(c).__name__))
    feed(events.Start())
    for s in segs:
        feed(events.DataReceived(ctx.client, s))
    return out, ctx.server.address

def split_indep(data: bytes, k: int) -> bool:
    """
    pre: len(data) <= 11
    pre: 0 <= k <= len(data)
    post: _
    """
    a = run([data])
    b = run([data[:k], data[k:]])
    return a == b
