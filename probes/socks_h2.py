from socks_h import run

def split_indep(a: bytes, b: bytes) -> bool:
    """
    pre: len(a) + len(b) <= 11
    post: _
    """
    x = run([a + b])
    y = run([a, b])
    return x == y
