"""C04 — blocked layers process events exactly once, in order.

The real `Layer.handle_event / __process / __continue` and `NextLayer` machinery is driven by a
schedule whose steps are solver-enumerated selectors (engine symx, native execution per path):
which event arrives, how often its handler blocks, which pending completion is delivered next.
Oracle: a sequential reference log.
"""
from dataclasses import dataclass

from mitmproxy.proxy import commands, events, layer

from vf import sansio
from vf.ob import Symx

LEVEL = "model_checking"
ASSUMPTIONS = ["leaf layers are instrumented test layers deriving from the real Layer base class; only the base-class scheduling code is under test"]
OUTSIDE = ["layers that override handle_event themselves (TunnelLayer queueing is C14)", "schedules longer than the stated bound"]
ENCODED = ["mitmproxy.proxy.layer:Layer.handle_event", "mitmproxy.proxy.layer:NextLayer.handle_event",
           "mitmproxy.proxy.layer:NextLayer._handle_event", "mitmproxy.proxy.layer:NextLayer._ask"]


@dataclass
class Hook(commands.StartHook):
    tag: tuple

    def __hash__(self):
        return id(self)


class Block(commands.Command):
    """a blocking command that is NOT a hook and has no repr of its own (like OpenConnection): formatted by Command.__repr__"""

    blocking = True

    def __init__(self, tag):
        self.tag = tag


@dataclass(repr=False)
class BlockCompleted(events.CommandCompleted):
    command: Block
    reply: tuple


def _completed(c, reply):
    return events.HookCompleted(c, reply) if isinstance(c, Hook) else BlockCompleted(c, reply)


class Ev(events.Event):
    def __init__(self, n, block, target=None, wake=False):
        self.n, self.block, self.target, self.wake = n, block, target, wake

    def __repr__(self):
        return f"Ev({self.n},{self.block},{self.target})"


class Leaf(layer.Layer):
    """On each Ev: log start, block `block` times on distinct hooks, log each resume + reply, log end."""

    cmd_cls = Hook

    def __init__(self, ctx, name="L"):
        super().__init__(ctx)
        self.name = name
        self.log = []

    def _handle_event(self, event):
        if isinstance(event, events.Start):
            self.log.append(("started",))
            return
        if isinstance(event, events.DataReceived):
            self.log.append(("data", bytes(event.data)))
            return
        if isinstance(event, events.Wakeup):
            # completion of a NON-blocking command this layer issued earlier: an ordinary event
            self.log.append(("wakeup", event.command.delay))
            return
        if not isinstance(event, Ev):
            self.log.append(("other", type(event).__name__))
            return
        self.log.append(("start", event.n))
        if event.wake:
            yield commands.RequestWakeup(float(event.n))  # non-blocking; its completion arrives any time later
        for i in range(event.block):
            r = yield self.cmd_cls((self.name, event.n, i))
            self.log.append(("resumed", event.n, i, r))
        self.log.append(("end", event.n))


class Parent(layer.Layer):
    """routes Ev to child by target, completions to the child that issued the command (as HttpLayer does)"""

    def __init__(self, ctx):
        super().__init__(ctx)
        self.kids = {"A": Leaf(ctx, "A"), "B": Leaf(ctx, "B")}
        self.src = {}
        self.log = []

    def _handle_event(self, event):
        if isinstance(event, events.Start):
            for k in self.kids.values():
                yield from k.handle_event(event)
            return
        if isinstance(event, events.CommandCompleted):
            child = self.src.pop(event.command)
        else:
            child = self.kids[event.target]
            self.log.append(("route", event.n))
        for c in child.handle_event(event):
            if isinstance(c, (Hook, Block)):
                self.src[c] = child
            yield c


def _oracle(evs):
    exp = []
    for name, n, b in evs:
        exp.append(("start", n))
        for i in range(b):
            exp.append(("resumed", n, i, ("reply", name, n, i)))
        exp.append(("end", n))
    return exp


def h_single(X, N):
    ctx = sansio.make_context()
    l = Leaf(ctx)
    pending = []
    sent = []
    n = 0

    def pump(ev):
        for c in l.handle_event(ev):
            if isinstance(c, Hook):
                pending.append(c)

    pump(events.Start())
    for step in range(N):
        s = X.choose("step", 5)  # 0,1,2: event blocking 0/1/2 times; 3: complete oldest; 4: stop
        if s == 4:
            break
        if s <= 2:
            sent.append(("L", n, s))
            pump(Ev(n, s))
            n += 1
        elif pending:
            c = pending.pop(0)
            pump(events.HookCompleted(c, ("reply",) + c.tag))
            X.reach("completion")
        # invariant while running: never two handlers active, at most one outstanding hook
        X.check(len(pending) <= 1, "C04/single/two-pending", f"{len(pending)} hooks outstanding at once")
        opened = [e[1] for e in l.log if e[0] == "start"]
        closed = [e[1] for e in l.log if e[0] == "end"]
        X.check(len(opened) - len(closed) <= 1, "C04/single/overlap", f"handler overlap: log={l.log}")
    while pending:
        c = pending.pop(0)
        pump(events.HookCompleted(c, ("reply",) + c.tag))
    got = [e for e in l.log if e[0] != "started"]
    exp = _oracle(sent)
    X.reach("end")
    X.check(got == exp, "C04/single/order", f"log {got} != sequential reference {exp}")


def h_foreign_completion(X, N):
    """a completion that belongs to ANOTHER command (the Wakeup of a non-blocking RequestWakeup issued
    earlier) reaches the layer while it waits for its own hook completion: it must be queued and handled as
    an event in arrival order, and the waiting operation must be resumed with exactly its own completion"""
    ctx = sansio.make_context()
    l = Leaf(ctx)
    hooks, wakeups = [], []
    arrivals = []  # reference: ("ev", n, blocks, wake) / ("wakeup", delay) in arrival order
    n = 0

    def pump(ev):
        for c in l.handle_event(ev):
            if isinstance(c, Hook):
                hooks.append(c)
            elif isinstance(c, commands.RequestWakeup):
                wakeups.append(c)

    pump(events.Start())
    for step in range(N):
        s = X.choose("step", 6)  # 0,1: event (0/1 blocks) that also requests a wakeup; 2: event with 1 block; 3: complete hook; 4: deliver a wakeup; 5: stop
        if s == 5:
            break
        if s <= 2:
            b, wake = (s, True) if s <= 1 else (1, False)
            arrivals.append(("ev", n, b, wake))
            pump(Ev(n, b, wake=wake))
            n += 1
        elif s == 3:
            if hooks:
                c = hooks.pop(0)
                pump(events.HookCompleted(c, ("reply",) + c.tag))
        elif wakeups:
            c = wakeups.pop(0)
            if hooks:
                X.reach("foreign-completion-while-paused")
            arrivals.append(("wakeup", c.delay))
            pump(events.Wakeup(c))
        X.check(len(hooks) <= 1, "C04/foreign/two-pending", f"{len(hooks)} hooks outstanding at once")
    while hooks:
        c = hooks.pop(0)
        pump(events.HookCompleted(c, ("reply",) + c.tag))
    exp = []
    for a in arrivals:
        if a[0] == "wakeup":
            exp.append(("wakeup", a[1]))
        else:
            _, k, b, _w = a
            exp.append(("start", k))
            for i in range(b):
                exp.append(("resumed", k, i, ("reply", "L", k, i)))
            exp.append(("end", k))
    got = [e for e in l.log if e[0] != "started"]
    X.reach("end")
    X.check(got == exp, "C04/foreign/order", f"log {got} != sequential reference {exp}")


def h_siblings(X, N):
    ctx = sansio.make_context()
    p = Parent(ctx)
    # debug logging (option proxy_debug) formats every command that passes a layer: observing must not change behaviour;
    # the blocking command is a hook or a plain command without a repr of its own
    if X.boolean("proxy_debug"):
        p.debug = ""
        for kid in p.kids.values():
            kid.debug = "  "
        X.reach("debug-logging")
    if X.boolean("plain_blocking_command"):
        for kid in p.kids.values():
            kid.cmd_cls = Block
    pending = {"A": [], "B": []}
    sent = {"A": [], "B": []}
    n = 0

    def pump(ev):
        for c in p.handle_event(ev):
            if isinstance(c, (Hook, Block)):
                pending[c.tag[0]].append(c)

    pump(events.Start())
    for step in range(N):
        s = X.choose("step", 7)  # 0,1: Ev->A (0/1 blocks)  2,3: Ev->B  4: complete A  5: complete B  6: stop
        if s == 6:
            break
        if s <= 3:
            t = "A" if s <= 1 else "B"
            b = s % 2 + (0 if s % 2 == 0 else 0)
            b = s % 2
            other = "B" if t == "A" else "A"
            before_other = len(p.kids[other].log)
            blocked_self = bool(pending[t])
            sent[t].append((t, n, b))
            pump(Ev(n, b, t))
            # the parent must have routed it right away (it is never blocked by a child's hook)
            X.check(p.log and p.log[-1] == ("route", n), "C04/sibling/parent-blocked", f"parent did not route event {n}")
            # and an unblocked sibling handles its event immediately
            if not blocked_self:
                X.check(("start", n) in p.kids[t].log, "C04/sibling/not-progressing", f"child {t} idle but event {n} not started")
            else:
                X.reach("queued-behind-block")
            X.check(len(p.kids[other].log) == before_other, "C04/sibling/crosstalk", "event leaked to sibling")
            n += 1
        else:
            t = "A" if s == 4 else "B"
            if pending[t]:
                c = pending[t].pop(0)
                pump(_completed(c, ("reply",) + c.tag))
                X.reach("completion")
    for t in ("A", "B"):
        while pending[t]:
            c = pending[t].pop(0)
            pump(_completed(c, ("reply",) + c.tag))
    for t in ("A", "B"):
        got = [e for e in p.kids[t].log if e[0] != "started"]
        X.check(got == _oracle(sent[t]), f"C04/sibling/order-{t}", f"child {t}: {got} != {_oracle(sent[t])}")
    X.reach("end")


def h_nextlayer(X, N):
    """events that arrive before a protocol has been chosen reach the chosen layer in arrival order;
    the decision arrives with the j-th next_layer hook, whose completion may itself be delayed"""
    ctx = sansio.make_context()
    nl = layer.NextLayer(ctx)
    leaf = Leaf(ctx)
    pending = []
    leafpending = []
    fed = []
    decide_at = X.choose("decide_at", N + 1)
    asks = 0

    def handle(c):
        nonlocal asks
        if isinstance(c, layer.NextLayerHook):
            asks += 1
            if asks > decide_at:
                c.data.layer = leaf
            pending.append(c)
        elif isinstance(c, Hook):
            leafpending.append(c)

    def pump(ev):
        for c in nl.handle_event(ev):
            handle(c)

    pump(events.Start())
    k = 0
    for step in range(N):
        s = X.choose("step", 4)  # 0: client data  1: Ev blocking once (only meaningful after decision)  2: complete oldest  3: stop
        if s == 3:
            break
        if s == 0:
            d = b"d%d" % k
            k += 1
            fed.append(("data", d))
            pump(events.DataReceived(ctx.client, d))
        elif s == 1:
            fed.append(("ev", k))
            pump(Ev(k, 1))
            k += 1
        else:
            if pending:
                c = pending.pop(0)
                pump(events.HookCompleted(c))
                X.reach("nextlayer-completed")
            elif leafpending:
                c = leafpending.pop(0)
                pump(events.HookCompleted(c, ("reply",) + c.tag))
    while pending or leafpending:
        if pending:
            pump(events.HookCompleted(pending.pop(0)))
        else:
            c = leafpending.pop(0)
            pump(events.HookCompleted(c, ("reply",) + c.tag))
    # reference: once decided the leaf sees Start, then every fed event in arrival order, each once
    decided = nl.layer is not None
    if decided:
        X.reach("decided")
        exp = [("started",)]
        for kind, v in fed:
            if kind == "data":
                exp.append(("data", v))
            else:
                exp += [("start", v), ("resumed", v, 0, ("reply", "L", v, 0)), ("end", v)]
        X.check(leaf.log == exp, "C04/nextlayer/order", f"chosen layer saw {leaf.log}, expected {exp}")
    else:
        X.check(leaf.log == [], "C04/nextlayer/early", f"undecided but leaf saw {leaf.log}")
    X.reach("end")


def obligations(tier):
    n1, n2, n3 = (7, 5, 6) if tier == "quick" else (9, 7, 8)
    n4 = 6 if tier == "quick" else 8
    return [
        Symx("foreign-completion", lambda X: h_foreign_completion(X, n4), bounds=f"every schedule of <= {n4} steps over {{event (0/1 blocks) that also issues a non-blocking RequestWakeup, blocking event, deliver hook completion, deliver a pending Wakeup}}",
             encoded=ENCODED, must_reach=["end", "foreign-completion-while-paused"], parallel_depth=3),
        Symx("single-layer-schedule", lambda X: h_single(X, n1), bounds=f"every schedule of <= {n1} steps over {{event blocking 0/1/2 times, deliver oldest completion}}",
             encoded=ENCODED, must_reach=["end", "completion"], parallel_depth=3),
        Symx("sibling-blocking", lambda X: h_siblings(X, n2), bounds=f"every schedule of <= {n2} steps over two child layers under one parent (event to A/B blocking 0/1 times, completion for A/B) x debug logging off/on x blocking command = hook / plain command formatted by Command.__repr__",
             encoded=ENCODED + ["mitmproxy.proxy.commands:Command.__repr__"], must_reach=["end", "completion", "queued-behind-block", "debug-logging"], parallel_depth=3),
        Symx("nextlayer-buffering", lambda X: h_nextlayer(X, n3), bounds=f"every schedule of <= {n3} steps (data, blocking event, completion) x decision at ask 0..{n3}",
             encoded=ENCODED, must_reach=["end", "decided", "nextlayer-completed"], parallel_depth=3),
    ]
