"""C47 — flow edits through mitmweb are atomic.

The real `FlowHandler.put` (the function object defined in mitmproxy/tools/web/app.py, taken from under
the auth wrapper) is executed natively on a handler instance created without tornado
(`object.__new__`; `flow` / `json` / `view` are supplied by a thin subclass).  The edit document is
built from solver-enumerated picks `(section, key, value-kind)` in solver-chosen order, the flow type and
"the flow was already edited once through the same endpoint" are solver-chosen too.

Oracle (from the property sentence): if `put` ends with an error (any exception — tornado turns it into
a 4xx/5xx answer) the flow's state (`get_state()` minus the `backup` slot) equals the state right before
the request; otherwise every field of the document is applied.  What counts as *invalid* is decided by
`put` itself (weaker reading): a value mitmproxy accepts (port -1, host with a space) must then simply be
applied completely.
"""
import copy
import inspect

from vf.ob import Symx

LEVEL = "model_checking"
ASSUMPTIONS = [
    "tornado request parsing / routing / JSON decoding are replaced by a thin subclass that hands the already decoded "
    "document to the real FlowHandler.put (RequestHandler.json's Content-Type/JSON errors happen before any edit)",
    "the auth wrapper around put is bypassed (C46 covers it); put is the innermost wrapped function, checked by qualname",
    "flow state is observed through Flow.get_state() with the 'backup' slot removed",
    "a JSON object has unique keys: a (section, key) is picked at most once; picks of one section are contiguous",
]
OUTSIDE = [
    "values mitmproxy accepts although the property calls them invalid (port -1 / 70000, host containing a space) are only "
    "required to be applied completely, not to be rejected",
    "documents with more picks than the bound; trailers on flows whose trailers are None or non-empty, port 70000 and <=3-pick documents on response-less / TCP flows are exercised in the thorough tier only",
    "view.update() notification after the edit",
]
ENCODED = [
    "mitmproxy.tools.web.app:FlowHandler.put",
    "mitmproxy.flow:Flow.backup",
    "mitmproxy.flow:Flow.revert",
    "mitmproxy.http:HTTPFlow.get_state",
    "mitmproxy.http:HTTPFlow.set_state",
]

HDR_KINDS = [
    ("valid", [["x-a", "1"], ["x-b", "2"]]),
    ("one-element", [["x-a", "1"], ["x-b"]]),
    ("three-elements", [["x-a", "1", "2"]]),
    ("non-list", 5),
]
CONTENT_KINDS = [("valid", "new body"), ("non-str", 5)]


def _flatten(*secs):
    return [(sec, k, kind, v) for sec, d in secs for k, kinds in d.items() for kind, v in kinds]


def _menu(tier):
    """thorough = quick + appended entries, so that a quick counterexample replays under either tier"""
    req = {
        "method": [("valid", "PATCH")],
        "host": [("valid", "example.org"), ("space", "bad host")],
        "port": [("valid", 123), ("x", "x"), ("negative", -1)],
        "headers": HDR_KINDS,
        "content": CONTENT_KINDS,
        "foo": [("unknown-key", 1)],
    }
    resp = {
        "code": [("valid", 404), ("abc", "abc"), ("negative", -1)],
        "reason": [("valid", "Nope")],
        "headers": HDR_KINDS,
        "content": CONTENT_KINDS,
        "foo": [("unknown-key", 1)],
    }
    top = {
        "comment": [("valid", "edited"), ("valid", "")],  # "" = the value the flow had before any edit (sets an earlier edit back)
        "marked": [("valid", ":red_circle:")],
        "foo": [("unknown-key", 42)],
    }
    m = _flatten(("request", req), ("response", resp), ("", top))
    if tier != "quick":
        m += _flatten(
            ("request", {"trailers": HDR_KINDS[:2], "scheme": [("valid", "https")], "path": [("valid", "/other")],
                         "http_version": [("valid", "HTTP/2.0")], "port": [("70000", 70000), ("numeric-str", "8080"), ("none", None)]}),
            ("response", {"trailers": HDR_KINDS[:2], "http_version": [("valid", "HTTP/1.0")], "code": [("none", None), ("numeric-str", "302")]}),
            ("", {"request": [("non-dict", 5)], "response": [("non-dict", "x")]}),
        )
    return m


def _menu_trailers():
    return _flatten(
        ("request", {"trailers": HDR_KINDS[:2], "port": [("valid", 123), ("x", "x")], "foo": [("unknown-key", 1)]}),
        ("response", {"trailers": HDR_KINDS[:2], "code": [("abc", "abc")]}),
        ("", {"comment": [("valid", "edited")], "foo": [("unknown-key", 42)]}),
    )


def _menu_small():
    return _flatten(
        ("request", {"method": [("valid", "PATCH")], "port": [("valid", 123), ("x", "x")], "headers": HDR_KINDS[:2],
                     "content": CONTENT_KINDS[:1], "foo": [("unknown-key", 1)]}),
        ("response", {"code": [("valid", 404), ("abc", "abc")], "reason": [("valid", "Nope")], "headers": HDR_KINDS[2:3],
                      "content": CONTENT_KINDS[1:]}),
        ("", {"comment": [("valid", "edited")], "foo": [("unknown-key", 42)]}),
    )


FLOWS = [("http+response", False), ("http+response", True), ("http-no-response", False), ("tcp", False),
         ("http-no-response", True), ("tcp", True)]  # quick: put-atomic uses the first two, put-atomic-other-flows the rest


def _strip(state):
    state = copy.deepcopy(state)
    state.pop("backup", None)
    return state


def _applied(flow, sec, k, v, later_keys=()):
    """is the (valid or accepted) field visibly applied?  Only the field itself is inspected.
    `later_keys`: keys of the same section edited after this one (content / host edits legitimately touch headers)."""
    if sec == "":
        return getattr(flow, k) == v
    msg = getattr(flow, sec)
    if k in ("method", "host", "scheme", "path", "http_version", "reason"):
        return getattr(msg, k) == v
    if k == "port":
        return msg.port == int(v)
    if k == "code":
        return msg.status_code == int(v)
    if k in ("headers", "trailers"):
        h = getattr(msg, k)
        if h is None or not all(h.get_all(a)[-1:] == [b] for a, b in v):
            return False
        if k == "headers" and not ({"content", "host"} & set(later_keys)):
            # the document gives the complete header list: nothing else may survive
            return [(a.decode(), b.decode()) for a, b in h.fields] == [tuple(x) for x in v]
        return True
    if k == "content":
        return msg.text == v
    return False


def _handler_cls():
    from mitmproxy.tools.web import app

    class _View:
        def __init__(self):
            self.updated = []

        def update(self, flows):
            self.updated.append(list(flows))

    class _H(app.FlowHandler):
        SUPPORTED_METHODS = ()  # nothing to re-wrap; the real put is called directly below
        _f = _doc = _v = None
        flow = property(lambda s: s._f)
        json = property(lambda s: s._doc)
        view = property(lambda s: s._v)

    put = inspect.unwrap(app.FlowHandler.put)
    if put.__qualname__ != "FlowHandler.put" or put.__module__ != app.__name__:
        raise RuntimeError(f"anchor moved: innermost FlowHandler.put is {put.__module__}.{put.__qualname__}")
    return _H, _View, put, app.APIError


def h_put(X, menu, K, flows):
    from mitmproxy.test import tflow

    H, View, put, APIError = _handler_cls()
    kind, edited = X.choose("flow", flows)
    if kind == "http+response":
        f = tflow.tflow(resp=True)
    elif kind == "http-no-response":
        f = tflow.tflow(resp=False)
    else:
        f = tflow.ttcpflow()
    h = object.__new__(H)
    h._f, h._v = f, View()

    original = _strip(f.get_state())
    # an earlier, successful edit through the same endpoint (leaves flow.modified() == True)
    if edited == "emptied-trailers":
        # what the UI sends when the last trailer of a message is deleted: the trailers become an empty Headers object
        h._doc = {"request": {"trailers": []}, "response": {"trailers": []}} if kind == "http+response" else {"request": {"trailers": []}}
        put(h, f.id)
        X.check(f.request.trailers is not None and len(f.request.trailers) == 0, "C47/put/valid-edit-not-applied",
                "preparatory edit {'request': {'trailers': []}} not applied")
    elif edited:
        h._doc = {"comment": "first edit"}
        put(h, f.id)
        X.check(f.comment == "first edit", "C47/put/valid-edit-not-applied", "preparatory edit {'comment': ...} not applied")

    n = 1 + X.choose("npicks-1", K)
    picks = []
    for i in range(n):
        # a JSON object has unique keys and a section is one nested object (its keys are contiguous):
        # the menu offered to the solver is narrowed accordingly, the order of everything else is free
        closed = {q[0] for q in picks if q[0]} - ({picks[-1][0]} if picks else set())
        top_used = {q[0] or q[1] for q in picks}  # top-level JSON keys already present ("request": 5 and "request": {...} exclude each other)
        allowed = [p for p in menu if p[0] not in closed and all((q[0], q[1]) != (p[0], p[1]) for q in picks)
                   and not (p[0] == "" and p[1] in top_used) and not (p[0] and any(q[0] == "" and q[1] == p[0] for q in picks))]
        picks.append(X.choose("pick", allowed))
    doc = {}
    for sec, k, _, v in picks:
        if sec:
            doc.setdefault(sec, {})[k] = v
        else:
            doc[k] = v
    h._doc = doc
    before = _strip(f.get_state())
    err = None
    try:
        put(h, f.id)
    except Exception as e:  # noqa  (tornado answers 4xx/5xx for any exception; the oracle judges the flow state)
        err = e
    after = _strip(f.get_state())
    if err is not None:
        X.reach("rejected")
        if any(vk == "unknown-key" for _, _, vk, _ in picks):
            X.reach("rejected-unknown-key")
        if any(vk not in ("valid", "unknown-key") for _, _, vk, _ in picks):
            X.reach("rejected-malformed-value")
        if edited:
            X.reach("rejected-after-earlier-edit")
        if after != before:
            changed = sorted(k for k in after if after[k] != before.get(k))
            if edited and after == original:
                key, what = "C47/put/error-reverts-earlier-edit", f"rejected edit ({type(err).__name__}) also threw away the earlier, accepted edit"
            else:
                key, what = f"C47/put/not-reverted/{type(err).__name__}", "rejected edit left the flow half-applied"
            X.fail(key, f"{what}: flow={kind} doc={doc!r} -> {type(err).__name__}: {err}; changed state keys {changed}")
    else:
        X.reach("applied")
        for n_, (sec, k, vk, v) in enumerate(picks):
            later = [q[1] for q in picks[n_ + 1:] if q[0] == sec]
            X.check(_applied(f, sec, k, v, later), f"C47/put/accepted-but-not-applied/{sec or 'flow'}.{k}/{vk}",
                    f"put succeeded but {sec or 'flow'}.{k}={v!r} is not applied: flow={kind} doc={doc!r}")


def obligations(tier):
    menu = _menu(tier)
    quick = tier == "quick"
    flows = FLOWS[:2] if quick else FLOWS
    fl = "HTTP flow with response x {fresh, already edited once}" if quick else \
        "{HTTP with response, HTTP without response, TCP} x {fresh flow, flow already edited once}"
    reach = ["applied", "rejected-unknown-key", "rejected-malformed-value", "rejected-after-earlier-edit"]
    obs = [
        Symx("put-atomic", lambda X: h_put(X, menu, 3, flows),
             bounds=f"every edit document of 1..3 (section, key, value-kind) picks in every order from a {len(menu)}-entry menu "
                    f"(valid and invalid ports, codes, header lists, contents, hosts, unknown keys) x {fl}",
             encoded=ENCODED, must_reach=reach, parallel_depth=3),
    ]
    tmenu = _menu_trailers()
    obs.append(Symx("put-atomic-emptied-trailers", lambda X: h_put(X, tmenu, 3, [("http+response", "emptied-trailers"), ("http-no-response", "emptied-trailers")]),
                    bounds=f"every edit document of 1..3 picks in every order from a {len(tmenu)}-entry menu (trailers lists, ports, codes, "
                           "unknown keys) x HTTP flow {with, without} response whose trailers an earlier accepted edit emptied "
                           "(empty Headers object, not None)",
                    encoded=ENCODED, must_reach=reach, parallel_depth=3))
    if quick:
        qmenu = _menu("quick")
        obs.append(Symx("put-atomic-other-flows", lambda X: h_put(X, qmenu, 2, FLOWS[2:]),
                        bounds=f"every edit document of 1..2 picks in every order from the same {len(qmenu)}-entry menu x "
                               "{HTTP flow without response, TCP flow} x {fresh, already edited once}",
                        encoded=ENCODED, must_reach=reach, parallel_depth=2))
    else:
        small = _menu_small()
        obs.append(Symx("put-atomic-4picks", lambda X: h_put(X, small, 4, FLOWS),
                        bounds=f"every edit document of 1..4 picks in every order from a {len(small)}-entry menu x flow "
                               "{HTTP with response, HTTP without response, TCP} x {fresh, already edited once}",
                        encoded=ENCODED, must_reach=reach, parallel_depth=3))
    return obs
