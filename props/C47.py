"""C47 — flow edits through mitmweb are atomic.

The real `FlowHandler.put` (the function object defined in mitmproxy/tools/web/app.py, taken from under
the auth wrapper) is executed natively on a handler instance created without tornado
(`object.__new__`; `flow` / `json` / `view` are supplied by a thin subclass).  The edit document is
built from solver-enumerated picks `(section, key, value-kind)` in solver-chosen order, the flow type and
"the flow was already edited once through the same endpoint" are solver-chosen too.

Oracle (from the property sentence): if `put` ends with an error (any exception — tornado turns it into
a 4xx/5xx answer) the flow's state (`get_state()` minus the `backup` slot) equals the state right before
the request; otherwise every field of the document is applied.  What counts as *invalid* is decided by
`put` itself (weaker reading): a value mitmproxy accepts (port -1, host with a space) must then simply be
applied completely.
"""
import copy
import inspect

from vf.ob import Symx

LEVEL = "model_checking"
ASSUMPTIONS = [
    "tornado request parsing / routing / JSON decoding are replaced by a thin subclass that hands the already decoded "
    "document to the real FlowHandler.put (RequestHandler.json's Content-Type/JSON errors happen before any edit)",
    "the auth wrapper around put is bypassed (C46 covers it); put is the innermost wrapped function, checked by qualname",
    "flow state is observed through Flow.get_state() with the 'backup' slot removed",
    "a JSON object has unique keys: picks with the same (section, key) are pruned; picks of one section are contiguous",
]
OUTSIDE = [
    "values mitmproxy accepts although the property calls them invalid (port -1 / 70000, host containing a space) are only "
    "required to be applied completely, not to be rejected",
    "documents with more picks than the bound; trailers are exercised in the thorough tier only",
    "view.update() notification after the edit",
]
ENCODED = [
    "mitmproxy.tools.web.app:FlowHandler.put",
    "mitmproxy.flow:Flow.backup",
    "mitmproxy.flow:Flow.revert",
    "mitmproxy.http:HTTPFlow.get_state",
    "mitmproxy.http:HTTPFlow.set_state",
]

HDR_KINDS = [
    ("valid", [["x-a", "1"], ["x-b", "2"]]),
    ("one-element", [["x-a", "1"], ["x-b"]]),
    ("three-elements", [["x-a", "1", "2"]]),
    ("non-list", 5),
]
CONTENT_KINDS = [("valid", "new body"), ("non-str", 5)]


def _menu(tier):
    m = []
    req = {
        "method": [("valid", "PATCH")],
        "host": [("valid", "example.org"), ("space", "bad host")],
        "port": [("valid", 123), ("x", "x"), ("negative", -1), ("70000", 70000)],
        "headers": HDR_KINDS,
        "content": CONTENT_KINDS,
        "foo": [("unknown-key", 1)],
    }
    resp = {
        "code": [("valid", 404), ("abc", "abc")],
        "reason": [("valid", "Nope")],
        "headers": HDR_KINDS,
        "content": CONTENT_KINDS,
        "foo": [("unknown-key", 1)],
    }
    top = {
        "comment": [("valid", "edited")],
        "marked": [("valid", ":red_circle:")],
        "foo": [("unknown-key", 42)],
    }
    if tier != "quick":
        req["trailers"] = HDR_KINDS[:2]
        req["scheme"] = [("valid", "https")]
        req["path"] = [("valid", "/other")]
        req["http_version"] = [("valid", "HTTP/2.0")]
        resp["trailers"] = HDR_KINDS[:2]
        resp["http_version"] = [("valid", "HTTP/1.0")]
        resp["code"] = resp["code"] + [("none", None)]
        top["request"] = [("non-dict", 5)]
    for sec, d in (("request", req), ("response", resp), ("", top)):
        for k, kinds in d.items():
            for kind, v in kinds:
                m.append((sec, k, kind, v))
    return m


def _strip(state):
    state = copy.deepcopy(state)
    state.pop("backup", None)
    return state


def _applied(flow, sec, k, v):
    """is the (valid or accepted) field visibly applied?  Only the field itself is inspected."""
    if sec == "":
        return getattr(flow, k) == v
    msg = getattr(flow, sec)
    if k in ("method", "host", "scheme", "path", "http_version", "reason"):
        return getattr(msg, k) == v
    if k == "port":
        return msg.port == v
    if k == "code":
        return msg.status_code == v
    if k in ("headers", "trailers"):
        h = getattr(msg, k)
        return h is not None and all(h.get_all(a)[-1:] == [b] for a, b in v)
    if k == "content":
        return msg.text == v
    return False


def _handler_cls():
    from mitmproxy.tools.web import app

    class _View:
        def __init__(self):
            self.updated = []

        def update(self, flows):
            self.updated.append(list(flows))

    class _H(app.FlowHandler):
        SUPPORTED_METHODS = ()  # nothing to re-wrap; the real put is called directly below
        _f = _doc = _v = None
        flow = property(lambda s: s._f)
        json = property(lambda s: s._doc)
        view = property(lambda s: s._v)

    put = inspect.unwrap(app.FlowHandler.put)
    if put.__qualname__ != "FlowHandler.put" or put.__module__ != app.__name__:
        raise RuntimeError(f"anchor moved: innermost FlowHandler.put is {put.__module__}.{put.__qualname__}")
    return _H, _View, put, app.APIError


def h_put(X, menu, K):
    from mitmproxy.test import tflow

    H, View, put, APIError = _handler_cls()
    kind = X.choose("flow", ["http+response", "http-no-response", "tcp"])
    if kind == "http+response":
        f = tflow.tflow(resp=True)
    elif kind == "http-no-response":
        f = tflow.tflow(resp=False)
    else:
        f = tflow.ttcpflow()
    h = object.__new__(H)
    h._f, h._v = f, View()

    # an earlier, successful edit through the same endpoint (leaves flow.modified() == True)
    if X.boolean("edited-before"):
        h._doc = {"comment": "first edit"}
        put(h, f.id)
        X.check(f.comment == "first edit", "C47/put/valid-edit-not-applied", "preparatory edit {'comment': ...} not applied")

    n = 1 + X.choose("npicks-1", K)
    picks = []
    for i in range(n):
        p = X.choose("pick", menu)
        X.assume(all((q[0], q[1]) != (p[0], p[1]) for q in picks))
        if picks and p[0] and p[0] != picks[-1][0]:
            X.assume(all(q[0] != p[0] for q in picks))  # a section is one JSON object: contiguous
        picks.append(p)
    doc = {}
    for sec, k, _, v in picks:
        if sec:
            doc.setdefault(sec, {})[k] = v
        else:
            doc[k] = v
    h._doc = doc
    before = _strip(f.get_state())
    err = None
    try:
        put(h, f.id)
    except Exception as e:  # noqa  (tornado answers 4xx/5xx for any exception; the oracle judges the flow state)
        err = e
    after = _strip(f.get_state())
    if err is not None:
        X.reach("rejected")
        if isinstance(err, APIError):
            X.reach("rejected-APIError")
        else:
            X.reach("rejected-other")
        if after != before:
            changed = sorted(k for k in after if after[k] != before.get(k))
            if isinstance(err, APIError):
                key, what = "C47/put/error-reverts-earlier-edit", "rejected edit (APIError) also threw away the earlier, accepted edit"
            else:
                key, what = f"C47/put/not-reverted/{type(err).__name__}", "rejected edit left the flow half-applied"
            X.fail(key, f"{what}: flow={kind} doc={doc!r} -> {type(err).__name__}: {err}; changed state keys {changed}")
    else:
        X.reach("applied")
        for sec, k, vk, v in picks:
            X.check(_applied(f, sec, k, v), f"C47/put/accepted-but-not-applied/{sec or 'flow'}.{k}/{vk}",
                    f"put succeeded but {sec or 'flow'}.{k}={v!r} is not applied: flow={kind} doc={doc!r}")


def obligations(tier):
    k = 3 if tier == "quick" else 4
    menu = _menu(tier)
    return [
        Symx("put-atomic", lambda X: h_put(X, menu, k),
             bounds=f"every edit document of 1..{k} (section, key, value-kind) picks in every order from a {len(menu)}-entry menu "
                    f"(valid and invalid ports, codes, header lists, contents, hosts, unknown keys) x flow type "
                    f"{{HTTP with response, HTTP without response, TCP}} x {{fresh flow, flow already edited once}}",
             encoded=ENCODED, must_reach=["applied", "rejected-APIError", "rejected-other"], parallel_depth=4),
    ]
