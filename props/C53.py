"""C53 — client replay runs queued flows sequentially and cleans up (client_replay_concurrency = 1).

The real `ClientPlayback.check / start_replay / stop_replay / count` and the real `playback()` coroutine
are executed natively.  `playback()` is driven by hand (`coro.send(None)` whenever the future it awaits is
done — what the event loop would do), with the real `asyncio.Queue`.  `ReplayHandler.__init__` is real,
`ReplayHandler.replay` (proxy core + sockets) is replaced by an awaitable that records "replay started" and
is completed by the harness.  The history is a solver-enumerated sequence over {submit a flow of some kind
(playback task woken right away or only after the next step), finish the running replay (response / error
/ handler crash), stop}.

Oracle (from the property sentence), checked after every step: unreplayable kinds are never queued and
stay untouched; a replay starts only when the previous one has finished, in submission order, and an idle
playback task with a non-empty queue starts the next one; finished replays carry a response or an error;
count() == queued + running; after stop every still-queued flow's state equals its state right before it
was submitted; once nothing is queued or running `queue.join()` returns (bookkeeping cleaned up).
"""
import copy
import logging

from vf.ob import Symx

LEVEL = "model_checking"
ASSUMPTIONS = [
    "ReplayHandler.replay (HttpLayer + server.ConnectionHandler I/O) is replaced by a harness-completed awaitable: 'request is sent' = "
    "'replay awaitable started'; the completion itself sets flow.response (ok) / flow.error (error) as ReplayHandler.handle_hook "
    "guarantees before done.set(), so 'ends with a response or an error' is only checked against ClientPlayback's own bookkeeping",
    "the playback() coroutine is stepped by the harness exactly when its awaited future is done (single task, no other callbacks); "
    "asyncio's running-loop pointer is set to a real, non-running loop for future creation",
    "one taddons.context (Master + Options with the client_replay options loaded) is built once per process; a fresh ClientPlayback per path",
    "logging is disabled while the harness runs (log records would be queued on the never-running loop)",
    "flow state is observed through get_state() minus the 'backup' slot",
]
OUTSIDE = [
    "client_replay_concurrency = -1", "ReplayHandler / proxy core / sockets / TLS", "loading flows from files",
    "submitting the same flow object again while it is still queued", "histories longer than the bound",
]
ENCODED = [
    "mitmproxy.addons.clientplayback:ClientPlayback.playback",
    "mitmproxy.addons.clientplayback:ClientPlayback.check",
    "mitmproxy.addons.clientplayback:ClientPlayback.start_replay",
    "mitmproxy.addons.clientplayback:ClientPlayback.stop_replay",
    "mitmproxy.addons.clientplayback:ClientPlayback.count",
    "mitmproxy.addons.clientplayback:ReplayHandler.__init__",
    "mitmproxy.flow:Flow.backup",
    "mitmproxy.flow:Flow.revert",
]

REPLAYABLE = ("ok", "ok-modified")
UNREPLAYABLE = ("live", "intercepted", "no-content", "tcp", "websocket", "inflight-again")

_CTX = None


def _context():
    global _CTX
    if _CTX is None:
        from mitmproxy.addons.clientplayback import ClientPlayback
        from mitmproxy.test import taddons

        _CTX = taddons.context(ClientPlayback())  # registers the client_replay* options, sets mitmproxy.ctx
    _CTX.options.reset()
    return _CTX


def _mkflow(kind):
    from mitmproxy.test import tflow

    if kind == "tcp":
        f = tflow.ttcpflow()
        f.live = False
        return f
    if kind == "websocket":
        f = tflow.twebsocketflow()
        f.live = False
        return f
    f = tflow.tflow(resp=True, live=(kind == "live"))
    if kind == "ok-modified":  # the user edited the request before replaying it
        f.backup()
        f.request.path = "/edited"
        f.comment = "edited by the user"
    elif kind == "intercepted":
        f.intercept()
    elif kind == "no-content":
        f.request.content = None
    return f


def _state(f, strip=True):
    s = copy.deepcopy(f.get_state())
    if strip:
        s.pop("backup", None)
    return s


def h_history(X, ops, N):
    import asyncio

    from mitmproxy import flow as mflow
    from mitmproxy import http
    from mitmproxy.addons import clientplayback

    tctx = _context()
    loop = tctx.master.event_loop
    cp = clientplayback.ClientPlayback()
    cp.options = tctx.options  # what running() does, minus creating the asyncio task

    started = []  # flows whose replay awaitable started, in order
    running = []  # [(flow, future)] started and not finished (oracle: never more than one)
    finished = []

    async def fake_replay(handler):
        fut = loop.create_future()
        started.append(handler.flow)
        running.append((handler.flow, fut))
        try:
            await fut
        finally:
            running[:] = [r for r in running if r[1] is not fut]
            finished.append(handler.flow)

    orig_replay = clientplayback.ReplayHandler.replay
    clientplayback.ReplayHandler.replay = fake_replay
    logging.disable(logging.CRITICAL)
    asyncio.events._set_running_loop(loop)
    coro = cp.playback()
    waiting = [None]

    def pump():
        while waiting[0] is None or waiting[0].done():
            waiting[0] = coro.send(None)

    # reference model
    q = []  # submitted, not yet started: [(flow, kind, pre-submit state)]
    cur = None  # (flow, kind) being replayed
    rejected = []  # flows that must never be replayed
    hist = []

    def on_progress(n_started_before):
        """judge the replays that started during the last pump against the reference"""
        nonlocal cur
        for f in started[n_started_before:]:
            X.reach("replay-started")
            X.check(all(f is not r for r in rejected), "C53/unreplayable-flow-replayed", f"{hist}: a flow that cannot be replayed was replayed")
            X.check(cur is None, "C53/sequential/overlap", f"{hist}: a replay started while the previous one had not finished")
            X.check(bool(q) and q[0][0] is f, "C53/sequential/order", f"{hist}: replay started out of submission order")
            if len(started) > 1:
                X.reach("second-replay-started")
            cur = (f, q.pop(0)[1])

    def invariant():
        exp = len(q) + (1 if cur else 0)
        X.check(cp.count() == exp, "C53/count", f"{hist}: count()={cp.count()}, reference: {len(q)} queued + {1 if cur else 0} running")
        X.check(len(running) <= 1, "C53/sequential/overlap", f"{hist}: {len(running)} replays running at once")
        X.check((cp.inflight is None) == (cur is None) and (cur is None or cp.inflight is cur[0]), "C53/inflight",
                f"{hist}: inflight={cp.inflight!r} reference running={cur and cur[1]}")

    try:
        pump()  # task starts and blocks on the empty queue
        for step in range(N):
            op = X.choose("op", ops)
            hist.append(op)
            n0 = len(started)
            kind, _, arg = op.partition(":")
            if kind in ("submit", "submit-deferred"):
                if arg == "inflight-again":
                    X.assume(cur is not None)
                    f = cur[0]
                else:
                    f = _mkflow(arg)
                pre_full = _state(f, strip=False)
                before = cp.count()
                cp.start_replay([f])
                if arg in UNREPLAYABLE:
                    X.reach("rejected/" + arg)
                    if arg != "inflight-again":
                        rejected.append(f)
                    X.check(cp.count() == before, f"C53/unreplayable-queued/{arg}", f"{hist}: {arg} flow was queued (count {before} -> {cp.count()})")
                    X.check(_state(f, strip=False) == pre_full, f"C53/unreplayable-modified/{arg}", f"{hist}: rejected {arg} flow was modified by start_replay")
                else:
                    q.append((f, arg, {k: v for k, v in pre_full.items() if k != "backup"}))
                if kind == "submit":
                    pump()
                else:
                    X.reach("deferred-wakeup")
            elif kind == "finish":
                X.assume(cur is not None)
                f, fut = running[0]
                if arg == "ok":
                    f.response = http.Response.make(204)
                    fut.set_result(None)
                elif arg == "error":
                    f.error = mflow.Error("connection failed")
                    fut.set_result(None)
                else:  # the handler itself blows up; playback() must survive and go on
                    fut.set_exception(RuntimeError("handler crashed"))
                done = cur
                cur = None
                pump()
                X.reach("finished/" + arg)
                X.check(finished and finished[-1] is done[0], "C53/finish-lost", f"{hist}: the running replay did not end")
                if arg != "crash":
                    X.check(done[0].response is not None or done[0].error is not None, "C53/ended-without-outcome",
                            f"{hist}: replayed flow has neither response nor error")
            elif kind == "stop":
                cp.stop_replay()
                for f, k, pre in q:
                    X.reach("stopped-while-queued")
                    post = _state(f)
                    if post != pre:
                        changed = sorted(x for x in post if post[x] != pre.get(x))
                        edits_lost = k == "ok-modified" and (post["request"]["path"] != pre["request"]["path"] or post["comment"] != pre["comment"])
                        key = "C53/stop/reverts-edits-made-before-replay" if edits_lost else "C53/stop/not-restored"
                        X.fail(key, f"{hist}: queued {k} flow differs from its pre-submit state after stop in {changed} "
                                    f"(path {pre['request']['path']!r} -> {post['request']['path']!r}, comment {pre['comment']!r} -> {post['comment']!r})")
                q.clear()
                pump()
                if cur is not None:
                    X.reach("stop-while-running")
                    X.check(len(running) == 1 and not running[0][1].done(), "C53/stop/running-replay-disturbed", f"{hist}: stop interfered with the running replay")
            on_progress(n0)
            if kind != "submit-deferred":
                X.check(cur is not None or not q, "C53/stalled", f"{hist}: {len(q)} flows queued, nothing running, playback task idle")
            invariant()
            if cur is None and not q:
                j = cp.queue.join()
                try:
                    j.send(None)
                    j.close()
                    X.fail("C53/cleanup/join-hangs", f"{hist}: nothing queued or running but queue.join() still blocks (task_done bookkeeping)")
                except StopIteration:
                    X.reach("idle-clean")
        X.reach("end")
    finally:
        try:
            coro.close()
        finally:
            clientplayback.ReplayHandler.replay = orig_replay
            asyncio.events._set_running_loop(None)
            logging.disable(logging.NOTSET)


KINDS = REPLAYABLE + UNREPLAYABLE
OPS_FULL = [f"submit:{k}" for k in KINDS] + ["submit-deferred:ok", "submit-deferred:ok-modified", "finish:ok", "finish:error", "finish:crash", "stop"]
OPS_SMALL = ["submit:ok", "submit:ok-modified", "submit:live", "submit-deferred:ok", "finish:ok", "finish:error", "stop"]
REACH = ["end", "replay-started", "second-replay-started", "finished/ok", "finished/error", "stopped-while-queued", "stop-while-running",
         "idle-clean", "deferred-wakeup"] + [f"rejected/{k}" for k in UNREPLAYABLE]


def h_replay_handler(X):
    """the REAL ReplayHandler (server.ConnectionHandler + HttpLayer, real asyncio loop) for replays that end without any
    server transport: an addon answers or kills the replayed request in a hook.  `replay()` must complete and the flow
    must end with a response or an error -- otherwise playback() would wait forever and nothing queued behind it runs."""
    import asyncio

    from mitmproxy import http
    from mitmproxy.addons import clientplayback
    from mitmproxy.test import tflow
    from vf import sansio

    what = X.choose("addon_action", ["respond", "kill"])
    where = X.choose("in_hook", ["requestheaders", "request"])
    method = X.choose("method", ["GET", "POST"])
    with_old_response = X.boolean("recorded_response")
    mode = X.choose("mode", [None, "upstream:http://proxy.test:3128"])
    # the user (an intercept filter such as ~s) pauses the replayed flow in its response hook: the replay is not finished
    # before the flow is resumed, so replay() -- which playback() awaits before taking the next queued flow -- must not return
    pause = what == "respond" and X.boolean("intercepted_in_response_hook")
    opts = _replay_opts(mode)
    f = tflow.tflow(resp=with_old_response)
    f.live = False
    f.request.method = method
    f.request.content = b"body" if method == "POST" else b""
    hooks = []

    class _Addons:
        async def handle_lifecycle(self, hook):
            hooks.append(hook.name)
            (data,) = hook.args()
            if hook.name == where:
                if what == "respond":
                    data.response = http.Response.make(200, b"canned")
                else:
                    data.kill()
            if pause and hook.name == "response":
                data.intercept()

    class _Master:
        addons = _Addons()

    saved = clientplayback.ctx.__dict__.get("master", None)
    clientplayback.ctx.master = _Master()
    result = {}

    async def main():
        f.response = None
        h = clientplayback.ReplayHandler(f, opts)
        task = asyncio.ensure_future(h.replay())
        if pause:
            for _ in range(500):
                if f.intercepted or task.done():
                    break
                await asyncio.sleep(0.01)
            result["intercepted"] = f.intercepted
            for _ in range(20):
                await asyncio.sleep(0.005)
            result["done_while_paused"] = task.done()
            f.resume()
        try:
            await asyncio.wait_for(task, 5)
            result["done"] = True
        except asyncio.TimeoutError:
            result["done"] = False

    try:
        asyncio.run(main())
    finally:
        if saved is None:
            clientplayback.ctx.__dict__.pop("master", None)
        else:
            clientplayback.ctx.master = saved
    X.reach("ran")
    if pause:
        X.check(result.get("intercepted"), "C53/replay-handler/response-hook-not-reached", f"hooks fired: {hooks}")
        X.check(not result.get("done_while_paused"), f"C53/replay-handler/completes-while-intercepted/in-{where}",
                "ReplayHandler.replay() returned (playback() would start the next queued flow) while the replayed flow was still "
                f"intercepted in its response hook and had not been resumed; hooks fired: {hooks}")
        X.reach("paused-in-response-hook")
    X.check(result.get("done"), f"C53/replay-handler/never-completes/{what}-in-{where}",
            f"ReplayHandler.replay() did not complete within 5 s after the addon chose to {what} in {where}; hooks fired: {hooks}")
    X.check(f.response is not None or f.error is not None, f"C53/replay-handler/no-outcome/{what}-in-{where}", f"hooks {hooks}")
    X.reach("completed-without-server")


_REPLAY_OPTS = {}


def _replay_opts(mode):
    from vf import sansio

    if mode not in _REPLAY_OPTS:
        o = sansio.make_options()
        if mode:
            o.update(mode=[mode])
        _REPLAY_OPTS[mode] = o
    return _REPLAY_OPTS[mode]


def obligations(tier):
    n = 4 if tier == "quick" else 5
    obs = [
        Symx("replay-history", lambda X: h_history(X, OPS_FULL, n),
             bounds=f"every history of <= {n} steps over {OPS_FULL} (every prefix is judged)",
             encoded=ENCODED, must_reach=REACH + ["finished/crash"], parallel_depth=2,
             stubs=["ReplayHandler.replay -> harness-completed awaitable", "asyncio running-loop pointer set to a non-running loop"]),
    ]
    obs.append(Symx("replay-handler-completes", h_replay_handler,
                    bounds="real ReplayHandler.replay under a real asyncio loop: addon {responds, kills} in {requestheaders, request} x GET/POST x flow recorded with/without response x {direct, upstream} mode x {flow runs through, flow intercepted in its response hook and resumed by the harness} (no server connection is ever opened)",
                    encoded=ENCODED + ["mitmproxy.addons.clientplayback:ReplayHandler.handle_hook", "mitmproxy.addons.clientplayback:ReplayHandler.replay"],
                    must_reach=["ran", "completed-without-server", "paused-in-response-hook"], stubs=["ctx.master.addons.handle_lifecycle -> harness addon"]))
    if tier != "quick":
        obs.append(Symx("replay-history-6", lambda X: h_history(X, OPS_SMALL, 6),
                        bounds=f"every history of <= 6 steps over {OPS_SMALL}",
                        encoded=ENCODED, must_reach=[r for r in REACH if not r.startswith("rejected/")] + ["rejected/live"], parallel_depth=3,
                        stubs=["ReplayHandler.replay -> harness-completed awaitable", "asyncio running-loop pointer set to a non-running loop"]))
    return obs
