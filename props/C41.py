"""C41 — HAR export followed by HAR import preserves the exchange.

Real code executed per path (engine symx, solver-enumerated selectors, native execution): flows are built with
the plain `http.Request` / `http.Response` constructors from selector-chosen parts, exported with the real
`SaveHar.make_har` / `flow_entry` and `json.dumps(..).encode()` exactly as `SaveHar.export_har` does (into a
BytesIO instead of a file), and read back with the real `io.FlowReader(...).stream()` (HAR branch ->
`har.request_to_flow`).  Oracle: the field-by-field comparison that the property sentence lists — method, URL,
HTTP version, request header fields (Content-Length exempt), request body for POST/PUT/PATCH, status code,
response header fields (Content-Length exempt: weaker reading, the sentence exempts it only for requests),
decoded response body, order of the flows.  Header fields are compared as name(lower-case) -> list of values
(order among different names is not demanded).

This is configuration exhaustion over the stated menus: the solver enumerates every feasible selector vector;
the claim is exactly the menu, nothing symbolic flows through json / zlib / brotli (C code).
"""
import io
import json

from mitmproxy import exceptions, http
from mitmproxy import io as mio
from mitmproxy.addons import savehar
from mitmproxy.net import encoding as netenc
from mitmproxy.test import tflow

from vf.ob import Symx

LEVEL = "model_checking"
ASSUMPTIONS = [
    "export = the real SaveHar.export_har with `open` in savehar's namespace redirected to an in-memory file; import = FlowReader.stream on those bytes",
    "flows are complete HTTP flows with a response (no error flows, no websocket messages); Host header / authority agree with the request host",
    "json, zlib, brotli, base64 are C code and run on concrete per-path values",
    "Content-Length is exempt on both messages (weaker reading); header names compare case-insensitively; order is demanded only among fields of the same name",
]
OUTSIDE = [
    "HAR files written by other tools; .zhar compression; websocket entries; flows without response; CONNECT flows",
    "timestamps, timings, cookies/queryString/postData.params HAR sections (not listed by the property)",
    "menu values other than the stated ones (header names/values, bodies, URLs, status codes); more than 2 flows per file",
    "request bodies with a Content-Encoding; trailers",
]
ENCODED = [
    "mitmproxy.addons.savehar:SaveHar.export_har", "mitmproxy.addons.savehar:SaveHar.make_har", "mitmproxy.addons.savehar:SaveHar.flow_entry", "mitmproxy.addons.savehar:SaveHar.format_multidict",
    "mitmproxy.addons.savehar:SaveHar.format_response_cookies", "mitmproxy.io.har:request_to_flow", "mitmproxy.io.har:fix_headers",
    "mitmproxy.io.io:FlowReader.stream", "mitmproxy.http:Request.make",
]

METHODS = ["GET", "POST", "PUT", "PATCH", "DELETE"]
VERSIONS = ["HTTP/1.1", "HTTP/2.0", "HTTP/3"]
URLS = [("http", "example.com", 80, "/"), ("https", "example.com", 443, "/p/a?q=1&q=2&e="), ("https", "example.com", 8443, "/x%20y?z=%C3%A9")]
REQ_FIELDS = [("X-A", "1"), ("X-A", "2"), ("Accept", "text/html, */*;q=0.8"), ("Cookie", "k=v; k2=v2"), ("X-Empty", ""), ("Content-Type", "text/plain; charset=utf-8")]
RESP_FIELDS = [("Set-Cookie", "a=1; Path=/"), ("Set-Cookie", "b=2; HttpOnly"), ("X-A", "1"), ("Location", "/next"), ("Vary", "Accept-Encoding"), ("X-Empty", "")]
REQ_BODIES = {"empty": b"", "text": "name=v\u00e4lue&x=1 \u2713".encode(), "non-utf8": b"\x80\x81\xfe\x00 binary \xff\n",
              "binary-bom": b"\xff\xfe\x00binary\x80\x81\n"}
STATUS = [100, 101, 199, 200, 204, 299, 300, 304, 399, 400, 404, 418, 499, 500, 599]
# response body kind -> (decoded body bytes, headers added)
RESP_BODIES = {
    "text-utf8": ("h\u00e9llo w\u00f6rld \u2713\n".encode(), [("Content-Type", "text/plain; charset=utf-8")]),
    "latin1-charset": ("caf\u00e9 na\u00efve \u00fc\n".encode("latin-1"), [("Content-Type", "text/html; charset=iso-8859-1")]),
    "binary": (bytes(range(256)) + b"\x00\x01\x02\xff" * 8, [("Content-Type", "application/octet-stream")]),
    # mostly non-printable bytes: exported base64-encoded (strutils.is_mostly_bin)
    "binary-base64": (b"\x89PNG\r\n\x1a\n\x00\x00\x00\rIHDR" + b"\x00\x01\x02\x03\xff\xfe\x80\x90" * 20, [("Content-Type", "image/png")]),
    # text-like body (mostly printable, so exported as text, not base64) with bytes that are invalid in the declared charset
    "text-with-invalid-bytes": (b"<p>price: \xa3 9.99, mostly printable text with a stray \xff byte in a utf-8 page</p>\n", [("Content-Type", "text/html; charset=utf-8")]),
    "gzip-coded": ("compressed t\u00e9xt body\n".encode() * 3, [("Content-Type", "text/plain; charset=utf-8"), ("Content-Encoding", "gzip")]),
    "br-coded": ("brotli t\u00e9xt body\n".encode() * 3, [("Content-Type", "application/json"), ("Content-Encoding", "br")]),
}


def build_flow(cfg, idx=0):
    scheme, host, port, path = cfg["url"]
    ver = cfg["version"]
    h1 = ver == "HTTP/1.1"
    hdrs = []
    hostval = host if port in (80, 443) else f"{host}:{port}"
    if h1:
        hdrs.append((b"Host", hostval.encode()))
    hdrs += [(k.encode() if h1 else k.lower().encode(), v.encode()) for k, v in cfg["req_fields"]]
    body = REQ_BODIES[cfg["req_body"]]
    if body or cfg["method"] in ("POST", "PUT", "PATCH"):
        hdrs.append((b"Content-Length" if h1 else b"content-length", str(len(body)).encode()))
    req = http.Request(host, port, cfg["method"].encode(), scheme.encode(), b"" if h1 else hostval.encode(), path.encode(), ver.encode(),
                       http.Headers(hdrs), body, None, 1000.0 + cfg.get("t0", idx), 1000.5 + cfg.get("t0", idx))
    decoded, extra = RESP_BODIES[cfg["resp_body"]]
    rh = [(k, v) for k, v in extra] + list(cfg["resp_fields"])
    coding = dict((k.lower(), v) for k, v in extra).get("content-encoding")
    raw = netenc.encode(decoded, coding) if coding else decoded
    rh.append(("Content-Length", str(len(raw))))
    resp = http.Response(ver.encode(), cfg["status"], b"" if not h1 else http.status_codes.RESPONSES.get(cfg["status"], "").encode(),
                         http.Headers([(k.encode() if h1 else k.lower().encode(), v.encode()) for k, v in rh]), raw, None, 1001.0 + cfg.get("t0", idx), 1001.5 + cfg.get("t0", idx))
    f = tflow.tflow(req=req, resp=resp)
    f.id = f"flow{idx}"
    return f


def fields(headers):
    d = {}
    for k, v in headers.fields:
        k = k.decode("utf-8", "surrogateescape").lower()
        if k == "content-length":
            continue
        d.setdefault(k, []).append(v.decode("utf-8", "surrogateescape"))
    return d


class _MemFile(io.BytesIO):
    def close(self):  # keep the bytes readable after export_har's `with open(...)` block
        self.saved = self.getvalue()
        super().close()


def export_import(flows):
    """the REAL SaveHar.export_har writes the file (its `open` is redirected to memory: nothing touches the disk),
    the real FlowReader reads those bytes back"""
    mem = _MemFile()
    saved_open = savehar.__dict__.get("open", None)
    savehar.open = lambda path, mode="r", *a, **k: mem
    lvl = savehar.logging.getLogger().level
    try:
        savehar.logging.disable(savehar.logging.CRITICAL)
        savehar.SaveHar().export_har(flows, "/nonexistent/verif-c41.har")
    finally:
        savehar.logging.disable(savehar.logging.NOTSET)
        if saved_open is None:
            del savehar.open
        else:
            savehar.open = saved_open
    har = mem.saved
    return har, list(mio.FlowReader(io.BytesIO(har)).stream())


def compare(X, i, f, g, cfg):
    """all field comparisons are evaluated; the first failing one (in the order below) is reported.  The two
    comparisons placed last are the ones whose failure ends many paths, so that they do not hide other fields."""
    ctx = f"flow {i} cfg={cfg}"
    X.check(isinstance(g, http.HTTPFlow) and g.response is not None, "C41/not-an-http-exchange", ctx)
    bad, late = [], []

    def chk(cond, key, msg, dest=bad):
        if not cond:
            dest.append((key, msg + " " + ctx))

    chk(g.request.method == f.request.method, "C41/method", f"{g.request.method!r} != {f.request.method!r}")
    chk(g.request.url == f.request.url, "C41/url", f"{g.request.url!r} != {f.request.url!r}")
    a, b = fields(f.request.headers), fields(g.request.headers)
    diff = sorted(k for k in set(a) | set(b) if a.get(k) != b.get(k))
    chk(not diff, f"C41/request-headers/{'+'.join(diff)}", f"exported {a}, imported {b}")
    if f.request.method in ("POST", "PUT", "PATCH"):
        chk(g.request.get_content(strict=False) == f.request.get_content(strict=False), f"C41/request-body/{cfg['req_body']}",
            f"exported {f.request.get_content(strict=False)!r}, imported {g.request.get_content(strict=False)!r}")
        X.reach("request-body-compared")
    chk(g.response.status_code == f.response.status_code, "C41/status", f"{g.response.status_code} != {f.response.status_code}")
    a, b = fields(f.response.headers), fields(g.response.headers)
    diff = sorted(k for k in set(a) | set(b) if a.get(k) != b.get(k))
    chk(not [k for k in diff if k != "content-encoding"], f"C41/response-headers/{'+'.join(diff)}", f"exported {a}, imported {b}")
    want, got = f.response.get_content(strict=False), g.response.get_content(strict=False)
    chk(got == want, f"C41/response-body/{cfg['resp_body']}", f"decoded body exported {want!r:.120}, imported {got!r:.120}")
    chk(g.request.http_version == f.request.http_version, f"C41/http-version/request/{f.request.http_version}",
        f"exported {f.request.http_version!r}, imported {g.request.http_version!r}", late)
    chk(g.response.http_version == f.response.http_version, f"C41/http-version/response/{f.response.http_version}",
        f"exported {f.response.http_version!r}, imported {g.response.http_version!r}", late)
    chk("content-encoding" not in diff, "C41/response-headers/content-encoding", f"exported {a}, imported {b}", late)
    for key, msg in bad + late:
        X.fail(key, msg)


def choose_fields(X, tag, menu, maxn):
    n = X.choose(f"n_{tag}", maxn + 1)
    return [X.choose(f"{tag}_field", menu) for _ in range(n)]


DEFAULT = dict(method="GET", version="HTTP/1.1", url=URLS[0], req_fields=[], req_body="empty", status=200, resp_body="text-utf8", resp_fields=[])


def run(X, cfgs):
    netenc._cache = netenc.CachedDecode(None, None, None, None)
    flows = [build_flow(c, i) for i, c in enumerate(cfgs)]
    try:
        har, back = export_import(flows)
    except exceptions.FlowReadException as e:
        X.fail("C41/import-error", f"{e} (cause: {e.__context__!r}) cfgs={cfgs}")
    if b'"encoding": "base64"' in har:
        X.reach("base64-export")
    X.check(len(back) == len(flows), "C41/count", f"{len(back)} flows imported, {len(flows)} exported")
    # order: the i-th imported flow is compared with the i-th exported flow
    for i, (f, g, c) in enumerate(zip(flows, back, cfgs)):
        compare(X, i, f, g, c)
    X.reach("end")


def h_request_side(X):
    cfg = dict(DEFAULT)
    cfg["method"] = X.choose("method", METHODS)
    cfg["version"] = X.choose("version", VERSIONS)
    cfg["url"] = X.choose("url", URLS)
    cfg["req_body"] = X.choose("req_body", list(REQ_BODIES))
    cfg["req_fields"] = choose_fields(X, "req", REQ_FIELDS, 2)
    run(X, [cfg])


def h_response_side(X, statuses):
    cfg = dict(DEFAULT)
    cfg["version"] = X.choose("version", VERSIONS)
    cfg["status"] = X.choose("status", statuses)
    cfg["resp_body"] = X.choose("resp_body", list(RESP_BODIES))
    cfg["resp_fields"] = choose_fields(X, "resp", RESP_FIELDS, 2)
    run(X, [cfg])


def h_two_flows(X):
    cfgs = []
    n = X.choose("nflows", [1, 2])
    for i in range(n):
        cfg = dict(DEFAULT)
        cfg["method"] = X.choose("method", ["GET", "POST"])
        cfg["req_body"] = "text" if cfg["method"] == "POST" else "empty"
        cfg["url"] = URLS[i]
        cfg["status"] = X.choose("status", [200, 404])
        cfg["resp_body"] = X.choose("resp_body", list(RESP_BODIES))
        cfgs.append(cfg)
    if n == 2:
        X.reach("two-flows")
        # the order of the file is the order of the exported list, whatever the start times say
        # (HTTP/2 multiplexing, a user-chosen order): the later-listed flow may have started first or at the same instant
        order = X.choose("start_times", ["ascending", "equal", "descending"])
        cfgs[0]["t0"], cfgs[1]["t0"] = {"ascending": (0, 1), "equal": (0, 0), "descending": (5, 0)}[order]
        if order == "descending":
            X.reach("listed-order-differs-from-start-order")
    run(X, cfgs)


def h_cross(X):
    """thorough: full cross product of the per-message menus with <=1 extra header field per message"""
    cfg = dict(DEFAULT)
    cfg["method"] = X.choose("method", METHODS)
    cfg["version"] = X.choose("version", VERSIONS)
    cfg["req_body"] = X.choose("req_body", list(REQ_BODIES))
    cfg["req_fields"] = choose_fields(X, "req", REQ_FIELDS, 1)
    cfg["status"] = X.choose("status", [101, 200, 204, 304, 404, 599])
    cfg["resp_body"] = X.choose("resp_body", list(RESP_BODIES))
    cfg["resp_fields"] = choose_fields(X, "resp", RESP_FIELDS, 1)
    run(X, [cfg])


def obligations(tier):
    obs = [
        Symx("request-side", h_request_side,
             bounds=f"method {METHODS} x version {VERSIONS} x URL {['%s://%s:%s%s' % u for u in URLS]} x request body {list(REQ_BODIES)} x every sequence of <=2 extra request "
                    f"header fields from {REQ_FIELDS} (duplicates included); response fixed (200, utf-8 text)",
             encoded=ENCODED, must_reach=["end", "request-body-compared"], parallel_depth=3),
        Symx("response-side", lambda X: h_response_side(X, STATUS),
             bounds=f"version {VERSIONS} x status {STATUS} x response body {list(RESP_BODIES)} x every sequence of <=2 extra response header fields from {RESP_FIELDS} "
                    "(duplicates included); request fixed (GET http://example.com/)",
             encoded=ENCODED, must_reach=["end", "base64-export"], parallel_depth=3),
        Symx("flow-order", h_two_flows,
             bounds=f"1-2 flows per file, each: GET without body / POST with text body x status [200,404] x response body {list(RESP_BODIES)} (flow i uses URL i), start times ascending / equal / descending in list order; "
                    "the i-th imported flow must equal the i-th exported flow",
             encoded=ENCODED, must_reach=["end", "two-flows", "listed-order-differs-from-start-order"], parallel_depth=3),
    ]
    if tier != "quick":
        obs.append(Symx("cross-product", h_cross,
                        bounds="method x version x request body x <=1 extra request field x status [101,200,204,304,404,599] x response body x <=1 extra response field (full product)",
                        encoded=ENCODED, must_reach=["end", "request-body-compared"], parallel_depth=3))
    return obs
