"""C05 — HTTP/2 streams are isolated and correctly mapped.

Obligations (engine symx; every run executes the real mitmproxy layers natively, the solver owns all
selectors / ids / limits):

  client-map-step      inductive kernel.  A real `Http2Client` (real h2 connection, real upstream h2 peer) is
                       put into an arbitrary pre-state satisfying the representation invariant: m mapped streams
                       (open / half-closed / closed) + q queued streams, ALL client stream ids symbolic odd 31-bit
                       ints (pairwise distinct), concurrency limit symbolic.  ONE event (HttpEvent on a fresh /
                       mapped / queued id, server frames that end or reset a stream or change the limit,
                       connection close) is applied through `Http2Client.handle_event`.  Post: id maps mutually
                       inverse, new event queued iff no capacity, queue resumed oldest-first, every queued event
                       forwarded exactly once and in order (multiset in = forwarded + still queued), events
                       surfaced to the HttpLayer carry the client's ids, invariant re-established.
  client-map-history   the same checker after every step of short event histories from the initial state
                       (invariant reachable; catches what the invariant may miss).
  h2-schedule          2 (quick) / 3 (thorough) concurrent client streams with distinct headers / bodies /
                       trailers produced by a real in-memory h2 client peer, relayed by the real
                       HttpLayer + Http2Server + Http2Client to a real in-memory h2 server peer.  The solver
                       chooses the frame interleaving (client frames and server response frames), where the TCP
                       byte stream is cut / coalesced, the order of the server's answers, an optional RST_STREAM by
                       either side at any point, MAX_CONCURRENT_STREAMS=1 from the server (initially or later),
                       and (flow-control variant) a 4-byte client window with WINDOW_UPDATEs at chosen points.
                       Oracle: markers.  Every flow / upstream stream / client-visible response carries exactly
                       the marker of its own stream; resets and errors reach only the stream they answer;
                       upstream streams are opened within the acknowledged limit and in arrival order; no request
                       lost or duplicated.
"""
import collections

import h2.config
import h2.connection
import h2.errors
import h2.events
import h2.exceptions
import h2.settings

from mitmproxy import http as mhttp
from mitmproxy.connection import ConnectionState, Server
from mitmproxy.proxy import events as pevents
from mitmproxy.proxy.layers import http
from mitmproxy.proxy.layers.http import HTTPMode, _http2
from mitmproxy.proxy.layers.http._base import ReceiveHttp
from mitmproxy.proxy.layers.http._events import (ErrorCode, RequestData, RequestEndOfMessage, RequestHeaders,
                                                 RequestProtocolError, RequestTrailers, ResponseProtocolError)

from vf import sansio
from vf.ob import Symx

LEVEL = "model_checking"
ASSUMPTIONS = [
    "kernel: the three id dictionaries of Http2Client (our_stream_id, their_stream_id, stream_queue) are replaced by an "
    "insertion-ordered association list with dict/defaultdict semantics whose key comparison is `==` (so symbolic ids stay symbolic); "
    "python dict semantics for int keys are equality-based and insertion-ordered, which is what the model implements",
    "kernel: in 'remote' limit mode the symbolic limit is written into h2's remote_settings storage after a real SETTINGS frame was processed",
    "kernel pre-states are built from the representation invariant: maps mutually inverse, queue keys disjoint from mapped ids, "
    "queue non-empty => no free upstream capacity, queued event lists start with RequestHeaders",
    "HttpEvents offered to Http2Client are those HttpStream can emit: RequestHeaders only for a new id; data / trailers / end-of-message only "
    "for a stream whose request is still open; protocol errors for any known stream",
    "peers are python-hyper h2 4.4.1 connections (trusted to encode/decode frames and to enforce SETTINGS_MAX_CONCURRENT_STREAMS)",
    "hooks complete immediately (interception is C11), bodies are buffered (streaming is C07)",
]
OUTSIDE = ["HTTP/3", "flow-control beyond a 4-byte initial client window with explicit WINDOW_UPDATEs", "more than 3 concurrent streams / 1 fault per schedule",
           "byte cuts other than the menu (inside the 9-byte frame header, after it, before the last byte, frame held back and coalesced with the next)",
           "PRIORITY / PUSH_PROMISE / CONTINUATION frames", "several upstream connections (h2 -> h1 fan-out is C08)"]
ENCODED = [
    "mitmproxy.proxy.layers.http._http2:Http2Client._handle_event", "mitmproxy.proxy.layers.http._http2:Http2Client._handle_event2",
    "mitmproxy.proxy.layers.http._http2:Http2Client.handle_h2_event", "mitmproxy.proxy.layers.http._http2:Http2Connection._handle_event",
    "mitmproxy.proxy.layers.http._http2:Http2Connection.handle_h2_event", "mitmproxy.proxy.layers.http._http2:Http2Connection.close_connection",
    "mitmproxy.proxy.layers.http._http2:Http2Server._handle_event", "mitmproxy.proxy.layers.http._http2:Http2Server.handle_h2_event",
    "mitmproxy.proxy.layers.http._http_h2:BufferedH2Connection.send_data", "mitmproxy.proxy.layers.http._http_h2:BufferedH2Connection.stream_window_updated",
    "mitmproxy.proxy.layers.http._http_h2:BufferedH2Connection.send_trailers", "mitmproxy.proxy.layers.http._http_h2:BufferedH2Connection.receive_data",
    "mitmproxy.proxy.layers.http:HttpLayer.event_to_child", "mitmproxy.proxy.layers.http:HttpLayer.get_connection",
    "mitmproxy.proxy.layers.http:HttpStream.state_consume_request_body", "mitmproxy.proxy.layers.http:HttpStream.handle_protocol_error",
]

OPTS = sansio.make_options()  # never mutated
MCS = h2.settings.SettingCodes.MAX_CONCURRENT_STREAMS
IWS = h2.settings.SettingCodes.INITIAL_WINDOW_SIZE


# ------------------------------------------------------------------------------------------------
# (i) kernel: Http2Client id mapping / queue / limit


class SymDict:
    """insertion-ordered association list with dict semantics; keys are compared with `==` only, so a symbolic
    key forks on (in)equality with the stored keys instead of being hashed (which would enumerate its values)"""

    def __init__(self, factory=None):
        self._k, self._v, self._factory = [], [], factory

    def _find(self, key):
        for i, k in enumerate(self._k):
            if k == key:
                return i
        return -1

    def get(self, key, default=None):
        i = self._find(key)
        return default if i < 0 else self._v[i]

    def __getitem__(self, key):
        i = self._find(key)
        if i < 0:
            if self._factory is None:
                raise KeyError(key)
            self._k.append(key)
            self._v.append(self._factory())
            return self._v[-1]
        return self._v[i]

    def __setitem__(self, key, value):
        i = self._find(key)
        if i < 0:
            self._k.append(key)
            self._v.append(value)
        else:
            self._v[i] = value

    def __contains__(self, key):
        return self._find(key) >= 0

    def __delitem__(self, key):
        self.pop(key)

    _MISSING = object()

    def pop(self, key, default=_MISSING):
        i = self._find(key)
        if i < 0:
            if default is SymDict._MISSING:
                raise KeyError(key)
            return default
        self._k.pop(i)
        return self._v.pop(i)

    def __iter__(self):
        return iter(list(self._k))

    def __len__(self):
        return len(self._k)

    def __bool__(self):
        return bool(self._k)

    def keys(self):
        return list(self._k)

    def values(self):
        return list(self._v)

    def items(self):
        return list(zip(self._k, self._v))

    def clear(self):
        self._k.clear()
        self._v.clear()


def _server_conn():
    s = Server(address=("example.com", 443))
    s.state = ConnectionState.OPEN
    s.alpn = b"h2"
    s.peername = ("192.0.2.1", 443)
    return s


def _mkreq(marker=b"k"):
    return mhttp.Request(host="example.com", port=443, method=b"POST", scheme=b"https", authority=b"example.com", path=b"/" + marker,
                         http_version=b"HTTP/2.0", headers=mhttp.Headers([(b"x-id", marker)]), content=None, trailers=None,
                         timestamp_start=0.0, timestamp_end=None)


class Kernel:
    """one real Http2Client + the real upstream peer, instrumented (not stubbed) at _handle_event2"""

    def __init__(self, X):
        self.X = X
        ctx = sansio.make_context(OPTS)
        ctx.server = _server_conn()
        self.c = c = _http2.Http2Client(ctx)
        c.our_stream_id = SymDict()
        c.their_stream_id = SymDict()
        c.stream_queue = SymDict(list)
        self.forwarded = []  # (event object, stream id it was forwarded with)
        real = c._handle_event2

        def recording(event):
            if isinstance(event, http.HttpEvent):
                self.forwarded.append((event, event.stream_id))
            return real(event)

        c._handle_event2 = recording
        self.peer = h2.connection.H2Connection(h2.config.H2Configuration(client_side=False, header_encoding=False))
        self.out = bytearray()
        self.surfaced = []  # ReceiveHttp events
        self.closed = False
        self.peer_events = []
        self.orig = {}  # id(event) -> client id it was created with
        self.run(pevents.Start())
        self.peer.initiate_connection()
        self.to_peer()

    def run(self, ev):
        for cmd in self.c.handle_event(ev):
            if isinstance(cmd, ReceiveHttp):
                self.surfaced.append(cmd.event)
            elif type(cmd).__name__ == "SendData":
                self.out += cmd.data
            elif type(cmd).__name__ == "CloseConnection":
                self.closed = True

    def to_peer(self):
        if self.out:
            data, self.out = bytes(self.out), bytearray()
            try:
                evs = self.peer.receive_data(data)
            except h2.exceptions.ProtocolError as e:
                self.X.fail(f"C05/kernel/upstream-protocol-error/{type(e).__name__}", f"upstream peer rejects what Http2Client sent: {e!r}")
            self.peer_events += evs

    def from_peer(self):
        data = self.peer.data_to_send()
        if data:
            self.run(pevents.DataReceived(self.c.conn, data))
            self.to_peer()

    def limit(self):
        return self.c.provisional_max_concurrency or self.c.h2_conn.remote_settings.max_concurrent_streams

    def ev(self, cls, t, *a):
        e = cls(t, *a)
        self.orig[id(e)] = (e, t)
        return e


def _flat(q):
    return [e for _, evs in q.items() for e in evs]


def _check_inv(X, K, where):
    """representation invariant of Http2Client's mapping state"""
    c = K.c
    ours, theirs = c.our_stream_id.items(), c.their_stream_id.items()
    X.check(len(ours) == len(theirs), f"C05/kernel/{where}/bijection-size", f"|our_stream_id|={len(ours)} |their_stream_id|={len(theirs)}")
    conds = []
    for t, o in ours:
        back = c.their_stream_id.get(o, None)
        X.check(back is not None, f"C05/kernel/{where}/bijection-missing", f"their_stream_id has no entry for upstream id {o}")
        conds.append(back == t)
    X.check(_conj(conds), f"C05/kernel/{where}/bijection", "their_stream_id[our_stream_id[t]] != t for some client stream id t")
    os_ = [o for _, o in ours]
    X.check(len(set(os_)) == len(os_), f"C05/kernel/{where}/upstream-id-reused", f"two client streams share an upstream id: {os_}")
    for t, evs in c.stream_queue.items():
        X.check(c.our_stream_id.get(t, None) is None, f"C05/kernel/{where}/queued-and-mapped", "a queued stream id is also mapped")
        X.check(len(evs) > 0, f"C05/kernel/{where}/empty-queue-entry", "stream_queue holds an empty event list")
    if c.stream_queue and not K.closed:
        free = c.h2_conn.open_outbound_streams < K.limit()
        X.check(not free, f"C05/kernel/{where}/queue-with-free-capacity",
                f"streams are still queued although {c.h2_conn.open_outbound_streams} upstream streams are open and the limit allows more")


def _step(X, K, ev, desc, *, expect):
    """apply one event through the real code and compare with the step specification.
    expect: 'forward' | 'queue' | 'new' | 'io' (connection event)"""
    c = K.c
    pre_our = c.our_stream_id.items()
    pre_queue = [(t, list(evs)) for t, evs in c.stream_queue.items()]
    pre_flat = _flat(c.stream_queue)
    K.forwarded.clear()
    K.surfaced.clear()
    is_http = isinstance(ev, http.HttpEvent)
    t_in = ev.stream_id if is_http else None
    K.run(ev)
    K.to_peer()
    post_flat = _flat(c.stream_queue)
    fwd = [e for e, _ in K.forwarded]
    # nothing lost, nothing duplicated: (queued before + this event) == (forwarded + queued after), as lists of event objects
    inn = pre_flat + ([ev] if is_http else [])
    got = fwd + post_flat
    if K.closed and expect == "io":
        # after the connection died nothing can be forwarded; queued streams must have been told (checked below)
        pass
    else:
        X.check(sorted(map(id, inn)) == sorted(map(id, got)), f"C05/kernel/{desc}/lost-or-duplicated",
                f"events in={len(inn)} forwarded={len(fwd)} still queued={len(post_flat)}")
    # this event's own fate
    if expect == "queue":
        X.check(any(e is ev for e in post_flat) and not any(e is ev for e in fwd), f"C05/kernel/{desc}/not-queued", "no capacity, but the event was not queued")
        X.check(len(fwd) == 0, f"C05/kernel/{desc}/forwarded-while-full", "no capacity, but events were forwarded")
        X.check(len(c.our_stream_id) == len(pre_our), f"C05/kernel/{desc}/mapped-while-full", "mapping changed although the stream was queued")
        X.reach("queued")
    elif expect in ("forward", "new"):
        X.check(len(fwd) >= 1 and fwd[0] is ev, f"C05/kernel/{desc}/not-forwarded", "capacity available (or stream already mapped) but the event was not forwarded first")
        o = K.forwarded[0][1]
        X.check(c.their_stream_id.get(o, None) is not None and c.their_stream_id.get(o) == t_in, f"C05/kernel/{desc}/forwarded-on-wrong-stream",
                f"event forwarded on upstream id {o}, which is not mapped to its client stream")
        if expect == "new":
            X.check(all(o != po for _, po in pre_our), f"C05/kernel/{desc}/upstream-id-reused", f"new stream got upstream id {o} already used")
            X.reach("opened")
        else:
            X.reach("forwarded")
    # resumed streams: opened oldest first (a prefix of the queue, in queue order), each stream's events in their original
    # order, each stream on ONE fresh upstream id.  (Events of different resumed streams may interleave: the property
    # orders the opening of streams, not the frames of different streams.)
    resumed = fwd[1:] if expect in ("forward", "new") else fwd
    if resumed:
        X.reach("resumed")
        opened_order = []
        accounted = 0
        for qi, (t, evs) in enumerate(pre_queue):
            mine = [e for e in resumed if any(e is x for x in evs)]
            if not mine:
                continue
            opened_order.append((min(i for i, e in enumerate(resumed) if e is evs[0]) if any(e is evs[0] for e in resumed) else -1, qi))
            X.check(len(mine) == len(evs) and all(a is b for a, b in zip(mine, evs)), f"C05/kernel/{desc}/resume-order",
                    "a resumed stream's events were not all forwarded in their original order")
            ids = {o for e, o in K.forwarded if any(e is x for x in evs)}
            X.check(len(ids) == 1, f"C05/kernel/{desc}/resume-split", f"one queued stream was forwarded on several upstream ids {ids}")
            o = ids.pop()
            X.check(c.their_stream_id.get(o, None) is not None and c.their_stream_id.get(o) == t, f"C05/kernel/{desc}/resume-wrong-stream",
                    "resumed stream forwarded on an upstream id mapped to another client stream")
            X.check(all(o != po for _, po in pre_our), f"C05/kernel/{desc}/resume-id-reused", "resumed stream reuses an upstream id")
            accounted += len(evs)
        X.check(accounted == len(resumed), f"C05/kernel/{desc}/resume-extra", "events forwarded that neither are the incoming event nor were queued")
        qis = [qi for _, qi in opened_order]
        X.check(qis == list(range(len(qis))), f"C05/kernel/{desc}/resume-skips-older", f"resumed queue positions {qis}: an older waiting stream was skipped")
        X.check([p_ for p_, _ in opened_order] == sorted(p_ for p_, _ in opened_order) and all(p_ >= 0 for p_, _ in opened_order),
                f"C05/kernel/{desc}/resume-not-oldest-first", "waiting streams were not opened in arrival order")
    # whatever is surfaced to the HttpLayer must carry a client id that is mapped (or queued, for connection loss)
    for e in K.surfaced:
        known = c.our_stream_id.get(e.stream_id, None) is not None or any(e.stream_id == t for t, _ in pre_queue)
        X.check(known, f"C05/kernel/{desc}/surfaced-unknown-stream", f"{type(e).__name__} surfaced for a stream id the client side does not know")
    _check_inv(X, K, desc)
    return fwd


def _conj(conds):
    """conjunction of bools / SymBools without forking"""
    r = True
    for c in conds:
        if c is True:
            continue
        if c is False:
            return False
        r = c if r is True else (r & c)
    return r


def _sym_id(X, name, distinct_from=()):
    """symbolic client stream id: odd, 31 bit, different from every id in `distinct_from`"""
    t = X.int(name, 1, (1 << 31) - 1)
    X.assume(_conj([(t & 1) == 1] + [t != u for u in distinct_from]))
    return t


def _prestate(X, K, M, Q, STATES, QSHAPES):
    """arbitrary valid pre-state: m mapped streams in chosen h2 states, q queued streams, symbolic ids + limit"""
    c = K.c
    mode = X.choose("limit_mode", ["provisional", "remote"])
    K.from_peer()  # the peer's SETTINGS: in real runs this ends the provisional phase
    X.check(c.provisional_max_concurrency is None, "C05/kernel/provisional-not-cleared", "SETTINGS received but provisional limit still in force")
    L = X.int("limit", 1, (1 << 31) - 1)
    if mode == "provisional":
        c.provisional_max_concurrency = L
    else:
        c.h2_conn.remote_settings._settings[MCS] = collections.deque([L])
    m = X.choose("n_mapped", M + 1)
    ids = []
    mapped = []
    for i in range(m):
        t = _sym_id(X, f"t{i}", ids)
        ids.append(t)
        st = X.choose(f"state{i}", STATES)
        # realise the upstream stream with the real h2 connection (library state, not mitmproxy logic)
        lim_save = c.h2_conn.remote_settings._settings.get(MCS)
        c.h2_conn.remote_settings._settings.pop(MCS, None)  # pre-state construction must not be limited by the symbolic limit
        o = c.h2_conn.get_next_available_stream_id()
        c.h2_conn.send_headers(o, [(b":method", b"POST"), (b":scheme", b"https"), (b":path", b"/m%d" % i), (b":authority", b"example.com")],
                               end_stream=(st in ("half", "closed")))
        if lim_save is not None:
            c.h2_conn.remote_settings._settings[MCS] = lim_save
        K.out += c.h2_conn.data_to_send()
        K.to_peer()
        c.streams[o] = _http2.StreamState.EXPECTING_HEADERS
        c.our_stream_id[t] = o
        c.their_stream_id[o] = t
        if st in ("resp-open", "closed"):
            K.peer.send_headers(o, [(b":status", b"200")], end_stream=(st == "closed"))
            K.from_peer()
        elif st == "reset":
            K.peer.reset_stream(o)
            K.from_peer()
        mapped.append((t, o, st))
    K.surfaced.clear()
    K.forwarded.clear()
    q = X.choose("n_queued", Q + 1)
    queued = []
    for i in range(q):
        t = _sym_id(X, f"u{i}", ids)
        ids.append(t)
        shape = X.choose(f"qshape{i}", QSHAPES)
        evs = [K.ev(RequestHeaders, t, _mkreq(b"q%d" % i), shape == "H+E")]
        if "D" in shape:
            evs.append(K.ev(RequestData, t, b"queued-%d" % i))
        if "E" in shape:
            evs.append(K.ev(RequestEndOfMessage, t))
        if "RST" in shape:
            evs.append(K.ev(RequestProtocolError, t, "cancelled", ErrorCode.CANCEL))
        c.stream_queue[t].extend(evs)
        queued.append((t, shape))
    n_open = c.h2_conn.open_outbound_streams
    if q:
        X.assume(n_open >= L)  # invariant: queued only while there is no capacity
    _check_inv(X, K, "pre")
    return ids, mapped, queued, L


ALL_STATES = ["open", "half", "closed", "resp-open", "reset"]
ALL_QSHAPES = ["H", "H+D+E+RST", "H+D", "H+E"]


def h_kernel_step(X, M, Q, nstates=5, nshapes=4):
    K = Kernel(X)
    c = K.c
    ids, mapped, queued, L = _prestate(X, K, M, Q, ALL_STATES[:nstates], ALL_QSHAPES[:nshapes])
    n_open = c.h2_conn.open_outbound_streams
    X.note("pre", f"mapped={[s for _, _, s in mapped]} queued={[s for _, s in queued]} open={n_open}")
    kinds = ["new-headers"]
    if mapped:
        kinds += ["mapped-data", "mapped-eom", "mapped-cancel", "server-response-end", "server-reset"]
    if queued:
        kinds += ["queued-data", "queued-cancel"]
    kinds += ["server-raises-limit", "connection-closed"]
    kind = X.choose("event", kinds)
    if kind == "new-headers":
        t = _sym_id(X, "fresh", ids)
        ev = K.ev(RequestHeaders, t, _mkreq(b"new"), X.boolean("end_stream"))
        full = bool(n_open >= L)
        _step(X, K, ev, kind, expect="queue" if full else "new")
    elif kind.startswith("mapped-"):
        t, o, st = mapped[X.choose("which", len(mapped))]
        if kind == "mapped-data":
            X.assume(st in ("open", "resp-open"))
            ev = K.ev(RequestData, t, b"more")
        elif kind == "mapped-eom":
            X.assume(st in ("open", "resp-open"))
            ev = K.ev(RequestEndOfMessage, t)
        else:
            ev = K.ev(RequestProtocolError, t, "cancelled", ErrorCode.CANCEL)
        fwd = _step(X, K, ev, kind, expect="forward")
        X.check(K.forwarded[0][1] == o, f"C05/kernel/{kind}/wrong-upstream-stream", f"event for a mapped stream forwarded on {K.forwarded[0][1]}, mapped to {o}")
    elif kind.startswith("queued-"):
        t, shape = queued[X.choose("which", len(queued))]
        if kind == "queued-data":
            X.assume("E" not in shape)
            ev = K.ev(RequestData, t, b"more")
        else:
            X.assume("RST" not in shape)
            ev = K.ev(RequestProtocolError, t, "cancelled", ErrorCode.CANCEL)
        _step(X, K, ev, kind, expect="queue")
        # appended to its own stream's list, order of the queue unchanged
        keys = c.stream_queue.keys()
        X.check(len(keys) == len(queued) and all(a is b for a, b in zip(keys, [u for u, _ in queued])) and c.stream_queue.get(t)[-1] is ev,
                f"C05/kernel/{kind}/queued-elsewhere", "event for a queued stream not appended to that stream's own list / queue order changed")
    elif kind in ("server-response-end", "server-reset"):
        t, o, st = mapped[X.choose("which", len(mapped))]
        X.assume(st in ("open", "half", "resp-open"))
        if kind == "server-reset":
            K.peer.reset_stream(o, h2.errors.ErrorCodes.REFUSED_STREAM)
        elif st == "resp-open":
            K.peer.send_data(o, b"tail", end_stream=True)
        else:
            K.peer.send_headers(o, [(b":status", b"200")], end_stream=True)
        if st != "half" and kind == "server-response-end":
            # request side still open: the upstream stream stays open (half-closed remote), nothing may be resumed
            pass
        data = K.peer.data_to_send()
        _step(X, K, pevents.DataReceived(c.conn, data), kind, expect="io")
        # the response / reset must surface on the client's id of exactly that stream
        X.check(len(K.surfaced) >= 1, f"C05/kernel/{kind}/not-surfaced", "server frames for a mapped stream produced no HTTP event")
        for e in K.surfaced:
            X.check(e.stream_id == t, f"C05/kernel/{kind}/surfaced-on-wrong-stream", f"{type(e).__name__} for upstream stream {o} surfaced on another client stream")
        X.reach("server-event")
    elif kind == "server-raises-limit":
        X.assume(c.provisional_max_concurrency is None)
        K.peer.update_settings({MCS: X.choose("new_limit", [1, 2, 100])})
        data = K.peer.data_to_send()
        _step(X, K, pevents.DataReceived(c.conn, data), kind, expect="io")
    else:
        _step(X, K, pevents.ConnectionClosed(c.conn), kind, expect="io")
        X.check(K.closed, f"C05/kernel/{kind}/not-closed", "peer closed but no CloseConnection")
        # every stream that still waits for an answer must be told, on its own id, exactly once
        waiting = [t for t, o, st in mapped if st in ("open", "half", "resp-open")] + [t for t, _ in queued]
        for t in waiting:
            n = sum(1 for e in K.surfaced if isinstance(e, ResponseProtocolError) and bool(e.stream_id == t))
            where = "queued" if any(t is u for u, _ in queued) else "mapped"
            X.check(n == 1, f"C05/kernel/{kind}/{where}-stream-not-notified",
                    f"upstream connection closed: a {where} stream got {n} ResponseProtocolError events (expected exactly 1) - the stream is lost")
        X.reach("closed")
    X.reach("end")


def h_kernel_history(X, N):
    """short histories from the initial state; the same step specification after every event"""
    K = Kernel(X)
    c = K.c
    if X.boolean("peer_settings_first"):
        K.from_peer()
    L = X.int("limit", 1, (1 << 31) - 1)
    if c.provisional_max_concurrency is not None:
        c.provisional_max_concurrency = L
    else:
        c.h2_conn.remote_settings._settings[MCS] = collections.deque([L])
    streams = []  # [t, state] state: 'open' request open, 'done' request complete, 'dead'
    for step in range(N):
        kinds = ["new", "stop"]
        live = [i for i, s in enumerate(streams) if s[1] == "open"]
        known = [i for i, s in enumerate(streams) if s[1] in ("open", "done")]
        resettable = [i for i, s in enumerate(streams) if s[1] in ("open", "done") and c.our_stream_id.get(s[0], None) is not None
                      and not c.is_closed(c.our_stream_id.get(s[0]))]
        answerable = [i for i in resettable if streams[i][1] == "done"]
        if live:
            kinds += ["data", "eom"]
        if known:
            kinds.append("cancel")
        if answerable:
            kinds.append("answer")
        if resettable:
            kinds.append("server-reset")
        kind = X.choose("ev", kinds)
        if kind == "stop":
            break
        n_open = c.h2_conn.open_outbound_streams
        lim = K.limit()
        if kind == "new":
            t = _sym_id(X, "t", [s[0] for s in streams])
            es = X.boolean("end_stream")
            streams.append([t, "done" if es else "open"])
            full = bool(n_open >= lim)
            _step(X, K, K.ev(RequestHeaders, t, _mkreq(b"s%d" % len(streams)), es), "history-new", expect="queue" if full else "new")
            if es:
                # HttpStream always follows up with RequestEndOfMessage
                mappedp = c.our_stream_id.get(t, None) is not None
                _step(X, K, K.ev(RequestEndOfMessage, t), "history-eom", expect="forward" if mappedp else "queue")
        elif kind in ("data", "eom", "cancel"):
            i = (live if kind != "cancel" else known)[X.choose("which", len(live if kind != "cancel" else known))]
            t = streams[i][0]
            mappedp = c.our_stream_id.get(t, None) is not None
            if kind == "data":
                ev = K.ev(RequestData, t, b"d")
            elif kind == "eom":
                ev = K.ev(RequestEndOfMessage, t)
                streams[i][1] = "done"
            else:
                ev = K.ev(RequestProtocolError, t, "cancelled", ErrorCode.CANCEL)
                streams[i][1] = "dead"
            _step(X, K, ev, "history-" + kind, expect="forward" if mappedp else "queue")
        else:
            pool = answerable if kind == "answer" else resettable
            i = pool[X.choose("which", len(pool))]
            t = streams[i][0]
            o = c.our_stream_id.get(t)
            if kind == "answer":
                K.peer.send_headers(o, [(b":status", b"200")], end_stream=True)
            else:
                K.peer.reset_stream(o, h2.errors.ErrorCodes.REFUSED_STREAM)
            streams[i][1] = "dead"
            _step(X, K, pevents.DataReceived(c.conn, K.peer.data_to_send()), "history-" + kind, expect="io")
            for e in K.surfaced:
                X.check(e.stream_id == t, f"C05/kernel/history-{kind}/surfaced-on-wrong-stream", f"{type(e).__name__} surfaced on another client stream")
            X.reach("server-event")
    X.reach("end")


# ------------------------------------------------------------------------------------------------
# (ii) bounded schedules through HttpLayer + Http2Server + Http2Client with real peers

MARKERS = [b"A", b"B", b"C"]
REQ_SHAPES = {"HDT": ["H", "D", "T"], "HD": ["H", "D!"], "H": ["H!"], "HDDT": ["H", "D", "D2", "T"]}
RESP_SHAPES = {"HDT": ["H", "D", "T"], "HD": ["H", "D!"], "H": ["H!"]}
CUTS = ["all", "mid-header", "after-header", "before-last", "hold"]


def _req_headers(m):
    return [(b":method", b"POST"), (b":scheme", b"http"), (b":path", b"/" + m), (b":authority", b"example.com"), (b"x-id", m)]


def _body(m, shape):
    return b"".join({"D": b"body-" + m, "D!": b"body-" + m, "D2": b"+more-" + m}.get(f, b"") for f in REQ_SHAPES[shape])


def _trailers(m, shape):
    return [(b"x-trailer", b"t-" + m)] if "T" in REQ_SHAPES[shape] else None


class Peer:
    def __init__(self, X, client_side, name, auto_ack=True):
        self.X, self.name = X, name
        self.h = h2.connection.H2Connection(h2.config.H2Configuration(client_side=client_side, header_encoding=False))
        self.st = {}
        self.order = []
        self.settings_acked = 0
        self.auto_ack = auto_ack
        self.on_event = None
        self.goaway = None

    def rec(self, sid):
        return self.st.setdefault(sid, {"headers": None, "data": b"", "trailers": None, "ended": False, "reset": None, "nheaders": 0})

    def recv(self, data):
        try:
            evs = self.h.receive_data(data)
        except h2.exceptions.ProtocolError as e:
            self.X.fail(f"C05/schedule/{self.name}-peer-protocol-error/{type(e).__name__}", f"{self.name} peer rejects mitmproxy's frames: {e!r}")
        for e in evs:
            if isinstance(e, (h2.events.RequestReceived, h2.events.ResponseReceived)):
                r = self.rec(e.stream_id)
                r["nheaders"] += 1
                r["headers"] = list(e.headers)
                self.order.append(e.stream_id)
            elif isinstance(e, h2.events.DataReceived):
                self.rec(e.stream_id)["data"] += e.data
                if self.auto_ack:
                    self.h.acknowledge_received_data(e.flow_controlled_length, e.stream_id)
            elif isinstance(e, h2.events.TrailersReceived):
                self.rec(e.stream_id)["trailers"] = list(e.headers)
            elif isinstance(e, h2.events.StreamEnded):
                self.rec(e.stream_id)["ended"] = True
            elif isinstance(e, h2.events.StreamReset):
                self.rec(e.stream_id)["reset"] = int(e.error_code)
            elif isinstance(e, h2.events.SettingsAcknowledged):
                self.settings_acked += 1
            elif isinstance(e, h2.events.ConnectionTerminated):
                self.goaway = e
            if self.on_event:
                self.on_event(self, e)


class Cfg:
    def __init__(self, **kw):
        self.shapes = ["HDT", "HD"]
        self.resp = ["HDT", "HD"]
        self.splits = 1
        self.faults = 0
        self.mcs = False
        self.mcs_later = False
        self.window = None
        self.close = False
        self.__dict__.update(kw)


class World:
    def __init__(self, X, cfg):
        self.X, self.cfg = X, cfg
        ctx = sansio.make_context(OPTS)
        ctx.client.alpn = b"h2"
        self.ctx = ctx
        self.d = d = sansio.Driver(http.HttpLayer(ctx, HTTPMode.regular), ctx)
        d.on_open = self._on_open
        d.on_hook = self._on_hook
        self.cli = Peer(X, True, "client", auto_ack=cfg.window is None)
        self.srv = {}
        self.off = {}
        self.carry = {}
        self.splits_left = cfg.splits
        self.faults_left = cfg.faults
        n = len(cfg.shapes)
        self.n = n
        self.pc = [0] * n
        self.sid = [None] * n
        self.c_reset = [False] * n
        self.s_reset = set()  # (conn, j)
        self.spc = {}  # (conn, j) -> next response frame
        self.mcs_sent = {}  # conn -> number of SETTINGS acks after which MCS=1 is in force
        self.flows = {}  # marker -> flow
        self.hooklog = []
        self.arrival = []
        self.pending_last = []  # (end offset in client byte stream, i)
        self.c_gen = 0
        self.c_deliv = 0
        self.wu_left = {}
        self.srv_closed = set()
        d.start()
        self.cli.h.initiate_connection()
        if cfg.window is not None:
            self.cli.h.update_settings({IWS: cfg.window})
        self.send(ctx.client, self.cli.h.data_to_send(), "all")
        self.pump()

    # -- environment callbacks
    def _on_open(self, cmd):
        cmd.connection.alpn = b"h2"
        return None

    def _on_hook(self, hook):
        X = self.X
        f = hook.args()[0]
        self.hooklog.append(hook.name)
        if not isinstance(f, mhttp.HTTPFlow):
            return True
        m = f.request.path.encode()[1:]
        X.check(m in MARKERS[:self.n], "C05/schedule/flow/unknown-path", f"flow with path {f.request.path!r}")
        i = MARKERS.index(m)
        shape = self.cfg.shapes[i]
        if hook.name == "requestheaders":
            X.check(m not in self.flows, "C05/schedule/flow/duplicate", f"two flows for stream {m!r}")
            self.flows[m] = f
        X.check(self.flows.get(m) is f, "C05/schedule/flow/identity", f"hook {hook.name} for {m!r} on a different flow object")
        X.check(f.request.headers.get_all("x-id") == [m.decode()], "C05/schedule/flow/request-headers-mixed",
                f"{hook.name}: flow {m!r} has x-id {f.request.headers.get_all('x-id')}")
        if hook.name == "request":
            X.check(f.request.raw_content == _body(m, shape), "C05/schedule/flow/request-body-mixed",
                    f"flow {m!r} body {f.request.raw_content!r} != {_body(m, shape)!r}")
            tr = list(f.request.trailers.fields) if f.request.trailers else None
            X.check(tr == _trailers(m, shape), "C05/schedule/flow/request-trailers-mixed", f"flow {m!r} trailers {tr} != {_trailers(m, shape)}")
            X.reach("request-hook")
        if hook.name == "response":
            r = f.response
            X.check(r.headers.get_all("x-id") == [m.decode()], "C05/schedule/flow/response-headers-mixed", f"flow {m!r} response x-id {r.headers.get_all('x-id')}")
            X.check(r.raw_content in (b"resp-" + m, b""), "C05/schedule/flow/response-body-mixed", f"flow {m!r} response body {r.raw_content!r}")
            tr = list(r.trailers.fields) if r.trailers else None
            X.check(tr in (None, [(b"x-rt", m)]), "C05/schedule/flow/response-trailers-mixed", f"flow {m!r} response trailers {tr}")
        return True

    # -- byte transport with cuts
    def send(self, conn, data, mode):
        """`data` follows whatever is still held back for `conn`; mode decides how much is delivered now"""
        held = self.carry.get(conn, b"")
        buf = held + data
        if mode == "all":
            cut = len(buf)
        elif mode == "hold":
            cut = len(held)
        elif mode == "mid-header":
            cut = len(held) + 3
        elif mode == "after-header":
            cut = len(held) + 9
        else:
            cut = len(buf) - 1
        cut = max(0, min(cut, len(buf)))
        if conn is self.ctx.client:
            self.c_gen += len(data)
        head, self.carry[conn] = buf[:cut], buf[cut:]
        if head:
            if conn is self.ctx.client:
                self.c_deliv += len(head)
                done = [i for off, i in self.pending_last if off <= self.c_deliv]
                self.pending_last = [(off, i) for off, i in self.pending_last if off > self.c_deliv]
                self.arrival += done
            if conn.state & ConnectionState.CAN_READ:
                self.d.data(conn, head)

    def cut_mode(self):
        if self.splits_left > 0:
            m = self.X.choose("cut", CUTS)
            if m != "all":
                self.splits_left -= 1
                self.X.reach("cut")
            return m
        return "all"

    def pump(self):
        X = self.X
        d = self.d
        again = True
        while again:
            again = False
            for conn in [self.ctx.client] + list(d.opened):
                if conn is not self.ctx.client and conn not in self.srv:
                    p = Peer(X, False, "server")
                    p.on_event = self._srv_event
                    p.conn = conn
                    self.srv[conn] = p
                    p.h.initiate_connection()
                    if self.cfg.mcs and X.choose("mcs_initial", [None, 1]) == 1:
                        p.h.update_settings({MCS: 1})
                        self.mcs_sent[conn] = 2
                        X.reach("mcs")
                    self.send(conn, p.h.data_to_send(), "all")
                    again = True
                out = d.sent_to(conn)
                o = self.off.get(conn, 0)
                if len(out) > o:
                    self.off[conn] = len(out)
                    peer = self.cli if conn is self.ctx.client else self.srv[conn]
                    peer.recv(out[o:])
                    back = peer.h.data_to_send()
                    if back:
                        self.send(conn, back, "all" if not self.carry.get(conn) else "hold")
                    again = True

    def flush(self):
        did = False
        for conn in list(self.carry):
            if self.carry[conn]:
                self.send(conn, b"", "all")
                did = True
        if did:
            self.pump()
        return did

    # -- upstream observations (server peer events, in order)
    def _srv_open_count(self, p):
        n = 0
        for j, r in p.st.items():
            if r["headers"] is None:
                continue
            done = self.spc.get((p.conn, j), 0) >= len(self._resp_prog(p, j))
            closed = (r["ended"] and done) or r["reset"] is not None or (p.conn, j) in self.s_reset
            if not closed:
                n += 1
        return n

    def _srv_event(self, p, e):
        X = self.X
        if isinstance(e, h2.events.RequestReceived):
            in_force = p.settings_acked >= self.mcs_sent.get(p.conn, 1 << 30)
            if in_force:
                X.reach("limited-open")
                X.check(self._srv_open_count(p) <= 1, "C05/schedule/upstream/exceeds-max-concurrent-streams",
                        f"upstream stream {e.stream_id} opened while {self._srv_open_count(p) - 1} other stream(s) are open, acknowledged limit is 1")

    def _marker_of(self, p, j):
        hs = dict(p.st[j]["headers"] or [])
        return hs.get(b":path", b"/?")[1:]

    def _resp_prog(self, p, j):
        m = self._marker_of(p, j)
        i = MARKERS.index(m) if m in MARKERS else 0
        return RESP_SHAPES[self.cfg.resp[i % len(self.cfg.resp)]]

    # -- actions
    def enabled(self):
        acts = []
        for i in range(self.n):
            if not self.c_reset[i] and self.pc[i] < len(REQ_SHAPES[self.cfg.shapes[i]]):
                acts.append(("c", i))
        for ci, conn in enumerate(self.d.opened):
            p = self.srv.get(conn)
            if p is None or conn in self.srv_closed:
                continue
            for j in sorted(p.st):
                r = p.st[j]
                if r["headers"] is None or r["reset"] is not None or (conn, j) in self.s_reset:
                    continue
                if r["ended"] and self.spc.get((conn, j), 0) < len(self._resp_prog(p, j)):
                    acts.append(("s", ci, j))
        progress = list(acts)
        if self.cfg.window is not None:
            for i in range(self.n):
                if self.sid[i] is not None and self.wu_left.get(i, 2) > 0 and not self.c_reset[i]:
                    cs = self.cli.st.get(self.sid[i])
                    if cs and cs["headers"] is not None and not cs["ended"] and cs["reset"] is None:
                        acts.append(("cwu", i))
                        progress.append(("cwu", i))
        if self.faults_left > 0 and progress:
            for i in range(self.n):
                cs = self.cli.st.get(self.sid[i]) if self.sid[i] is not None else None
                closed = cs is not None and (cs["ended"] or cs["reset"] is not None)
                if self.sid[i] is not None and not self.c_reset[i] and not closed:
                    acts.append(("crst", i))
            for ci, conn in enumerate(self.d.opened):
                p = self.srv.get(conn)
                if p is None or conn in self.srv_closed:
                    continue
                for j in sorted(p.st):
                    r = p.st[j]
                    if r["headers"] is None or r["reset"] is not None or (conn, j) in self.s_reset:
                        continue
                    if not (r["ended"] and self.spc.get((conn, j), 0) >= len(self._resp_prog(p, j))):
                        acts.append(("srst", ci, j))
                if self.cfg.close:
                    acts.append(("sclose", ci))
        if self.cfg.mcs_later and progress:
            for ci, conn in enumerate(self.d.opened):
                if conn in self.srv and conn not in self.mcs_sent and conn not in self.srv_closed:
                    acts.append(("smcs", ci))
        return acts, progress

    def act(self, a):
        X = self.X
        cli = self.cli.h
        if a[0] == "c":
            i = a[1]
            m = MARKERS[i]
            prog = REQ_SHAPES[self.cfg.shapes[i]]
            f = prog[self.pc[i]]
            self.pc[i] += 1
            if f[0] == "H":
                self.sid[i] = cli.get_next_available_stream_id()
                cli.send_headers(self.sid[i], _req_headers(m), end_stream=f.endswith("!"))
            elif f == "T":
                cli.send_headers(self.sid[i], _trailers(m, self.cfg.shapes[i]), end_stream=True)
            else:
                cli.send_data(self.sid[i], {"D": b"body-" + m, "D!": b"body-" + m, "D2": b"+more-" + m}[f], end_stream=f.endswith("!"))
            data = cli.data_to_send()
            if self.pc[i] == len(prog):
                self.pending_last.append((self.c_gen + len(data), i))
            self.send(self.ctx.client, data, self.cut_mode())
        elif a[0] == "crst":
            i = a[1]
            self.faults_left -= 1
            self.c_reset[i] = True
            cli.reset_stream(self.sid[i], h2.errors.ErrorCodes.CANCEL)
            X.reach("client-reset")
            self.send(self.ctx.client, cli.data_to_send(), "all")
        elif a[0] == "cwu":
            i = a[1]
            self.wu_left[i] = self.wu_left.get(i, 2) - 1
            cli.increment_flow_control_window(X.choose("wu", [1, 64]), self.sid[i])
            X.reach("window-update")
            self.send(self.ctx.client, cli.data_to_send(), "all")
        else:
            conn = self.d.opened[a[1]]
            p = self.srv[conn]
            if a[0] == "s":
                j = a[2]
                m = self._marker_of(p, j)
                prog = self._resp_prog(p, j)
                f = prog[self.spc.get((conn, j), 0)]
                self.spc[(conn, j)] = self.spc.get((conn, j), 0) + 1
                if f[0] == "H":
                    p.h.send_headers(j, [(b":status", b"200"), (b"x-id", m)], end_stream=f.endswith("!"))
                elif f == "T":
                    p.h.send_headers(j, [(b"x-rt", m)], end_stream=True)
                else:
                    p.h.send_data(j, b"resp-" + m, end_stream=f.endswith("!"))
                self.send(conn, p.h.data_to_send(), self.cut_mode())
            elif a[0] == "srst":
                j = a[2]
                self.faults_left -= 1
                self.s_reset.add((conn, j))
                p.h.reset_stream(j, h2.errors.ErrorCodes.INTERNAL_ERROR)
                X.reach("server-reset")
                self.send(conn, p.h.data_to_send(), "all")
            elif a[0] == "smcs":
                p.h.update_settings({MCS: 1})
                self.mcs_sent[conn] = p.settings_acked + 1 + (0 if p.settings_acked >= 1 else 1)
                X.reach("mcs")
                self.send(conn, p.h.data_to_send(), "all")
            elif a[0] == "sclose":
                self.faults_left -= 1
                self.srv_closed.add(conn)
                self.send(conn, b"", "all")
                X.reach("server-close")
                self.d.close(conn)
        self.pump()

    def final_window_grant(self):
        """flow-control variant: a client eventually re-opens the window of every unfinished stream.  (With the window at exactly 0
        BufferedH2Connection keeps the zero-length END_STREAM frame back until the next WINDOW_UPDATE; RFC 9113 6.9 only says such a
        frame MAY be sent without window, so this is not held against mitmproxy.)"""
        if self.cfg.window is None or getattr(self, "_granted", False):
            return False
        self._granted = True
        for i in range(self.n):
            cs = self.cli.st.get(self.sid[i]) if self.sid[i] is not None else None
            if cs is not None and not cs["ended"] and cs["reset"] is None and not self.c_reset[i]:
                self.cli.h.increment_flow_control_window(1000, self.sid[i])
        data = self.cli.h.data_to_send()
        if data:
            self.send(self.ctx.client, data, "all")
            self.pump()
        return True

    # -- final oracle
    def verdict(self):
        X, cfg = self.X, self.cfg
        sids = [s for s in self.sid if s is not None]
        X.check(set(self.cli.st) <= set(sids), "C05/schedule/client/unknown-stream", f"client received frames on streams {set(self.cli.st) - set(sids)} it never opened")
        up = {}  # marker -> [(peer, j)]
        for conn, p in self.srv.items():
            seq = []
            for j in p.order:
                r = p.st[j]
                m = self._marker_of(p, j)
                seq.append(m)
                X.check(m in MARKERS[:self.n], "C05/schedule/upstream/unknown-request", f"upstream stream {j} carries path {m!r}")
                up.setdefault(m, []).append((p, j))
                i = MARKERS.index(m)
                shape = cfg.shapes[i]
                hs = r["headers"]
                X.check([v for k, v in hs if k == b"x-id"] == [m] and dict(hs).get(b":method") == b"POST" and dict(hs).get(b":authority") == b"example.com",
                        "C05/schedule/upstream/headers-mixed", f"upstream stream {j} ({m!r}) headers {hs}")
                X.check(r["data"] == _body(m, shape), "C05/schedule/upstream/body-mixed", f"upstream stream {j} ({m!r}) body {r['data']!r} != {_body(m, shape)!r}")
                X.check(r["trailers"] == _trailers(m, shape), "C05/schedule/upstream/trailers-mixed", f"upstream stream {j} ({m!r}) trailers {r['trailers']}")
                X.check(r["ended"] or r["reset"] is not None, "C05/schedule/upstream/request-not-ended", f"upstream stream {j} ({m!r}) never ended")
                X.check(r["nheaders"] == 1, "C05/schedule/upstream/request-twice", f"upstream stream {j}: {r['nheaders']} header blocks")
                if r["reset"] is not None:
                    X.check(self.c_reset[i] or conn in self.srv_closed, "C05/schedule/upstream/reset-on-wrong-stream",
                            f"upstream stream {j} ({m!r}) was reset, but the client never reset stream {m!r}")
            # arrival order: upstream streams are opened in the order in which the requests were completed by the client
            arr = [MARKERS[i] for i in self.arrival]
            pos = [arr.index(m) for m in seq if m in arr]
            X.check(len(pos) == len(seq), "C05/schedule/upstream/opened-before-complete", f"upstream order {seq}, completed requests {arr}")
            X.check(pos == sorted(pos), "C05/schedule/upstream/not-in-arrival-order", f"upstream streams opened in order {seq}, requests arrived in order {arr}")
        any_closed = bool(self.srv_closed)
        for i in range(self.n):
            m = MARKERS[i]
            ups = up.get(m, [])
            X.check(len(ups) <= 1, "C05/schedule/upstream/duplicated", f"request {m!r} was sent upstream {len(ups)} times")
            complete = self.pc[i] == len(REQ_SHAPES[cfg.shapes[i]])
            if complete and not self.c_reset[i] and not any_closed:
                X.check(len(ups) == 1, "C05/schedule/upstream/lost", f"request {m!r} was completed by the client but never reached the server")
            s_reset = any((p.conn, j) in self.s_reset for p, j in ups)
            cs = self.cli.st.get(self.sid[i]) if self.sid[i] is not None else None
            if cs is not None:
                X.check(cs["nheaders"] <= 1, "C05/schedule/client/two-responses", f"stream {m!r}: {cs['nheaders']} response header blocks")
                hs = cs["headers"] or []
                status = dict(hs).get(b":status")
                xid = [v for k, v in hs if k == b"x-id"]
                X.check(all(v == m for v in xid), "C05/schedule/client/response-on-wrong-stream", f"client stream {m!r} received the response for {xid}")
                if status == b"200":
                    X.check((b"resp-" + m).startswith(cs["data"]), "C05/schedule/client/response-body-mixed", f"client stream {m!r} received body {cs['data']!r}")
                X.check(cs["trailers"] in (None, [(b"x-rt", m)]), "C05/schedule/client/response-trailers-mixed", f"client stream {m!r} received trailers {cs['trailers']}")
            if complete and not self.c_reset[i]:
                rshape = RESP_SHAPES[cfg.resp[i % len(cfg.resp)]]
                ok = (cs is not None and dict(cs["headers"] or []).get(b":status") == b"200" and cs["data"] == (b"resp-" + m if len(rshape) > 1 else b"")
                      and cs["trailers"] == ([(b"x-rt", m)] if "T" in rshape else None) and cs["ended"] and cs["reset"] is None)
                if not s_reset and not any_closed:
                    X.check(ok, "C05/schedule/client/response-incomplete", f"client stream {m!r} (no fault on it) ended with {cs}")
                    X.reach("answered")
                elif ok:
                    X.reach("answered")
                else:
                    told = cs is not None and (cs["reset"] is not None or (cs["ended"] and dict(cs["headers"] or []).get(b":status", b"")[:1] == b"5"))
                    key = "reset-not-relayed" if s_reset else "stream-lost-on-upstream-close"
                    X.check(told, f"C05/schedule/client/{key}",
                            f"client stream {m!r}: upstream {'reset the stream' if s_reset else 'connection closed'}, but the client saw neither a reset nor an error response: {cs}")
                    X.reach("error-relayed")
        for m, f in self.flows.items():
            X.check(MARKERS.index(m) < self.n, "C05/schedule/flow/unknown", "flow for unknown stream")
        X.reach("end")


def h_schedule(X, cfg):
    W = World(X, cfg)
    steps = 0
    while True:
        acts, progress = W.enabled()
        if not progress:
            if W.flush() or W.final_window_grant():
                continue
            break
        a = acts[0] if len(acts) == 1 else X.choose("act", acts)
        W.act(a)
        steps += 1
        if steps > 60:
            X.fail("C05/schedule/harness-runaway", "schedule does not terminate")
    W.verdict()


def obligations(tier):
    quick = tier == "quick"
    K = ENCODED[:6]
    S = ENCODED
    obs = [
        Symx("client-map-step", lambda X: h_kernel_step(X, 2, 2, 3 if quick else 5, 2 if quick else 4),
             bounds=f"pre-state: <= 2 mapped streams x {3 if quick else 5} h2 states, <= 2 queued streams x {2 if quick else 4} event-list shapes; all client stream ids symbolic odd ints < 2^31 "
                    "(pairwise distinct), limit symbolic in [1, 2^31) in provisional or remote-settings mode; one event from a 10-entry menu",
             encoded=K, must_reach=["end", "queued", "opened", "forwarded", "resumed", "server-event", "closed"],
             stubs=["Http2Client id dicts -> equality-keyed association list (SymDict)"], parallel_depth=4),
        Symx("client-map-history", lambda X: h_kernel_history(X, 4 if quick else 5),
             bounds=f"every history of <= {4 if quick else 5} events (new stream, data, end, cancel, server answer, server reset) from the initial state; ids and limit symbolic",
             encoded=K, must_reach=["end", "queued", "opened", "resumed", "server-event"],
             stubs=["Http2Client id dicts -> equality-keyed association list (SymDict)"], parallel_depth=4),
    ]
    if quick:
        obs += [
            Symx("h2-schedule", lambda X: h_schedule(X, Cfg(shapes=["HDT", "HD"], resp=["HDT", "HD"], splits=1)),
                 bounds="2 client streams (HEADERS DATA TRAILERS / HEADERS DATA+END), responses (HEADERS DATA TRAILERS / HEADERS DATA+END); every interleaving of "
                        "client frames and server response frames; <= 1 cut of the byte stream from a 5-entry menu at any frame of either direction",
                 encoded=S, must_reach=["end", "answered", "cut", "request-hook"], parallel_depth=4),
            Symx("h2-schedule-3", lambda X: h_schedule(X, Cfg(shapes=["H", "H", "H"], resp=["H", "H", "H"], splits=0, mcs=True)),
                 bounds="3 bodiless client streams, every interleaving of requests and answers, server SETTINGS with or without MAX_CONCURRENT_STREAMS=1 "
                        "(two streams wait for capacity at the same time)",
                 encoded=S, must_reach=["end", "answered", "mcs", "limited-open"]),
            Symx("h2-schedule-faults", lambda X: h_schedule(X, Cfg(shapes=["HD", "HD"], resp=["HD", "H"], splits=0, faults=1, mcs=True)),
                 bounds="2 client streams (HEADERS DATA+END each), every interleaving; server SETTINGS with or without MAX_CONCURRENT_STREAMS=1; <= 1 RST_STREAM by the client "
                        "or the server on any open stream at any point",
                 encoded=S, must_reach=["end", "answered", "client-reset", "server-reset", "mcs", "limited-open", "error-relayed"], parallel_depth=4),
        ]
    else:
        obs += [
            Symx("h2-schedule", lambda X: h_schedule(X, Cfg(shapes=["HDT", "HDDT"], resp=["HDT", "HD"], splits=1)),
                 bounds="2 client streams (HEADERS DATA TRAILERS / HEADERS DATA DATA TRAILERS), responses (HEADERS DATA TRAILERS / HEADERS DATA+END); every interleaving; "
                        "<= 1 cut of the byte stream from a 5-entry menu at any frame of either direction",
                 encoded=S, must_reach=["end", "answered", "cut", "request-hook"], parallel_depth=5),
            Symx("h2-schedule-3", lambda X: h_schedule(X, Cfg(shapes=["HDT", "HD", "H"], resp=["HD", "HDT", "H"], splits=0, mcs=True)),
                 bounds="3 client streams (with trailers / body only / bodiless); every interleaving of client and server frames; MAX_CONCURRENT_STREAMS=1 or default",
                 encoded=S, must_reach=["end", "answered", "mcs", "limited-open"], parallel_depth=5),
            Symx("h2-schedule-faults", lambda X: h_schedule(X, Cfg(shapes=["H", "HD", "H"], resp=["H", "H", "HD"], splits=0, faults=1, mcs=True, mcs_later=True)),
                 bounds="3 client streams; every interleaving; MAX_CONCURRENT_STREAMS=1 initially, later or never; <= 1 RST_STREAM by client or server at any point",
                 encoded=S, must_reach=["end", "answered", "client-reset", "server-reset", "mcs", "limited-open", "error-relayed"], parallel_depth=5),
        ]
    obs += [
        Symx("h2-flow-control", lambda X: h_schedule(X, Cfg(shapes=["H", "H"], resp=["HDT", "HD"], splits=0, window=4)),
             bounds="2 bodiless client streams, responses with body > the client's 4-byte INITIAL_WINDOW_SIZE (one with trailers); every interleaving of response frames "
                    "and <= 2 WINDOW_UPDATEs (1 or 64 bytes) per stream",
             encoded=S, must_reach=["end", "answered", "window-update"], parallel_depth=4),
        Symx("h2-upstream-close", lambda X: h_schedule(X, Cfg(shapes=["H", "H"] if quick else ["H", "H", "H"], resp=["HD", "H", "H"], splits=0, faults=1, mcs=True, close=True)),
             bounds=f"{2 if quick else 3} bodiless client streams; MAX_CONCURRENT_STREAMS=1 or default; <= 1 fault: RST_STREAM by either side or the server closing the connection at any point",
             encoded=S, must_reach=["end", "answered", "server-close", "error-relayed"], parallel_depth=4),
    ]
    return obs
