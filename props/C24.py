"""C24 — upstream_auth credentials are only sent to the upstream proxy or the reverse-proxy target.

The real `UpstreamAuth` and `NextLayer` addons are bound to the hooks of the real mode layers
(`modes.HttpProxy / HttpUpstreamProxy / ReverseProxy / TransparentProxy / Socks5Proxy`), the real `HttpLayer`
(+ `HttpStream`, `Http1Server/Client`, `HttpUpstreamProxy` tunnel layer) through the sans-io driver.  Proxy mode,
client scenario, request form, follow-up request, connection strategy and `upstream_auth` set/unset are
solver-enumerated selectors (engine symx, native execution per configuration).  The harness plays the
upstream side (answers every CONNECT / request it sees) and attributes every `SendData` to
(connection, role, inside-CONNECT-tunnel?) by parsing the byte stream written to each connection
independently of mitmproxy.  Oracle: bytes containing the credential may appear only (a) in a CONNECT head or
a plain request head written to the upstream proxy connection outside any tunnel, as Proxy-Authorization, or
(b) as Authorization in a request head written to the reverse target.
"""
import base64

import mitmproxy.ctx as mctx
from mitmproxy import connection
from mitmproxy.addonmanager import Loader
from mitmproxy.addons import next_layer as nl_mod
from mitmproxy.addons import upstream_auth
from mitmproxy.proxy import commands, layers as layers_pkg, tunnel
from mitmproxy.proxy.layers import modes, tls as tls_mod
from mitmproxy.proxy.layers import http as http_mod  # noqa: F401  (real HttpLayer)

from vf import sansio
from vf.ob import Symx

LEVEL = "model_checking"
ASSUMPTIONS = [
    "TLS is replaced by pass-through marker layers (MarkClientTLS / MarkServerTLS, subclasses of the real TunnelLayer) that set "
    "conn.tls / timestamp_tls_setup / sni like the real layers, consume a fixed 'ClientHello' marker on the client side, honour the "
    "eager connection strategy (open the server connection before the client handshake completes) and copy bytes unchanged; "
    "record protection, certificates and ALPN are not modelled (HTTP/1 only)",
    "the harness acts as upstream proxy / origin: every complete request head written to a server connection is answered "
    "(CONNECT -> 200, other -> 200 with 2-byte body); OpenConnection always succeeds",
    "hooks are delivered to the real UpstreamAuth and NextLayer addon instances by name (any hook method they define is called); "
    "other addons are absent",
    "attribution: a connection whose first written head is a CONNECT is a tunnel from the end of that head on; the upstream "
    "proxy / reverse target are identified by the address of the connection object that SendData names",
]
OUTSIDE = ["HTTP/2 and HTTP/3 to the client or to the upstream proxy", "request bodies, WebSocket upgrades, client replay, addons that rewrite server_conn.via",
           "failing CONNECTs (407 from the upstream proxy) and connection errors"]
ENCODED = [
    "mitmproxy.addons.upstream_auth:UpstreamAuth.requestheaders", "mitmproxy.addons.upstream_auth:UpstreamAuth.http_connect_upstream",
    "mitmproxy.addons.upstream_auth:UpstreamAuth.configure",
    "mitmproxy.proxy.layers.http._upstream_proxy:HttpUpstreamProxy.start_handshake",
    "mitmproxy.proxy.layers.http._upstream_proxy:HttpUpstreamProxy.make",
    "mitmproxy.proxy.layers.http:HttpLayer.get_connection", "mitmproxy.proxy.layers.http:HttpStream.handle_connect_upstream",
    "mitmproxy.proxy.layers.http:HttpStream.state_wait_for_request_headers", "mitmproxy.proxy.layers.http:HttpStream.make_server_connection",
    "mitmproxy.addons.next_layer:NextLayer._next_layer", "mitmproxy.proxy.tunnel:TunnelLayer._handle_event",
]

CRED = "user:secretpw"
TOKEN = base64.b64encode(CRED.encode())
NEEDLES = [TOKEN, b"secretpw"]
PROXY = ("proxy.example", 3128)
TARGET = ("target.example", 8000)
TARGET_TLS = ("target.example", 8443)
ORIGIN = "origin.example"
OTHER = "other.example"
ORIGIN_IP = "198.51.100.7"
HELLO = b"\x16\x03\x01\x00\x07<hello>"

MODES = {
    "regular": "regular",
    "upstream:http": f"upstream:http://{PROXY[0]}:{PROXY[1]}",
    "upstream:https": f"upstream:https://{PROXY[0]}:{PROXY[1]}",
    "reverse:http": f"reverse:http://{TARGET[0]}:{TARGET[1]}",
    "reverse:https": f"reverse:https://{TARGET_TLS[0]}:{TARGET_TLS[1]}",
    "transparent": "transparent",
    "socks5": "socks5",
}
SCENARIOS = ["plain", "tunnel-http", "tunnel-https", "direct-tls"]


class MarkServerTLS(tunnel.TunnelLayer):
    """stands in for ServerTLSLayer: no handshake bytes, data copied unchanged"""

    def __init__(self, context, conn=None):
        conn = conn or context.server
        super().__init__(context, tunnel_connection=conn, conn=conn)
        conn.tls = True

    def receive_handshake_data(self, data):
        self.conn.timestamp_tls_setup = 1700000002.0
        yield from ()
        return True, None


class MarkClientTLS(tunnel.TunnelLayer):
    """stands in for ClientTLSLayer: waits for the HELLO marker, then copies data unchanged"""

    def __init__(self, context):
        super().__init__(context, tunnel_connection=context.client, conn=context.client)
        context.client.tls = True
        self.server_tls_available = len(self.context.layers) >= 2 and isinstance(self.context.layers[-2], MarkServerTLS)
        self.buf = b""

    def start_handshake(self):
        yield from ()

    def receive_handshake_data(self, data):
        self.buf += data
        if len(self.buf) < len(HELLO):
            return False, None
        if not self.buf.startswith(HELLO):
            return False, "not the marker hello"
        rest, self.buf = self.buf[len(HELLO):], b""
        srv = self.context.server
        if (self.context.options.connection_strategy == "eager" and srv.tls and not srv.tls_established
                and self.server_tls_available and srv.address):
            yield commands.OpenConnection(srv)
        self.conn.sni = ORIGIN
        self.conn.timestamp_tls_setup = 1700000003.0
        if rest:
            yield from self.receive_data(rest)
        return True, None


_PATCH = [(tls_mod, "ServerTLSLayer", MarkServerTLS), (tls_mod, "ClientTLSLayer", MarkClientTLS),
          (layers_pkg, "ServerTLSLayer", MarkServerTLS), (layers_pkg, "ClientTLSLayer", MarkClientTLS),
          (nl_mod, "ServerTLSLayer", MarkServerTLS), (nl_mod, "ClientTLSLayer", MarkClientTLS)]


def _make_options(auth, strategy):
    opts = sansio.make_options()

    class _M:
        options = opts
        commands = None

    ua = upstream_auth.UpstreamAuth()
    ua.load(Loader(_M()))
    opts.update(connection_strategy=strategy, upstream_auth=(CRED if auth else None))
    return opts, ua


def _heads(buf: bytes):
    """independent split of a byte stream written to one connection: complete heads + remainder"""
    out = []
    while True:
        i = buf.find(b"\r\n\r\n")
        if i < 0:
            break
        out.append(buf[: i + 4])
        buf = buf[i + 4:]
    return out, buf


def _request_line(head: bytes):
    line = head.split(b"\r\n", 1)[0]
    parts = line.split(b" ")
    return (parts[0], parts[1] if len(parts) > 1 else b"")


def _header_names_with(head: bytes, needle: bytes):
    names = []
    for ln in head.split(b"\r\n")[1:]:
        if needle in ln:
            names.append(ln.split(b":", 1)[0].strip().lower())
    return names


def _opt(X, name, menu, default):
    """selector that only exists in the thorough tier; a witness recorded in the quick tier replays with the quick value"""
    try:
        return X.choose(name, menu)
    except KeyError:
        return default


def h_modes(X, mode_names, scenarios, thorough=False):
    mode_name = X.choose("mode", mode_names)
    scenario = X.choose("scenario", scenarios)
    auth = X.boolean("upstream_auth_set")
    strategy = X.choose("connection_strategy", ["eager", "lazy"])
    proxy_mode = mode_name in ("regular", "upstream:http", "upstream:https")
    form = X.choose("request_form", ["absolute", "origin", "absolute-https"]) if (proxy_mode and scenario in ("plain", "direct-tls")) else "origin"
    second = X.choose("second_request", ["none", "same-host", "other-host"] + (["same-host-port-other-scheme"] if form in ("absolute", "absolute-https") else []))
    third = _opt(X, "third_request", ["none", "same-host", "other-host"], "none") if (thorough and second != "none") else "none"
    keep_host = _opt(X, "keep_host_header", [False, True], False) if thorough else False
    connect_host_hdr = _opt(X, "http_connect_send_host_header", [True, False], True) if thorough else True

    opts, ua = _make_options(auth, strategy)
    if thorough:
        opts.update(keep_host_header=keep_host, http_connect_send_host_header=connect_host_hdr)
    nla = nl_mod.NextLayer()
    saved_opts = getattr(mctx, "options", None)
    saved = [(m, n, getattr(m, n)) for m, n, _ in _PATCH]
    mctx.options = opts
    for m, n, v in _PATCH:
        setattr(m, n, v)
    try:
        ua.configure({"upstream_auth"})
        nla.configure({"tcp_hosts", "udp_hosts", "allow_hosts", "ignore_hosts"})
        ctx = sansio.make_context(opts, mode=MODES[mode_name])
        if mode_name == "transparent":
            port = 443 if scenario in ("tunnel-https", "direct-tls") else 80
            ctx.server.address = (ORIGIN_IP, port)
            top = modes.TransparentProxy(ctx)
        elif mode_name == "socks5":
            top = modes.Socks5Proxy(ctx)
        elif mode_name == "regular":
            top = modes.HttpProxy(ctx)
        elif mode_name.startswith("upstream"):
            top = modes.HttpUpstreamProxy(ctx)
        else:
            top = modes.ReverseProxy(ctx)
        d = sansio.Driver(top, ctx)

        def on_hook(hook):
            for addon in (nla, ua):
                f = getattr(addon, hook.name, None)
                if f is not None:
                    f(*hook.args())
            return True

        d.on_hook = on_hook
        answered = {}

        def respond():
            """play upstream proxy / origin until nothing new was written"""
            progress = True
            while progress:
                progress = False
                for conn in list(d.sent):
                    if conn is ctx.client:
                        continue
                    heads, _ = _heads(bytes(d.sent[conn]))
                    k = answered.get(conn, 0)
                    if len(heads) > k:
                        answered[conn] = k + 1
                        progress = True
                        if _request_line(heads[k])[0] == b"CONNECT":
                            d.data(conn, b"HTTP/1.1 200 Connection established\r\n\r\n")
                        else:
                            d.data(conn, b"HTTP/1.1 200 OK\r\nContent-Length: 2\r\n\r\nok")

        def client(data):
            d.data(ctx.client, data)
            respond()

        def req(host, path, form_):
            target = f"http://{host}{path}" if form_ == "absolute" else (f"https://{host}{path}" if form_ == "absolute-https" else path)
            return f"GET {target} HTTP/1.1\r\nHost: {host}\r\n\r\n".encode()

        d.start()
        respond()
        if mode_name == "socks5":
            port = 443 if scenario in ("tunnel-https", "direct-tls") else 80
            client(b"\x05\x01\x00")
            client(b"\x05\x01\x00\x03" + bytes([len(ORIGIN)]) + ORIGIN.encode() + port.to_bytes(2, "big"))
        if scenario == "plain":
            client(req(ORIGIN, "/a", form))
        elif scenario == "tunnel-http":
            client(f"CONNECT {ORIGIN}:80 HTTP/1.1\r\nHost: {ORIGIN}:80\r\n\r\n".encode())
            client(req(ORIGIN, "/t", "origin"))
        elif scenario == "tunnel-https":
            client(f"CONNECT {ORIGIN}:443 HTTP/1.1\r\nHost: {ORIGIN}:443\r\n\r\n".encode())
            client(HELLO)
            client(req(ORIGIN, "/s", "origin"))
        else:
            client(HELLO)
            client(req(ORIGIN, "/d", form))
        if second == "same-host-port-other-scheme":
            # same host AND port as the first request, but the other scheme: must not travel on the first request's connection
            if form == "absolute-https":
                client(req(ORIGIN + ":443", "/2", "absolute"))
            else:
                client(req(ORIGIN + ":80", "/2", "absolute-https"))
            X.reach("scheme-switch-same-port")
        elif second != "none":
            client(req(ORIGIN if second == "same-host" else OTHER, "/2", form))
        if third != "none":
            client(req(ORIGIN if third == "same-host" else OTHER, "/3", form))
    finally:
        for m, n, v in saved:
            setattr(m, n, v)
        mctx.options = saved_opts

    X.reach("ran")
    # ---- attribution + oracle (independent of mitmproxy's bookkeeping: raw bytes per connection object)
    reverse_addr = {"reverse:http": TARGET, "reverse:https": TARGET_TLS}.get(mode_name)
    is_upstream = mode_name.startswith("upstream")
    tunnel_conns = set()
    per_conn_seen = {}
    n_req_heads = 0
    for conn, data in d.sent_log:
        if conn is ctx.client:
            for nd in NEEDLES:
                X.check(nd not in data, f"C24/leak/{mode_name}/to-client", f"credential bytes written to the client: {data[:200]!r}")
            continue
        addr = tuple(conn.address[:2]) if conn.address else None
        role = "upstream-proxy" if (is_upstream and addr == PROXY) else ("reverse-target" if (reverse_addr and addr == reverse_addr) else "origin")
        buf = per_conn_seen.get(conn, b"") + data
        heads, rest = _heads(buf)
        per_conn_seen[conn] = rest
        pieces = heads + ([rest] if rest else [])
        for piece in pieces:
            in_tunnel = conn in tunnel_conns
            method, target = _request_line(piece)
            has = [nd for nd in NEEDLES if nd in piece]
            if piece in heads:
                n_req_heads += 1
            if has:
                hdrs = _header_names_with(piece, has[0])
                where = f"{role}/{'inside-tunnel' if in_tunnel else 'outside-tunnel'}/{method.decode('latin-1')}"
                ok = False
                if role == "upstream-proxy" and not in_tunnel and hdrs == [b"proxy-authorization"]:
                    ok = True  # CONNECT head or plain request head to the proxy itself
                    X.reach("cred-in-connect" if method == b"CONNECT" else "cred-in-plain-request-to-proxy")
                elif role == "reverse-target" and hdrs == [b"authorization"]:
                    ok = True
                    X.reach("cred-to-reverse-target")
                if not ok:
                    X.fail(f"C24/leak/{mode_name.split(':')[0]}/{role}/{'inside-tunnel' if in_tunnel else 'outside-tunnel'}/{scenario}",
                           f"mode {mode_name}, scenario {scenario}: credential in headers {hdrs} of {piece[:160]!r} written to {addr} ({where})",
                           sent=[(str(c.address if c is not ctx.client else 'client'), b.decode('latin-1')) for c, b in d.sent_log])
            if piece in heads and method == b"CONNECT" and not in_tunnel:
                tunnel_conns.add(conn)
    if n_req_heads:
        X.reach("request-forwarded")
    if tunnel_conns:
        X.reach("tunnel-opened")
    X.note("sent", [(str(c.address) if c is not ctx.client else "client", len(b)) for c, b in d.sent_log][:8])


def obligations(tier):
    stubs = ["ServerTLSLayer/ClientTLSLayer -> pass-through marker layers", "mitmproxy.ctx.options -> harness Options", "upstream side played by the harness"]
    names = list(MODES)
    return [
        Symx("credential-routing", lambda X: h_modes(X, names, SCENARIOS, tier != "quick"),
             bounds=f"{len(names)} modes {names} x scenarios {SCENARIOS} x upstream_auth set/unset x connection_strategy eager/lazy x "
                    "request form absolute http / origin / absolute https (proxy modes) x follow-up request none/same host/other host"
                    + (" x third request none/same/other x keep_host_header x http_connect_send_host_header" if tier != "quick" else "") + "; HTTP/1.1, no bodies",
             encoded=ENCODED, must_reach=["ran", "request-forwarded", "tunnel-opened", "cred-in-connect", "cred-in-plain-request-to-proxy", "cred-to-reverse-target"],
             stubs=stubs, parallel_depth=2),
    ]
