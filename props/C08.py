"""C08 — upstream connection reuse never sends a request to the wrong destination.

Obligations (engine symx; ports are symbolic ints in the kernels, everything structural is a solver-enumerated
selector and the real layers run natively per path):
  spec-matches-kernel   real GetHttpConnection.connection_spec_matches on a command / connection pair whose ports
                        (address port and upstream-proxy port) are symbolic 16-bit ints and whose host / tls / via /
                        transport / connection class are selectors: matches <=> Server and all four attributes equal
  setattr-kernel        real Server.__setattr__: for every connection state, changing address / via (new port
                        symbolic) on an OPEN connection raises and leaves the attribute untouched
  history-*             real HttpLayer (+Http1Server/Http2Server, HttpClient, Http1Client/Http2Client,
                        HttpUpstreamProxy) driven through histories of k requests on ONE client connection.  The
                        destination named by the client, what an "addon" rewrites in requestheaders (host, port,
                        scheme, server_conn.via), the outcome of every OpenConnection, and what the origin does after
                        each request head (respond, respond and close, close) are selectors.
Oracle (history): the destination of request i is read in the `request` hook - the last point before forwarding -
as (host, port), scheme == https, flow.server_conn.via, transport.  (a) wire level: the bytes of request head i are
written to a connection that leads there: directly to that address without tunnel, or to the upstream proxy `via`
after a CONNECT naming host:port (or, plain http in upstream mode, as a request that names it in its absolute-form
target or - weaker reading, the property speaks about connections only - in its Host header);
(b) flow.server_conn, once the response arrives, carries exactly (address, tls, via, transport) of the destination;
(c) no head is ever written to a connection whose establishment failed / that has .error set / that is not
writable any more; (d) each head is written at most once.
"""
import re
import types

from mitmproxy import connection
from mitmproxy.connection import ConnectionState
from mitmproxy.connection import Server
from mitmproxy.proxy import commands
from mitmproxy.proxy import tunnel
from mitmproxy.proxy.layers import http as H
from mitmproxy.proxy.layers import tls as real_tls
from mitmproxy.proxy.layers.http import GetHttpConnection
from mitmproxy.proxy.layers.http import HTTPMode

from vf import sansio
from vf.ob import Symx

LEVEL = "model_checking"
ASSUMPTIONS = [
    "ServerTLSLayer is replaced (inside mitmproxy.proxy.layers.http only) by a transparent tunnel whose handshake succeeds at once, "
    "sets conn.tls = True exactly like TLSLayer.__init__ and negotiates the ALPN the harness chose; TLS itself is C14/C15/C18",
    "the environment is vf/sansio.Driver, which keeps connection state flags like mitmproxy/proxy/server.py does",
    "upstream proxies are plain-http proxies that answer CONNECT with 200; origins answer 200 with an empty body",
    "requests carry no body and are not streamed, so the `request` hook is the last addon hook before the head is written",
]
OUTSIDE = ["more than the stated number of requests per client connection", "HTTP/3 / QUIC upstream connections (transport udp only in the kernel)",
           "https:// upstream proxies", "client replay injecting connections", "CONNECT tunnels opened by the client (C19/C24)"]
ENCODED = [
    "mitmproxy.proxy.layers.http:GetHttpConnection.connection_spec_matches",
    "mitmproxy.connection:Server.__setattr__",
    "mitmproxy.proxy.layers.http:HttpLayer.get_connection",
    "mitmproxy.proxy.layers.http:HttpLayer.register_connection",
    "mitmproxy.proxy.layers.http:HttpLayer.event_to_child",
    "mitmproxy.proxy.layers.http:HttpLayer._handle_event",
    "mitmproxy.proxy.layers.http:HttpClient._handle_event",
    "mitmproxy.proxy.layers.http:HttpStream.make_server_connection",
    "mitmproxy.proxy.layers.http._upstream_proxy:HttpUpstreamProxy.start_handshake",
    "mitmproxy.proxy.layers.http._http1:Http1Client.send",
    "mitmproxy.proxy.layers.http._http2:Http2Client._handle_event",
]

HOSTS = ["a.test", "b.test"]
PORTS = [8001, 8002]
PROXIES = ["proxy1.test", "proxy2.test"]
PROXY_PORT = 3128
MODE_SPEC = {"regular": "regular", "upstream": "upstream:http://proxy0.test:3128", "transparent": "transparent"}

# ------------------------------------------------------------------------------------------
# (i) kernels


def _via(X, tag):
    k = X.choose(f"{tag}_via", ["none", "http-p1", "https-p1", "http-p2"])
    if k == "none":
        return None, None
    scheme, host = {"http-p1": ("http", PROXIES[0]), "https-p1": ("https", PROXIES[0]), "http-p2": ("http", PROXIES[1])}[k]
    port = X.int(f"{tag}_via_port", 0, 65535)
    return (scheme, (host, port)), (scheme, host, port)


def _eq_via(a, b):
    if a is None or b is None:
        return a is None and b is None
    return a[0] == b[0] and a[1] == b[1] and bool(a[2] == b[2])


def h_kernel(X):
    ch, kh = X.choose("cmd_host", HOSTS), X.choose("conn_host", HOSTS)
    cp, kp = X.int("cmd_port", 0, 65535), X.int("conn_port", 0, 65535)
    ct, kt = X.boolean("cmd_tls"), X.boolean("conn_tls")
    cvia, cv = _via(X, "cmd")
    kvia, kv = _via(X, "conn")
    ctr, ktr = X.choose("cmd_transport", ["tcp", "udp"]), X.choose("conn_transport", ["tcp", "udp"])
    kind = X.choose("conn_kind", ["server", "client"])
    cmd = GetHttpConnection((ch, cp), ct, cvia, ctr)
    if kind == "server":
        conn = Server(address=(kh, kp), via=kvia, transport_protocol=ktr, tls=kt)
    else:
        conn = connection.Client(peername=(kh, kp), sockname=("127.0.0.1", 8080), transport_protocol=ktr, tls=kt)
    got = cmd.connection_spec_matches(conn)
    X.check(got is True or got is False, "C08/kernel/not-a-bool", f"connection_spec_matches returned {got!r}")
    # reference: a Server, and address, tls, via, transport_protocol all equal (decided for every port value:
    # the ports stay symbolic, the comparison inside the real code splits the path into equal / different)
    exp = (kind == "server" and ch == kh and bool(cp == kp) and ct == kt and _eq_via(cv, kv) and ctr == ktr)
    X.reach("decided")
    if got:
        X.reach("matched")
    if got != exp:
        what = "matches-different-spec" if got else "rejects-equal-spec"
        X.fail(f"C08/kernel/{what}", f"cmd=({ch},{cp},{ct},{cvia},{ctr}) conn[{kind}]=({kh},{kp},{kt},{kvia},{ktr}): matches={got}, all-equal={exp}")


def h_setattr(X):
    state = X.choose("state", [ConnectionState.CLOSED, ConnectionState.CAN_READ, ConnectionState.CAN_WRITE, ConnectionState.OPEN])
    attr = X.choose("attr", ["address", "via"])
    p0 = X.int("port", 0, 65535)
    v0 = None
    if X.boolean("has_via"):
        v0 = ("http", (PROXIES[0], X.int("via_port", 0, 65535)))
    s = Server(address=(HOSTS[0], p0), via=v0)
    s.state = state
    old = getattr(s, attr)
    if attr == "address":
        nh, np_ = X.choose("new_host", HOSTS), X.int("new_port", 0, 65535)
        new = (nh, np_)
        changed = not (nh == HOSTS[0] and bool(np_ == p0))
    else:
        k = X.choose("new_via", ["none", "http-p1", "https-p1", "http-p2"])
        if k == "none":
            new = None
            changed = v0 is not None
        else:
            scheme, host = {"http-p1": ("http", PROXIES[0]), "https-p1": ("https", PROXIES[0]), "http-p2": ("http", PROXIES[1])}[k]
            nvp = X.int("new_via_port", 0, 65535)
            new = (scheme, (host, nvp))
            changed = not (v0 is not None and scheme == "http" and host == PROXIES[0] and bool(nvp == v0[1][1]))
    try:
        setattr(s, attr, new)
        raised = False
    except RuntimeError:
        raised = True
    now = getattr(s, attr)
    X.reach("decided")
    # the property's word is "open"; the weaker reading is used: fully OPEN (Connection.connected).  For
    # half-closed connections nothing is demanded (noted only).
    if state is ConnectionState.OPEN and changed:
        X.reach("open-change")
        X.check(raised, f"C08/setattr/open-{attr}-change-accepted", f"server.{attr} changed from {old!r} to {new!r} on an OPEN connection without an error")
        X.check(now is old, f"C08/setattr/open-{attr}-changed-despite-error", f"server.{attr} is {now!r} after the refused assignment")
    elif state is ConnectionState.CLOSED and changed:
        if not raised:
            X.reach("closed-change-allowed")
    elif changed and not raised:
        X.note("half-closed-change-accepted", str(state))


# ------------------------------------------------------------------------------------------
# (ii) histories

_ALPN = [None]


class _StubTLS(tunnel.TunnelLayer):
    """contract stub for ServerTLSLayer (see ASSUMPTIONS)"""

    def __init__(self, context, conn=None):
        conn = conn or context.server
        super().__init__(context, tunnel_connection=conn, conn=conn)
        conn.tls = True

    def receive_handshake_data(self, data):
        yield from ()
        self.conn.alpn = _ALPN[0]
        self.conn.timestamp_tls_setup = 1700000002.0
        return True, None


_OPTS = None


def _opts():
    global _OPTS
    if _OPTS is None:
        _OPTS = sansio.make_options()
    return _OPTS


_H1_HEAD = re.compile(rb"^GET (\S*?)/r(\d+) HTTP/1\.1\r\n")
_RESP = b"HTTP/1.1 200 OK\r\nContent-Length: 0\r\n\r\n"


def _other(v, menu):
    return menu[1 - menu.index(v)] if v in menu else menu[0]


def h_history(X, cfg):
    saved = H.tls
    shim = types.ModuleType("tls_shim")
    shim.__dict__.update({k: v for k, v in vars(real_tls).items() if not k.startswith("__")})
    shim.ServerTLSLayer = _StubTLS
    H.tls = shim
    try:
        _history(X, cfg)
    finally:
        H.tls = saved
        _ALPN[0] = None


def _history(X, cfg):
    K = cfg["k"]
    client_h2 = cfg.get("client_h2", False)
    mode = X.choose("mode", cfg["modes"])
    _ALPN[0] = b"h2" if (client_h2 and X.choose("upstream_alpn", cfg["upstream_alpn"]) == "h2") else None
    ctx = sansio.make_context(_opts(), mode=MODE_SPEC[mode])
    if client_h2:
        ctx.client.alpn = b"h2"
        ctx.client.tls = True
    if mode == "transparent":
        ctx.server.address = (HOSTS[0], PORTS[0])
        if X.choose("preconnected", cfg.get("preconnected", [False])):
            ctx.server.state = ConnectionState.OPEN
            ctx.server.peername = ctx.server.address
            ctx.server.timestamp_start = 1700000000.5
    layer = H.HttpLayer(ctx, HTTPMode[mode])
    d = sansio.Driver(layer, ctx)

    dest, flows, outcome = {}, {}, {}
    heads = {}  # i -> connection the head was written to
    failed = set()
    pst = {}  # physical connection -> {"tunnel": authority|None, "h2": H2Peer|None}
    pos = [0]

    def idx(f):
        m = re.search(r"/r(\d+)$", f.request.path)
        return int(m.group(1))

    def on_hook(hook):
        name = hook.name
        if name not in ("requestheaders", "request", "response", "error"):
            return True
        f = hook.args()[0]
        i = idx(f)
        if name == "requestheaders":
            flows[i] = f
            act = X.choose("addon", cfg["addon"])
            try:
                if act == "host":
                    f.request.host = _other(f.request.host, HOSTS)
                elif act == "port":
                    f.request.port = _other(f.request.port, PORTS)
                elif act == "scheme":
                    f.request.scheme = "https" if f.request.scheme == "http" else "http"
                elif act == "via1":
                    f.server_conn.via = ("http", (PROXIES[0], PROXY_PORT))
                elif act == "via2":
                    f.server_conn.via = ("http", (PROXIES[1], PROXY_PORT))
                elif act == "via-none":
                    f.server_conn.via = None
                elif act == "replace-via2":
                    # examples/contrib/change_upstream_proxy.py: an open connection cannot be modified, so the addon
                    # replaces flow.server_conn by a fresh Server that names the other proxy
                    from mitmproxy.connection import Server as _Server
                    f.server_conn = _Server(address=f.server_conn.address)
                    f.server_conn.via = ("http", (PROXIES[1], PROXY_PORT))
                if act != "none":
                    X.reach("addon-rewrite")
            except RuntimeError:
                X.reach("addon-change-refused")  # Server.__setattr__ guard on an open connection: the addon gets the exception
        elif name == "request":
            dest[i] = ((f.request.host, f.request.port), f.request.scheme == "https", f.server_conn.via, f.server_conn.transport_protocol)
        elif name == "response":
            outcome[i] = "response"
            sc = f.server_conn
            got = (sc.address, bool(sc.tls), sc.via, sc.transport_protocol)
            X.check(i in dest and got == dest[i], "C08/history/flow-server-conn-mismatch",
                    f"request {i}: destination at forwarding time {dest.get(i)} but flow.server_conn is {got}")
            if dest[i][2] is None:
                X.check(heads.get(i) is sc, "C08/history/head-not-on-flow-connection", f"request {i}: head was written to {heads.get(i)!r}, flow.server_conn is {sc!r}")
        elif name == "error":
            outcome[i] = "error"
        return True

    def on_open(cmd):
        if X.choose("open", cfg["open"]) == "error":
            failed.add(id(cmd.connection))
            X.reach("open-failed")
            return "connection refused"
        return None

    d.on_hook = on_hook
    d.on_open = on_open

    def on_head(i, conn, target, writable, host_header=None):
        X.reach("head-written")
        st = pst[conn]
        X.check(i in dest, "C08/history/head-before-request-hook", f"head of request {i} written before its request hook")
        X.check(i not in heads, "C08/history/head-written-twice", f"head of request {i} written to {heads.get(i)!r} and again to {conn!r}")
        heads[i] = conn
        addr, tls, via, tr = dest[i]
        if failed:
            X.reach("head-after-a-failure")
        X.check(id(conn) not in failed and not conn.error, "C08/history/head-to-failed-connection",
                f"head of request {i} written to {conn!r} whose establishment failed ({conn.error!r})")
        X.check(writable, "C08/history/head-to-closed-connection", f"head of request {i} written to {conn!r} which is not writable (state {conn.state})")
        if via is None:
            ok = (conn.address == addr and conn.via is None and bool(conn.tls) == tls and conn.transport_protocol == tr and st["tunnel"] is None)
            X.check(ok, "C08/history/misrouted-direct",
                    f"request {i} for {addr} tls={tls} via=None written to connection address={conn.address} tls={conn.tls} via={conn.via} tunnel={st['tunnel']}")
        else:
            X.reach("head-via-proxy")
            ok = conn.address == via[1] and conn.transport_protocol == tr
            if st["tunnel"] is not None:
                ok = ok and st["tunnel"] == f"{addr[0]}:{addr[1]}".encode()
            else:
                authority = f"{addr[0]}:{addr[1]}".encode()
                names_dest = target == b"http://" + authority or (target == b"" and host_header == authority)
                if target == b"":
                    X.reach("origin-form-to-upstream-proxy")
                ok = ok and mode == "upstream" and not tls and names_dest
            X.check(ok, "C08/history/misrouted-via",
                    f"request {i} for {addr} tls={tls} via={via} written to proxy connection {conn.address} tunnel={st['tunnel']} target={target}")
        if len([1 for c in heads.values() if c is conn]) > 1:
            X.reach("connection-reused")

    def origin_reacts(conn, i, h2peer=None, sid=None):
        act = X.choose("origin", cfg["origin"])
        if act in ("respond", "respond-close"):
            if h2peer is not None:
                d.data(conn, h2peer.respond(sid, 200))
            else:
                d.data(conn, _RESP)
        if act in ("respond-close", "close"):
            X.reach("origin-closed")
            d.close(conn)

    def on_server_bytes(conn, data, writable):
        st = pst.setdefault(conn, {"tunnel": None, "h2": None})
        if st["h2"] is None and data.startswith(b"PRI * HTTP/2.0"):
            from vf.refs.h2peer import H2Peer

            st["h2"] = H2Peer(client_side=False)
            d.data(conn, st["h2"].start())
        if st["h2"] is not None:
            import h2.events

            p = st["h2"]
            evs = p.feed(data)
            out = p.flush()
            if out and conn.state & ConnectionState.CAN_READ:
                d.data(conn, out)
            for e in evs:
                if isinstance(e, h2.events.RequestReceived):
                    hs = dict(e.headers)
                    m = re.search(rb"/r(\d+)$", hs[b":path"])
                    X.reach("head-on-h2-upstream")
                    on_head(int(m.group(1)), conn, None, writable)
                    origin_reacts(conn, int(m.group(1)), p, e.stream_id)
            return
        if data.startswith(b"CONNECT "):
            st["tunnel"] = data.split(b" ")[1]
            if writable:
                d.data(conn, b"HTTP/1.1 200 Connection established\r\n\r\n")
            return
        m = _H1_HEAD.match(data)
        if m:
            i = int(m.group(2))
            hh = re.search(rb"\r\nhost:[ \t]*([^\r\n]*?)[ \t]*\r\n", data, re.I)
            on_head(i, conn, m.group(1), writable, hh.group(1) if hh else None)
            if writable:
                origin_reacts(conn, i)
            return
        raise AssertionError(f"harness: unexpected bytes to {conn!r}: {data[:80]!r}")

    def pump():
        while True:
            while pos[0] < len(d.trace):
                c = d.trace[pos[0]]
                pos[0] += 1
                if isinstance(c, commands.SendData) and c.connection is not ctx.client:
                    # writable at the time of the write: the driver only records writes to writable connections
                    on_server_bytes(c.connection, bytes(c.data), id(c) in _written)
            if d.pending_opens:
                cmd = d.pending_opens[0]
                d.complete_open(cmd, on_open(cmd))
                continue
            break

    # the driver drops writes to non-writable connections; remember which SendData commands were accepted
    _written = set()
    orig_exec = d._exec

    def _exec(cmd):
        if isinstance(cmd, commands.SendData) and (cmd.connection.state & ConnectionState.CAN_WRITE or cmd.connection is ctx.client):
            _written.add(id(cmd))
        orig_exec(cmd)

    d._exec = _exec

    cp = None
    csent = [0]

    def sync_client():
        buf = d.sent_to(ctx.client)
        new = buf[csent[0]:]
        csent[0] = len(buf)
        if new:
            cp.feed(new)
        out = cp.flush()
        if out and ctx.client.state & ConnectionState.CAN_READ:
            d.data(ctx.client, out)

    d.start()
    if client_h2:
        from vf.refs.h2peer import H2Peer

        cp = H2Peer(client_side=True)
        d.data(ctx.client, cp.start())
        sync_client()
    concurrent = client_h2 and X.choose("concurrent", cfg.get("concurrent", [False]))
    if concurrent:
        d.defer_open = True

    named = {}
    for i in range(K):
        if not (ctx.client.state & ConnectionState.CAN_READ):
            break
        if mode == "transparent":
            host, port, scheme = HOSTS[0], PORTS[0], "http"
        else:
            host, port, scheme = X.choose("dest", cfg["dests"])
        named[i] = (host, port, scheme)
        if client_h2:
            d.data(ctx.client, cp.request(2 * i + 1, [(":method", "GET"), (":scheme", scheme), (":authority", f"{host}:{port}"), (":path", f"/r{i}")]))
        elif mode == "transparent":
            d.data(ctx.client, f"GET /r{i} HTTP/1.1\r\nHost: {host}:{port}\r\n\r\n".encode())
        else:
            d.data(ctx.client, f"GET {scheme}://{host}:{port}/r{i} HTTP/1.1\r\nHost: {host}:{port}\r\n\r\n".encode())
        if not concurrent:
            pump()
            if client_h2:
                sync_client()
            if i not in outcome:
                raise AssertionError(f"harness: request {i} has neither a response nor an error (hooks {d.hook_names})")
            if outcome[i] == "response":
                X.reach("request-completed")
    if concurrent:
        X.reach("concurrent")
        pump()
        sync_client()
        for i in named:
            if i not in outcome:
                raise AssertionError(f"harness: concurrent request {i} has neither a response nor an error (hooks {d.hook_names})")
    # every completed request had its head written exactly once; every failed one (connection failure) none
    for i, o in outcome.items():
        if o == "response":
            X.check(i in heads, "C08/history/response-without-head", f"request {i} got a response but its head was never seen on a server connection")
    X.reach("end")


# ------------------------------------------------------------------------------------------


def _dests(hosts=HOSTS, ports=PORTS, schemes=("http", "https")):
    return [(h, p, s) for h in hosts for p in ports for s in schemes]


def obligations(tier):
    q = tier == "quick"
    full_addon = ["none", "host", "port", "scheme", "via1", "via-none"] if q else ["none", "host", "via1"]
    up_addon = full_addon + ["replace-via2"]
    origin_q = ["respond", "respond-close"]
    origin_all = ["respond", "respond-close", "close"]
    cfgs = {
        "history-h1-regular": dict(k=2 if q else 3, modes=["regular"], dests=_dests(), addon=full_addon, open=["ok", "error"], origin=origin_q),
        "history-h1-upstream": dict(k=2 if q else 3, modes=["upstream"], dests=_dests(), addon=up_addon, open=["ok", "error"], origin=origin_q),
        "history-h1-transparent": dict(k=3, modes=["transparent"], preconnected=[False, True], dests=[],
                                       addon=["none", "host", "port", "scheme", "via1", "via2", "via-none"], open=["ok", "error"], origin=origin_all),
        "history-h1-deep": dict(k=3 if q else 5, modes=["regular", "upstream"], dests=_dests(schemes=("http",)) if q else _dests(ports=PORTS[:1], schemes=("http",)),
                                addon=["none", "host"], open=["ok", "error"] if q else ["ok"], origin=origin_q),
        "history-h2-client": dict(k=2 if q else 3, client_h2=True, modes=["regular", "upstream"], upstream_alpn=["h1", "h2"], concurrent=[False, True],
                                  dests=_dests(ports=PORTS[:1]), addon=["none", "host", "via1"] if q else ["none", "host"], open=["ok", "error"], origin=["respond"]),
    }
    hist_enc = ENCODED[2:]
    stubs = ["mitmproxy.proxy.layers.http.tls.ServerTLSLayer -> transparent tunnel stub (handshake succeeds, harness-chosen ALPN)"]

    def desc(c):
        return (f"every history of {c['k']} requests on one {'HTTP/2' if c.get('client_h2') else 'HTTP/1'} client connection; modes {c['modes']}; "
                + (f"client-named destination from {len(c['dests'])} (host x port x scheme); " if c["dests"] else "destination = the intercepted address (lazy or already connected); ")
                + f"addon action in requestheaders from {c['addon']}; OpenConnection outcome {c['open']}; origin behaviour {c['origin']}"
                + (f"; upstream ALPN {c['upstream_alpn']}; sequential or all-concurrent with deferred connection establishment" if c.get("client_h2") else ""))

    reach = {
        "history-h1-regular": ["end", "head-written", "connection-reused", "head-via-proxy", "addon-rewrite", "open-failed", "origin-closed", "request-completed"],
        "history-h1-upstream": ["end", "head-written", "connection-reused", "head-via-proxy", "addon-rewrite", "open-failed", "origin-closed", "request-completed"],
        "history-h1-transparent": ["end", "head-written", "connection-reused", "addon-rewrite", "addon-change-refused", "open-failed", "origin-closed", "request-completed"],
        "history-h1-deep": ["end", "head-written", "connection-reused", "request-completed", "open-failed"] if q else ["end", "head-written", "connection-reused", "request-completed"],
        "history-h2-client": ["end", "head-written", "open-failed", "head-after-a-failure", "head-on-h2-upstream", "concurrent", "request-completed", "connection-reused"],
    }
    obs = [
        Symx("spec-matches-kernel", h_kernel, bounds="all 2^16 x 2^16 address ports and 2^16 x 2^16 upstream-proxy ports (symbolic) x 2 hosts^2 x tls^2 x 4 via^2 x {tcp,udp}^2 x {Server, Client}",
             encoded=ENCODED[:1], must_reach=["decided", "matched"], parallel_depth=4),
        Symx("setattr-kernel", h_setattr, bounds="4 connection states x {address, via} x old/new ports symbolic (all 2^16 values) x host / proxy / scheme change selectors",
             encoded=ENCODED[1:2], must_reach=["decided", "open-change", "closed-change-allowed"]),
    ]
    for name, c in cfgs.items():
        obs.append(Symx(name, (lambda c: lambda X: h_history(X, c))(c), bounds=desc(c), encoded=hist_enc, stubs=stubs, must_reach=reach[name], parallel_depth=4))
    return obs
