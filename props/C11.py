"""C11 — intercepted flows are held until resumed, killed flows are never forwarded.

Interception is modelled the way the proxy core sees it: the `HookCompleted` for the intercepted hook is
*withheld* (in production `ProxyConnectionHandler.handle_hook` awaits `flow.wait_for_resume()` before it
completes the hook).  Engine symx: the real layers run natively, the solver enumerates the protocol, which
hook / direction is intercepted, what arrives meanwhile and how the interception is resolved.

  flow-state-machine   every sequence of <= N operations {intercept, resume, kill, start a waiter, step the waiters}
                       on a real `Flow`; `wait_for_resume` coroutines are stepped by hand (asyncio.Event replaced by a
                       loop-free stub with the documented set/clear/wait semantics).  Spec: a waiter started while the
                       flow is intercepted does not finish before resume() or kill(); after resume() or kill() every
                       waiter finishes at its next step; a waiter on a flow that is not intercepted finishes at once;
                       kill() leaves error = KILLED, live = False, intercepted = False.
  hold-<protocol>      HTTP/1 request hook, HTTP/1 response hook, HTTP/2 (two streams, request or response hook of stream
                       A), WebSocket message, TCP message, UDP datagram, DNS query.  Every message carries a unique marker.
                       While the hook is pending: no SendData to the destination contains the marker, whatever arrives
                       meanwhile (more data on the same flow, data from the other side / on the other stream, either peer
                       closing); for HTTP/2 the other stream's request is forwarded and its response delivered meanwhile.
                       Then resume unchanged / resume after editing the message / kill:
                         resume -> the (edited) message reaches the destination exactly once (at most once if a peer closed
                                   meanwhile), the original marker never if it was edited, and before later data of the flow;
                         kill   -> neither marker ever reaches the destination, nothing further of the flow is relayed
                                   (opaque relays: not a single byte, including data that arrives after the kill),
                                   flow.error is set, and the protocol's error hook fires (HTTP request side, TCP, UDP, DNS).
"""
import struct

import h2.config
import h2.connection
import h2.events
import h2.exceptions

from mitmproxy import flow as mflow
from mitmproxy import http as mhttp
from mitmproxy import websocket as mws
from mitmproxy.connection import ConnectionState, Server
from mitmproxy.proxy.layers import dns as dns_layer
from mitmproxy.proxy.layers import http, tcp, udp, websocket
from mitmproxy.proxy.layers.http import HTTPMode

from vf import sansio
from vf.ob import Symx

LEVEL = "model_checking"
ASSUMPTIONS = [
    "interception = the hook's HookCompleted is withheld until the harness resolves it (what handle_hook does by awaiting flow.wait_for_resume())",
    "kill during interception = flow.kill() followed by the completion of the pending hook (i.e. the waiter is woken; whether Flow.kill() "
    "really wakes it is decided separately by obligation flow-state-machine)",
    "edits are what an interactive user can do: replace the message content / query name",
    "asyncio.Event is replaced by a loop-free stub with the documented semantics (set, clear, wait blocks until set)",
    "weak reading of 'resume forwards exactly once': if one of the peers closed its connection while the flow was held, not forwarding is accepted (at most once)",
    "weak reading of 'ends it with an error': flow.error is set; an error hook is demanded only where the layer has not yet fired the final hook of the message "
    "(HTTP response-hook kills set flow.error without a second hook by design)",
]
OUTSIDE = ["asyncio scheduling in mode_servers.handle_hook beyond the await", "console / web resume commands", "more than K events while intercepted",
           "HTTP/3, QUIC", "interception of headers hooks, connect hooks and of several hooks at once", "DNS responses, TCP-transported DNS"]
ENCODED = [
    "mitmproxy.flow:Flow.intercept", "mitmproxy.flow:Flow.resume", "mitmproxy.flow:Flow.kill", "mitmproxy.flow:Flow.wait_for_resume",
    "mitmproxy.proxy.layer:Layer.handle_event", "mitmproxy.proxy.layers.http:HttpStream.check_killed",
    "mitmproxy.proxy.layers.http:HttpStream.state_consume_request_body", "mitmproxy.proxy.layers.http:HttpStream.send_response",
    "mitmproxy.proxy.layers.http:HttpLayer.event_to_child", "mitmproxy.proxy.layers.tcp:TCPLayer.relay_messages",
    "mitmproxy.proxy.layers.udp:UDPLayer.relay_messages", "mitmproxy.proxy.layers.dns:DNSLayer.handle_request",
    "mitmproxy.proxy.layers.websocket:WebsocketLayer.relay_messages", "mitmproxy.proxy.layers.http._http2:Http2Server.handle_h2_event",
]

OPTS = sansio.make_options()
MARK, MARK2, MARK3, MARK4, EDIT = b"MARKER-ONE", b"marker-two", b"marker-three", b"marker-four", b"EDITED-MSG"


# ------------------------------------------------------------------------------------------------
# Flow.intercept / resume / kill / wait_for_resume


class _Tick:
    def __await__(self):
        yield self


class StubEvent:
    """asyncio.Event without a loop: wait() returns once the flag is set"""

    def __init__(self):
        self._flag = False

    def set(self):
        self._flag = True

    def clear(self):
        self._flag = False

    def is_set(self):
        return self._flag

    async def wait(self):
        while not self._flag:
            await _Tick()
        return True


class _StubAsyncio:
    Event = StubEvent


def h_flow_sm(X, N):
    from mitmproxy import exceptions
    from mitmproxy.test import tflow

    saved = mflow.asyncio
    mflow.asyncio = _StubAsyncio
    try:
        f = tflow.tflow()
        f.live = True
        held = False  # reference model: intercepted and neither resumed nor killed since
        killed = False
        waiters = []  # [coroutine, released?]   released: resume()/kill() happened after it started, or it started while not held
        for step in range(N):
            op = X.choose("op", ["intercept", "resume", "kill", "wait", "step", "stop"])
            if op == "stop":
                break
            if op == "intercept":
                f.intercept()
                held = True
                X.check(f.intercepted, "C11/flow-sm/intercept-not-set", "intercept() did not set .intercepted")
            elif op == "resume":
                f.resume()
                held = False
                for w in waiters:
                    w[1] = True
                X.check(not f.intercepted, "C11/flow-sm/resume-not-cleared", "resume() left .intercepted set")
            elif op == "kill":
                try:
                    f.kill()
                except exceptions.ControlException:
                    X.check(not f.live or killed, "C11/flow-sm/kill-refused", "kill() refused on a live, not yet killed flow")
                    continue
                killed = True
                held = False
                for w in waiters:
                    w[1] = True
                X.check(f.error is not None and f.error.msg == mflow.Error.KILLED_MESSAGE and not f.live and not f.intercepted,
                        "C11/flow-sm/kill-state", f"after kill(): error={f.error} live={f.live} intercepted={f.intercepted}")
                X.reach("killed")
            elif op == "wait":
                waiters.append([f.wait_for_resume(), not held])
            # step every pending waiter once
            if op in ("wait", "step", "resume", "kill"):
                still = []
                for w in waiters:
                    try:
                        w[0].send(None)
                    except StopIteration:
                        X.check(w[1], "C11/flow-sm/waiter-released-while-intercepted", "wait_for_resume() returned although the flow is still intercepted")
                        X.reach("released")
                        continue
                    X.check(not w[1], "C11/flow-sm/kill-does-not-wake-waiter" if killed else "C11/flow-sm/waiter-not-released",
                            "wait_for_resume() keeps blocking after " + ("kill()" if killed else "resume() / on a flow that is not intercepted")
                            + ": the pending hook never completes, the connection hangs instead of being torn down")
                    X.reach("blocked")
                    still.append(w)
                waiters = still
        for w in waiters:
            w[0].close()
        X.reach("end")
    finally:
        mflow.asyncio = saved


# ------------------------------------------------------------------------------------------------
# scenarios


def _count(hay, needle):
    return hay.count(needle)


class Scenario:
    """protocol world; subclasses define setup / meanwhile / edit / dest"""

    name = "?"
    error_hook = None  # name of the hook that must fire on kill (None: protocol has none at this point)
    opaque = False  # opaque relay: after a kill not a single byte may be relayed to the destination
    target = None  # hook name to intercept

    def __init__(self, X):
        self.X = X
        self.closed_meanwhile = False
        self.pending = None
        self.flow = None
        self.armed = True

    def on_hook(self, hook):
        if self.armed and hook.name == self.target and self.want(hook):
            self.armed = False
            self.pending = hook
            self.flow = hook.args()[0]
            return False
        return True

    def want(self, hook):
        return True

    replace_attr = None  # name of the flow attribute holding the intercepted message object (request/response), if any

    def replace(self):
        """the held message OBJECT is replaced (an addon assigns a new message, or the UI's edit -> revert re-creates
        it through set_state), and the replacement carries the edit: on resume the flow's current message must be sent"""
        attr = self.replace_attr() if callable(self.replace_attr) else self.replace_attr
        setattr(self.flow, attr, getattr(self.flow, attr).copy())
        self.edit()

    def dest(self):
        raise NotImplementedError

    def meanwhile(self):
        return []

    def after_kill_probe(self):
        """data of the same flow arriving after the kill (opaque relays)"""

    def check_progress(self):
        pass


def _open_server(transport="tcp"):
    s = Server(address=("example.com", 80), transport_protocol=transport)
    s.state = ConnectionState.OPEN
    s.timestamp_start = 1700000000.5
    s.peername = ("192.0.2.1", 80)
    return s


class Http1(Scenario):
    def __init__(self, X, which):
        super().__init__(X)
        self.which = which
        self.name = "http1-" + which
        self.target = which
        self.error_hook = "error" if which == "request" else None
        ctx = sansio.make_context(OPTS)
        self.ctx = ctx
        self.d = sansio.Driver(http.HttpLayer(ctx, HTTPMode.regular), ctx)
        self.d.on_hook = self.on_hook

    def setup(self):
        d, c = self.d, self.ctx.client
        d.start()
        d.data(c, b"POST http://example.com/p HTTP/1.1\r\nHost: example.com\r\nContent-Length: %d\r\n\r\n%s" % (len(MARK), MARK))
        if self.which == "response":
            self.X.check(len(d.opened) == 1 and MARK in d.sent_to(d.opened[0]), "C11/http1-response/harness", "request not forwarded")
            d.data(d.opened[0], b"HTTP/1.1 200 OK\r\nContent-Length: %d\r\n\r\n%s" % (len(MARK), MARK))

    def dest(self):
        if self.which == "request":
            return b"".join(self.d.sent_to(s) for s in self.d.opened)
        return self.d.sent_to(self.ctx.client)

    def meanwhile(self):
        m = ["client-pipelined-request", "client-close"]
        if self.which == "response":
            m += ["server-extra-data", "server-close"]
        return m

    def do(self, a):
        d, c = self.d, self.ctx.client
        if a == "client-pipelined-request":
            d.data(c, b"POST http://example.com/second HTTP/1.1\r\nHost: example.com\r\nContent-Length: %d\r\n\r\n%s" % (len(MARK2), MARK2))
        elif a == "client-close":
            self.closed_meanwhile = True
            d.close(c)
        elif a == "server-extra-data":
            d.data(d.opened[0], MARK3)
        elif a == "server-close":
            self.closed_meanwhile = True
            d.close(d.opened[0])

    def replace_attr(self):
        return self.which

    def edit(self):
        if self.which == "request":
            self.flow.request.content = EDIT
        else:
            self.flow.response.content = EDIT


class Relay(Scenario):
    """TCP / UDP"""

    opaque = True

    def __init__(self, X, proto, direction):
        super().__init__(X)
        self.name = proto
        self.proto = proto
        self.c2s = direction == "c2s"
        self.target = proto + "_message"
        self.error_hook = proto + "_error"
        ctx = sansio.make_context(OPTS, transport=proto)
        ctx.server = _open_server(proto)
        self.ctx = ctx
        lay = tcp.TCPLayer(ctx) if proto == "tcp" else udp.UDPLayer(ctx)
        self.d = sansio.Driver(lay, ctx)
        self.d.on_hook = self.on_hook
        self.src, self.dst = (ctx.client, ctx.server) if self.c2s else (ctx.server, ctx.client)

    def setup(self):
        self.d.start()
        self.d.data(self.src, MARK)

    def dest(self):
        return self.d.sent_to(self.dst)

    def meanwhile(self):
        return ["same-side-more", "other-side-data", "src-close", "dst-close"]

    def do(self, a):
        d = self.d
        if a == "same-side-more":
            d.data(self.src, MARK2)
        elif a == "other-side-data":
            d.data(self.dst, MARK3)
        elif a == "src-close":
            self.closed_meanwhile = True
            d.close(self.src)
        else:
            self.closed_meanwhile = True
            d.close(self.dst)

    def edit(self):
        self.flow.messages[-1].content = EDIT

    def after_kill_probe(self):
        if self.src.state & ConnectionState.CAN_READ:
            self.d.data(self.src, MARK4)


def _ws_frame(payload, masked, opcode=2):
    assert len(payload) < 126
    if not masked:
        return bytes([0x80 | opcode, len(payload)]) + payload
    mask = b"\x11\x22\x33\x44"
    return bytes([0x80 | opcode, 0x80 | len(payload)]) + mask + bytes(b ^ mask[i % 4] for i, b in enumerate(payload))


def _ws_payloads(data):
    """concatenated payloads of the (short) data frames in `data`, unmasked"""
    out, i = b"", 0
    while i + 2 <= len(data):
        ln = data[i + 1] & 0x7F
        masked = bool(data[i + 1] & 0x80)
        opcode = data[i] & 0x0F
        if ln >= 126:
            return out + b"<long frame>"
        i += 2
        mask = b"\0\0\0\0"
        if masked:
            mask = data[i:i + 4]
            i += 4
        p = bytes(b ^ mask[k % 4] for k, b in enumerate(data[i:i + ln]))
        i += ln
        if opcode in (0, 1, 2):
            out += p + b"|"
    return out


class WebSocket(Scenario):
    opaque = True
    target = "websocket_message"
    error_hook = None
    name = "websocket"

    def __init__(self, X, direction):
        super().__init__(X)
        self.c2s = direction == "c2s"
        ctx = sansio.make_context(OPTS)
        ctx.server = _open_server()
        self.ctx = ctx
        f = mhttp.HTTPFlow(ctx.client, ctx.server)
        f.request = mhttp.Request.make("GET", "http://example.com/ws", b"", {"Connection": "upgrade", "Upgrade": "websocket", "Sec-WebSocket-Version": "13"})
        f.response = mhttp.Response.make(101, b"", {"Connection": "upgrade", "Upgrade": "websocket"})
        f.websocket = mws.WebSocketData()
        f.live = True
        self.d = sansio.Driver(websocket.WebsocketLayer(ctx, f), ctx)
        self.d.on_hook = self.on_hook
        self.src, self.dst = (ctx.client, ctx.server) if self.c2s else (ctx.server, ctx.client)

    def frame(self, payload, from_src=True):
        from_client = self.c2s if from_src else not self.c2s
        return _ws_frame(payload, masked=from_client)

    def setup(self):
        self.d.start()
        self.d.data(self.src, self.frame(MARK))

    def dest(self):
        return _ws_payloads(self.d.sent_to(self.dst))

    def meanwhile(self):
        return ["same-side-more", "other-side-data", "src-close", "dst-close"]

    def do(self, a):
        d = self.d
        if a == "same-side-more":
            d.data(self.src, self.frame(MARK2))
        elif a == "other-side-data":
            d.data(self.dst, self.frame(MARK3, from_src=False))
        elif a == "src-close":
            self.closed_meanwhile = True
            d.close(self.src)
        else:
            self.closed_meanwhile = True
            d.close(self.dst)

    def edit(self):
        self.flow.websocket.messages[-1].content = EDIT

    def after_kill_probe(self):
        if self.src.state & ConnectionState.CAN_READ:
            self.d.data(self.src, self.frame(MARK4))


def _dns_query(qid, label):
    return struct.pack("!HHHHHH", qid, 0x0100, 1, 0, 0, 0) + bytes([len(label)]) + label + b"\x07example\x00" + struct.pack("!HH", 1, 1)


class Dns(Scenario):
    target = "dns_request"
    error_hook = "dns_error"
    name = "dns"
    replace_attr = "request"

    def __init__(self, X):
        super().__init__(X)
        ctx = sansio.make_context(OPTS, transport="udp")
        ctx.server = Server(address=("192.0.2.53", 53), transport_protocol="udp")
        self.ctx = ctx
        self.d = sansio.Driver(dns_layer.DNSLayer(ctx), ctx)
        self.d.on_hook = self.on_hook

    def setup(self):
        self.d.start()
        self.d.data(self.ctx.client, _dns_query(0x1111, MARK.lower().replace(b"-", b"")))

    def dest(self):
        return b"".join(self.d.sent_to(s) for s in self.d.opened).upper()

    def meanwhile(self):
        return ["second-query", "client-close"]

    def do(self, a):
        if a == "second-query":
            self.d.data(self.ctx.client, _dns_query(0x2222, MARK2.replace(b"-", b"")))
        else:
            self.closed_meanwhile = True
            self.d.close(self.ctx.client)

    def edit(self):
        self.flow.request.questions[0].name = EDIT.decode().lower().replace("-", "") + ".example"


def _dns_reply(qid, label):
    """answer to _dns_query: one A record whose owner repeats the question name (the marker)"""
    q = b"\x05query\x07example\x00"
    owner = bytes([len(label)]) + label + b"\x07example\x00"  # the marker occurs once: as the owner of the answer record
    return (struct.pack("!HHHHHH", qid, 0x8180, 1, 1, 0, 0) + q + struct.pack("!HH", 1, 1)
            + owner + struct.pack("!HHIH", 1, 1, 60, 4) + bytes([192, 0, 2, 1]))


class DnsResponse(Dns):
    """the query passes; the upstream answer is held in its dns_response hook"""

    target = "dns_response"
    name = "dns-response"
    replace_attr = "response"

    def setup(self):
        self.d.start()
        self.d.data(self.ctx.client, _dns_query(0x1111, b"query"))
        self.d.data(self.d.opened[0] if self.d.opened else self.ctx.server, _dns_reply(0x1111, MARK.lower().replace(b"-", b"")))

    def dest(self):
        return bytes(self.d.sent_to(self.ctx.client)).upper()

    def meanwhile(self):
        return ["second-query", "server-close"]

    def do(self, a):
        if a == "second-query":
            self.d.data(self.ctx.client, _dns_query(0x2222, MARK2.replace(b"-", b"")))
        else:
            self.closed_meanwhile = True
            self.d.close(self.d.opened[0] if self.d.opened else self.ctx.server)

    def edit(self):
        for rr in self.flow.response.answers:
            rr.name = EDIT.decode().lower().replace("-", "") + ".example"


def _m(x):
    return x.replace(b"-", b"")


class Http2(Scenario):
    """two streams: A (intercepted at its request or response hook) and B (must keep progressing)"""

    def __init__(self, X, which):
        super().__init__(X)
        self.which = which
        self.name = "http2-" + which
        self.target = which
        self.error_hook = "error" if which == "request" else None
        ctx = sansio.make_context(OPTS)
        ctx.client.alpn = b"h2"
        self.ctx = ctx
        self.d = sansio.Driver(http.HttpLayer(ctx, HTTPMode.regular), ctx)
        self.d.on_hook = self.on_hook
        self.d.on_open = self._on_open
        self.cli = h2.connection.H2Connection(h2.config.H2Configuration(client_side=True, header_encoding=False))
        self.srv = None
        self.coff = 0
        self.soff = 0
        self.cev = []
        self.sev = []
        self.b_sent = self.b_answered = False
        self.b_up = None

    def _on_open(self, cmd):
        cmd.connection.alpn = b"h2"
        return None

    def want(self, hook):
        return hook.args()[0].request.path == "/A"

    def pump(self):
        X, d = self.X, self.d
        again = True
        while again:
            again = False
            out = d.sent_to(self.ctx.client)
            if len(out) > self.coff:
                chunk, self.coff = out[self.coff:], len(out)
                try:
                    self.cev += self.cli.receive_data(chunk)
                except h2.exceptions.ProtocolError as e:
                    X.fail("C11/http2/client-peer-protocol-error", repr(e))
                back = self.cli.data_to_send()
                if back and self.ctx.client.state & ConnectionState.CAN_READ:
                    d.data(self.ctx.client, back)
                again = True
            if d.opened:
                conn = d.opened[0]
                if self.srv is None:
                    self.srv = h2.connection.H2Connection(h2.config.H2Configuration(client_side=False, header_encoding=False))
                    self.srv.initiate_connection()
                    d.data(conn, self.srv.data_to_send())
                out = d.sent_to(conn)
                if len(out) > self.soff:
                    chunk, self.soff = out[self.soff:], len(out)
                    try:
                        self.sev += self.srv.receive_data(chunk)
                    except h2.exceptions.ProtocolError as e:
                        X.fail("C11/http2/server-peer-protocol-error", repr(e))
                    back = self.srv.data_to_send()
                    if back and conn.state & ConnectionState.CAN_READ:
                        d.data(conn, back)
                    again = True

    def request(self, sid, path, body):
        self.cli.send_headers(sid, [(b":method", b"POST"), (b":scheme", b"http"), (b":path", path), (b":authority", b"example.com")])
        self.cli.send_data(sid, body, end_stream=True)
        self.d.data(self.ctx.client, self.cli.data_to_send())
        self.pump()

    def up_stream_of(self, path):
        for e in self.sev:
            if isinstance(e, h2.events.RequestReceived) and dict(e.headers).get(b":path") == path:
                return e.stream_id
        return None

    def answer(self, sid, body):
        self.srv.send_headers(sid, [(b":status", b"200")])
        self.srv.send_data(sid, body, end_stream=True)
        self.d.data(self.d.opened[0], self.srv.data_to_send())
        self.pump()

    def setup(self):
        self.d.start()
        self.cli.initiate_connection()
        self.d.data(self.ctx.client, self.cli.data_to_send())
        self.pump()
        self.request(1, b"/A", MARK)
        if self.which == "response":
            sid = self.up_stream_of(b"/A")
            self.X.check(sid is not None, "C11/http2-response/harness", "request A not forwarded")
            self.answer(sid, MARK)

    def dest(self):
        if self.which == "request":
            return b"".join(e.data for e in self.sev if isinstance(e, h2.events.DataReceived)) + b"|" + b"|".join(
                dict(e.headers).get(b":path", b"") for e in self.sev if isinstance(e, h2.events.RequestReceived))
        return b"|".join(e.data for e in self.cev if isinstance(e, h2.events.DataReceived))

    def meanwhile(self):
        m = []
        if getattr(self, "conn_closed", False):
            return ["client-resets-A"] if self.ctx.client.state & ConnectionState.CAN_READ else []
        if not self.b_sent:
            m.append("other-stream-request")
        elif not self.b_answered and self.up_stream_of(b"/B") is not None:
            m.append("other-stream-response")
        m += ["client-resets-A", "client-close"]
        if self.d.opened:
            m.append("server-close")
        return m

    def do(self, a):
        if a == "other-stream-request":
            self.b_sent = True
            self.request(3, b"/B", MARK2)
            self.X.check(self.up_stream_of(b"/B") is not None and MARK2 in b"".join(e.data for e in self.sev if isinstance(e, h2.events.DataReceived)),
                         f"C11/{self.name}/other-stream-blocked", "stream A is intercepted and stream B's request is not forwarded")
            self.X.reach("other-stream-forwarded")
        elif a == "other-stream-response":
            self.b_answered = True
            self.answer(self.up_stream_of(b"/B"), MARK3)
            got = b"".join(e.data for e in self.cev if isinstance(e, h2.events.DataReceived) and e.stream_id == 3)
            ended = any(isinstance(e, h2.events.StreamEnded) and e.stream_id == 3 for e in self.cev)
            self.X.check(got == MARK3 and ended, f"C11/{self.name}/other-stream-blocked", f"stream A is intercepted and stream B's response is not delivered (client got {got!r}, ended={ended})")
            self.X.reach("other-stream-answered")
        elif a == "client-resets-A":
            self.closed_meanwhile = True
            try:
                self.cli.reset_stream(1)
            except h2.exceptions.ProtocolError:
                return
            self.d.data(self.ctx.client, self.cli.data_to_send())
            self.pump()
        elif a == "client-close":
            self.closed_meanwhile = self.conn_closed = True
            self.d.close(self.ctx.client)
            self.pump()
        else:
            self.closed_meanwhile = self.conn_closed = True
            self.d.close(self.d.opened[0])
            self.pump()

    def replace_attr(self):
        return self.which

    def edit(self):
        if self.which == "request":
            self.flow.request.content = EDIT
        else:
            self.flow.response.content = EDIT

    def complete(self):
        self.d.complete_hook(self.pending)
        self.pump()


def _make(X, proto):
    if proto in ("http1-request", "http1-response"):
        return Http1(X, proto.split("-")[1])
    if proto in ("http2-request", "http2-response"):
        return Http2(X, proto.split("-")[1])
    if proto in ("tcp", "udp"):
        return Relay(X, proto, X.choose("direction", ["c2s", "s2c"]))
    if proto == "websocket":
        return WebSocket(X, X.choose("direction", ["c2s", "s2c"]))
    if proto == "dns-response":
        return DnsResponse(X)
    return Dns(X)


def h_hold(X, proto, K):
    S = _make(X, proto)
    name = S.name
    S.setup()
    X.check(S.pending is not None, f"C11/{name}/harness-hook-not-reached", f"hook {S.target} never fired: {S.d.hook_names}")
    X.check(_count(S.dest(), _m(MARK) if proto.startswith("dns") else MARK) == 0, f"C11/{name}/forwarded-before-hook-completed",
            f"the message reached its destination before the {S.target} hook completed: {S.dest()!r}")
    mk = (lambda b: _m(b).upper()) if proto.startswith("dns") else (lambda b: b)
    done = []
    for step in range(K):
        menu = ["stop"] + [a for a in S.meanwhile() if a not in done]
        a = X.choose("meanwhile", menu)
        if a == "stop":
            break
        done.append(a)
        S.do(a)
        X.reach("meanwhile")
        X.check(_count(S.dest(), mk(MARK)) == 0, f"C11/{name}/leak-while-intercepted", f"after '{a}' the intercepted message reached its destination: {S.dest()!r}")
        if S.opaque:
            X.check(_count(S.dest(), mk(MARK2)) == 0, f"C11/{name}/overtaken-while-intercepted", f"later data of the same flow overtook the intercepted message: {S.dest()!r}")
    res = X.choose("resolution", ["resume", "edit", "kill"] + (["edit-replaced"] if S.replace_attr is not None else []))
    flow = S.flow
    hooks_before = len(S.d.hook_names)
    before = S.dest()
    if res == "edit":
        S.edit()
    if res == "edit-replaced":
        S.replace()
        X.reach("message-object-replaced")
        res = "edit"
    if res == "kill":
        if not flow.killable:
            X.reach("not-killable")
            return
        flow.kill()
    if hasattr(S, "complete"):
        S.complete()
    else:
        S.d.complete_hook(S.pending)
    after = S.dest()
    what = f"{name} meanwhile={done} resolution={res}: destination saw {after!r}"
    if res == "kill":
        X.reach("killed")
        if S.opaque:
            # opaque relays: one verdict "the kill is honoured" (not forwarded, nothing relayed afterwards, error hook where there is one)
            S.after_kill_probe()
            problems = []
            if _count(after, mk(MARK)) or _count(after, mk(EDIT)):
                problems.append("the killed message was forwarded")
            if S.dest() != before:
                problems.append(f"data was relayed after the kill ({S.dest()!r})")
            if S.error_hook and S.error_hook not in S.d.hook_names[hooks_before:]:
                problems.append(f"no {S.error_hook} hook (hooks after the kill: {S.d.hook_names[hooks_before:]})")
            X.check(not problems, f"C11/{name}/kill-not-honoured", f"{what}: " + "; ".join(problems))
        X.check(_count(after, mk(MARK)) == 0 and _count(after, mk(EDIT)) == 0, f"C11/{name}/killed-message-forwarded", what)
        X.check(flow.error is not None, f"C11/{name}/killed-without-error", f"{what}: flow.error is not set")
        if S.error_hook:
            X.check(S.error_hook in S.d.hook_names[hooks_before:], f"C11/{name}/killed-without-error-hook", f"{what}: hooks after the kill: {S.d.hook_names[hooks_before:]}")
        return
    want, never = (mk(EDIT), mk(MARK)) if res == "edit" else (mk(MARK), mk(EDIT))
    n = _count(after, want)
    X.check(_count(after, never) == 0, f"C11/{name}/{'original-forwarded-after-edit' if res == 'edit' else 'phantom-edit'}", what)
    if S.closed_meanwhile:
        X.check(n <= 1, f"C11/{name}/forwarded-twice", what)
        X.reach("resumed-after-close")
    else:
        X.check(n == 1, f"C11/{name}/{'forwarded-twice' if n > 1 else 'not-forwarded-after-resume'}", what)
        X.reach("resumed")
        if S.opaque and "same-side-more" in done:
            X.check(after.find(want) < after.find(mk(MARK2)) and _count(after, mk(MARK2)) == 1, f"C11/{name}/order-after-resume",
                    f"{what}: later data of the flow must follow the resumed message, exactly once")
    X.reach("end")


PROTOS = ["http1-request", "http1-response", "http2-request", "http2-response", "websocket", "tcp", "udp", "dns", "dns-response"]


def obligations(tier):
    K = 3 if tier == "quick" else 4
    N = 5 if tier == "quick" else 7
    obs = [Symx("flow-state-machine", lambda X: h_flow_sm(X, N),
                bounds=f"every sequence of <= {N} operations over {{intercept, resume, kill, start waiter, step waiters}}; all pending wait_for_resume coroutines stepped by hand",
                encoded=ENCODED[:4], must_reach=["end", "released", "blocked", "killed"], stubs=["mitmproxy.flow.asyncio.Event -> loop-free stub"], parallel_depth=3)]
    for p in PROTOS:
        reach = ["end", "killed", "resumed", "meanwhile"]
        if p.startswith("http2"):
            reach += ["other-stream-forwarded", "other-stream-answered"]
        obs.append(Symx("hold-" + p, (lambda p: lambda X: h_hold(X, p, K + (1 if p.startswith("http2") else 0)))(p),
                        bounds=f"{p}: (direction x) every sequence of <= {K + (1 if p.startswith('http2') else 0)} distinct events while the hook is pending "
                               "(more data on the flow, data from the other side / other stream request and response, either peer closing, stream reset) x {resume, edit, kill}",
                        encoded=ENCODED, must_reach=reach))
    return obs
