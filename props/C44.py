"""C44 — option updates are transactional and typed; options survive a config round trip.

The real `mitmproxy.optmanager.OptManager` (one option per supported type: bool, str, int, Optional[str],
Optional[int], Sequence[str]) is driven by solver-enumerated update histories (engine symx, native execution
per path).  Every update assigns 1–2 options values taken from typed menus that include wrong-typed values.
Listeners: recorders subscribed before / after a *rejecting* listener (through `subscribe`) and one connected
to `.changed`; the rejecting listener is a solver-chosen predicate over option states: the first time it is
shown a state the solver decides (fork) whether that state is acceptable, afterwards it answers
consistently (a component that accepted a state accepts it again; defaults are acceptable).
Oracle (independent type predicate + before/after model):
  * an option never holds a value outside its declared type;
  * an update containing a wrong-typed value raises TypeError, one vetoed by the listener raises OptionsError;
    in both cases every option keeps its previous value and every listener's last observation equals the
    restored state;
  * an accepted update makes exactly the assignments and notifies every listener once with exactly the
    assigned names.
Config round trip: `optmanager.serialize` (ruamel round-trip dumper) -> `optmanager.load` (ruamel pure safe
loader, `update_defer`, optionally `process_deferred` for an option registered later) into fresh options
must reproduce every value; string values are solver-chosen token sequences over YAML-special characters and
words.  This part is exhaustion of the stated token menu (configuration enumeration, strings are concrete per path).
"""
import io
from collections.abc import Sequence
from typing import Optional

from mitmproxy import exceptions, optmanager

from vf.ob import Symx

LEVEL = "model_checking"
ASSUMPTIONS = [
    "the rejecting listener is deterministic in the option state (solver-chosen predicate, enumerated lazily over the states it is shown) and accepts the default state",
    "listeners are registered with OptManager.subscribe (all option names) and OptManager.changed.connect, as addons are",
    "type oracle: Python's notion of instance (bool is an int; a tuple or list of str is a Sequence[str]; a str is not a Sequence[str])",
    "ruamel.yaml runs for real on both sides; strings are concrete per path (menu exhaustion, not symbolic strings)",
]
OUTSIDE = [
    "unknown option names passed to update() (KeyError after the known ones were applied — documented behaviour of update_known)",
    "OptManager.set() spec-string parsing, merge(), reset(), toggler/setter helpers, make_parser",
    "config text written by hand (only text produced by serialize is loaded); the 'scripts' path rewriting of load(cwd=...)",
    "strings longer than the stated number of tokens / tokens outside the menu; histories longer than the bound",
]
ENCODED = [
    "mitmproxy.optmanager:OptManager.update", "mitmproxy.optmanager:OptManager.update_known", "mitmproxy.optmanager:OptManager.update_defer",
    "mitmproxy.optmanager:OptManager.rollback", "mitmproxy.optmanager:OptManager.subscribe", "mitmproxy.optmanager:OptManager._notify_subscribers",
    "mitmproxy.optmanager:OptManager.process_deferred", "mitmproxy.optmanager:OptManager.add_option", "mitmproxy.optmanager:_Option.set",
    "mitmproxy.optmanager:_Option.current", "mitmproxy.optmanager:_Option.__deepcopy__", "mitmproxy.optmanager:_Option.has_changed",
    "mitmproxy.utils.typecheck:check_option_type", "mitmproxy.optmanager:serialize", "mitmproxy.optmanager:load", "mitmproxy.optmanager:parse",
]

# --- the options object: one option per supported type ----------------------------------------
SPEC = [  # name, typespec, default
    ("b", bool, False),
    ("s", str, "dflt"),
    ("i", int, 7),
    ("os", Optional[str], None),
    ("oi", Optional[int], None),
    ("seq", Sequence[str], []),
    # second instances with non-empty defaults, so that None / "" / [] are *non-default* values (round trip)
    ("os2", Optional[str], "d"),
    ("seq2", Sequence[str], ["d"]),
]
NAMES = [n for n, _, _ in SPEC]
KIND = {"b": "bool", "s": "str", "i": "int", "os": "ostr", "oi": "oint", "seq": "seq", "os2": "ostr", "seq2": "seq"}


def well_typed(name, v):
    """declared type of each option, written independently of typecheck.py"""
    k = KIND[name]
    if k == "bool":
        return isinstance(v, bool)
    if k == "str":
        return isinstance(v, str)
    if k == "int":
        return isinstance(v, int)
    if k == "ostr":
        return v is None or isinstance(v, str)
    if k == "oint":
        return v is None or isinstance(v, int)
    return isinstance(v, (list, tuple)) and all(isinstance(x, str) for x in v)


def make_opts(skip=()):
    o = optmanager.OptManager()
    for name, ts, dflt in SPEC:
        if name not in skip:
            o.add_option(name, ts, dflt, "help")
    return o


def snapshot(o, names=NAMES):
    return {n: getattr(o, n) for n in names if n in o}


def norm(v):
    return list(v) if isinstance(v, tuple) else v


def same_state(a, b):
    return a.keys() == b.keys() and all(norm(a[k]) == norm(b[k]) and type(norm(a[k])) is type(norm(b[k])) for k in a)


# cross-type value menu (typed-single obligation): every option is offered every one of these
CROSS = [True, False, 0, 9, -1, "", "a", "5", None, 1.5, b"x", [], ["a", "b"], ("t",), [1], ["a", None], {"a": 1}]

# history menus: (good A, good B, wrong-typed)
HIST_VALUES = {
    "b": [True, False, "true"],
    "i": [9, 1, "5"],
    "s": ["a", "", None],
    "os": ["z", None, 5],
    "oi": [3, None, "3"],
    "seq": [["x"], [], "ab"],
}


def update_menu(names):
    """per-update bound: every single assignment, plus ordered two-option updates pairing each option's first
    good value / wrong value with the next option's good / wrong value (dict order = assignment order)"""
    out = []
    for n in names:
        for v in HIST_VALUES[n]:
            out.append(((n, v),))
    for idx, n in enumerate(names):
        n2 = names[(idx + 1) % len(names)]
        if n2 == n:
            continue
        a_good, a_bad = HIST_VALUES[n][0], HIST_VALUES[n][2]
        b_good, b_bad = HIST_VALUES[n2][0], HIST_VALUES[n2][2]
        out += [((n, a_good), (n2, b_good)), ((n, a_good), (n2, b_bad)), ((n, a_bad), (n2, b_good))]
    return out


def freeze(state):
    return tuple((k, repr(norm(v))) for k, v in sorted(state.items()))


def h_history(X, n_updates, names):
    o = make_opts()
    menu = update_menu(names)
    verdicts = {freeze(snapshot(o)): True}  # the rejecting component's predicate, chosen lazily by the solver
    seen = {"A": [], "B": [], "C": []}
    calls = []

    def rec_a(opts, updated):
        seen["A"].append((snapshot(opts), set(updated)))

    def rejecter(opts, updated):
        st = snapshot(opts)
        k = freeze(st)
        if k not in verdicts:
            verdicts[k] = not X.boolean("reject")
        calls.append(verdicts[k])
        if not verdicts[k]:
            X.reach("rejected")
            raise exceptions.OptionsError("component rejects this state")

    def rec_b(opts, updated):
        seen["B"].append((snapshot(opts), set(updated)))

    def rec_c(updated):
        seen["C"].append((snapshot(o), set(updated)))

    o.subscribe(rec_a, NAMES)
    o.subscribe(rejecter, NAMES)
    o.subscribe(rec_b, NAMES)
    o.changed.connect(rec_c)

    for step in range(n_updates):
        assigns = X.choose("update", menu)
        kw = dict(assigns)
        before = snapshot(o)
        marks = {k: len(v) for k, v in seen.items()}
        del calls[:]
        try:
            o.update(**kw)
            outcome = "accepted"
        except TypeError:
            outcome = "typeerror"
        except exceptions.OptionsError:
            outcome = "rejected"
        after = snapshot(o)
        ctx = f"update({kw!r}) -> {outcome}; before={before} after={after}"
        # 1. typed, always
        for n, v in after.items():
            X.check(well_typed(n, v), f"C44/type/holds-wrong-type/{KIND[n]}", f"option {n} holds {v!r} " + ctx)
        bad = [n for n, v in kw.items() if not well_typed(n, v)]
        if bad:
            X.reach("wrong-typed")
            X.check(outcome == "typeerror", f"C44/type/accepted-wrong-type/{KIND[bad[0]]}", ctx)
            X.check(same_state(after, before), "C44/typeerror/partial-apply",
                    "an update that raised TypeError changed options (and no listener was told): " + ctx)
            for k in seen:
                X.check(len(seen[k]) == marks[k], "C44/typeerror/notified", ctx)
        else:
            X.check(outcome != "typeerror", f"C44/type/rejected-valid/{KIND[next(iter(kw))]}", ctx)
            vetoed = calls and calls[0] is False
            if vetoed:
                X.check(outcome == "rejected", "C44/reject/not-raised", "listener raised OptionsError but update() returned normally: " + ctx)
                X.check(same_state(after, before), "C44/reject/not-restored", ctx)
            else:
                X.reach("accepted")
                X.check(outcome == "accepted", "C44/accept/raised", ctx)
                want = dict(before, **kw)
                X.check(same_state(after, want), "C44/accept/wrong-state", f"expected {want}: " + ctx)
                for k in seen:
                    new = seen[k][marks[k]:]
                    X.check(len(new) == 1 and new[0][1] == set(kw), f"C44/accept/notification/{k}",
                            f"listener {k} got {[(sorted(u)) for _, u in new]}, expected one notification with {sorted(kw)}: " + ctx)
        # 2. whatever happened, every listener's last observation is the current state
        for k in seen:
            if seen[k]:
                X.check(same_state(seen[k][-1][0], after), f"C44/listener-stale/{k}/{outcome}",
                        f"listener {k} last saw {seen[k][-1][0]} but options are {after}: " + ctx)
            else:
                X.check(same_state(after, snapshot(make_opts())), f"C44/listener-never-told/{k}/{outcome}", ctx)
    # 3. epilogue: whatever the history (accepted, rejected and wrong-typed updates), the defaults are the declared ones,
    #    "changed" means "differs from the default", and the saved configuration reproduces the final state
    final = snapshot(o)
    dfl = {n: d for n, _, d in SPEC}
    for n in final:
        X.check(norm(o.default(n)) == norm(dfl[n]), f"C44/history/default-altered/{KIND[n]}", f"option {n}: default() is {o.default(n)!r}, declared {dfl[n]!r}; state {final}")
        X.check(o.has_changed(n) == (norm(final[n]) != norm(dfl[n])), f"C44/history/has-changed-wrong/{KIND[n]}",
                f"option {n}={final[n]!r} (default {dfl[n]!r}): has_changed() says {o.has_changed(n)}")
    buf = io.StringIO()
    optmanager.serialize(o, buf, "")
    o2 = make_opts()
    try:
        optmanager.load(o2, buf.getvalue())
    except (exceptions.OptionsError, TypeError) as e:
        X.fail("C44/history/saved-config-unloadable", f"{e}: state {final}, file {buf.getvalue()!r}")
    X.check(same_state(snapshot(o2), final), "C44/history/saved-config-differs", f"state {final} saved as {buf.getvalue()!r} loads as {snapshot(o2)}")
    X.reach("end")
    del rec_a, rec_b, rec_c, rejecter


def h_nested_listener(X, n_updates):
    """two cooperating listeners on one update: component A reacts to an option by (successfully) setting ANOTHER
    option through a nested update, component B (subscribed later) rejects the outer update.  A rejected update must
    leave EVERY option at its previous value, including the one A touched."""
    o = make_opts()
    # (no update ever resets b: i == 41 then implies b is True, so A has nothing to do when a rollback re-notifies the restored state)
    menu = [{"i": 41}, {"i": 1}, {"i": 41, "seq": ["x"]}, {"seq": ["y"]}, {"i": 3, "s": "u"}, {"s": "t"}]
    state = {"nested": 0}

    def comp_a(opts, updated):
        if "i" in updated and opts.i == 41 and not opts.b:
            state["nested"] += 1
            opts.update(b=True)  # nested update of an option that is not part of the outer update

    verdict = {}

    def comp_b(opts, updated):
        if "i" in updated:
            k = opts.i
            if k not in verdict:
                verdict[k] = X.boolean("reject_i")
            if verdict[k]:
                X.reach("outer-rejected")
                raise exceptions.OptionsError("component B rejects this value of i")

    o.subscribe(comp_a, ["i"])
    o.subscribe(comp_b, ["i"])
    for step in range(n_updates):
        kw = X.choose("update", menu)
        before = snapshot(o)
        n0 = state["nested"]
        try:
            o.update(**kw)
            outcome = "accepted"
        except exceptions.OptionsError:
            outcome = "rejected"
        after = snapshot(o)
        ctx = f"update({kw!r}) -> {outcome}; nested update by component A: {state['nested'] > n0}; before={before} after={after}"
        if outcome == "rejected":
            if state["nested"] > n0:
                X.reach("rejected-after-nested-update")
            X.check(same_state(after, before), "C44/reject/not-restored/nested-update-survives" if state["nested"] > n0 else "C44/reject/not-restored", ctx)
        else:
            want = dict(before, **kw)
            if state["nested"] > n0:
                want["b"] = True
                X.reach("nested-accepted")
            X.check(same_state(after, want), "C44/accept/wrong-state/nested", f"expected {want}: " + ctx)
    X.reach("end")
    del comp_a, comp_b


def h_typed_single(X):
    """every option x every value of the cross-type menu, alone or after a valid first assignment to another option"""
    o = make_opts()
    notes = []

    def rec(opts, updated):
        notes.append((snapshot(opts), set(updated)))

    o.subscribe(rec, NAMES)
    name = X.choose("option", NAMES[:6])
    v = X.choose("value", CROSS)
    kw = {}
    first = X.choose("first", [None] + NAMES[:6])
    if first is not None:
        X.assume(first != name)
        kw[first] = HIST_VALUES[first][0]
    kw[name] = v
    before = snapshot(o)
    try:
        o.update(**kw)
        outcome = "accepted"
    except TypeError:
        outcome = "typeerror"
    after = snapshot(o)
    ctx = f"update({kw!r}) -> {outcome}; before={before} after={after}"
    for n, val in after.items():
        X.check(well_typed(n, val), f"C44/type/holds-wrong-type/{KIND[n]}", f"option {n} holds {val!r} " + ctx)
    if well_typed(name, v):
        X.reach("valid")
        X.check(outcome == "accepted", f"C44/type/rejected-valid/{KIND[name]}", ctx)
        X.check(same_state(after, dict(before, **kw)), "C44/accept/wrong-state", ctx)
        X.check(len(notes) == 1 and notes[0][1] == set(kw) and same_state(notes[0][0], after), "C44/accept/notification/single", f"{notes} " + ctx)
    else:
        X.reach("wrong-typed")
        X.check(outcome == "typeerror", f"C44/type/accepted-wrong-type/{KIND[name]}", ctx)
        X.check(same_state(after, before), "C44/typeerror/partial-apply",
                "an update that raised TypeError changed options (and no listener was told): " + ctx)
        X.check(notes == [], "C44/typeerror/notified", ctx)
    del rec


# --- config round trip ---------------------------------------------------------------------------
TOKENS = [":", "#", "-", "'", '"', "{", "}", "[", "]", ",", "&", "*", "!", "|", ">", "%", "@", " ", "\n",
          "yes", "no", "null", "~", "1e3", "é", "\x85"]
TOKEN_CLASS = {"\x85": "NEL", "\u2028": "LS", "\ufeff": "BOM", "\x07": "BEL", "\r": "CR", "\t": "TAB", "\n": "LF"}
TOKENS_EXT = TOKENS + ["\t", "\r", "\\", "?", "=", "true", "0x1f", "012", ".inf", "<<", "\u2028", "\ufeff", "\x07", "\U0001f600", "a"]
NONSTR = [("b", True), ("i", 0), ("i", -1), ("i", 10 ** 12), ("oi", 0), ("oi", 5), ("s", ""), ("os", ""), ("os2", None), ("seq", ["", ""]), ("seq2", []),
          ("seq", ("t", "u"))]


def h_roundtrip(X, max_tokens, targets, tokens, late_menu, nonstr):
    o = make_opts()
    target = X.choose("target", targets + (["nonstr"] if nonstr else []))
    if target == "nonstr":
        name, value = X.choose("nonstr", NONSTR)
    else:
        n = X.choose("ntokens", list(range(1, max_tokens + 1)))
        text = "".join(X.choose("tok", tokens) for _ in range(n))
        name = {"s": "s", "os": "os", "seq0": "seq", "seq1": "seq"}[target]
        value = text if target in ("s", "os") else ([text] if target == "seq0" else ["k", text])
        X.reach("string")
    o.update(**{name: value})
    # a second, fixed non-default option, so that the file has more than one key
    if name != "i":
        o.update(i=8)
    want = snapshot(o)
    buf = io.StringIO()
    optmanager.serialize(o, buf, "")
    text_out = buf.getvalue()
    late = X.choose("late", late_menu)  # the option is registered only after the file was loaded (deferred)
    o2 = make_opts(skip=(name,) if late else ())
    ctx = f"{name}={value!r}; file={text_out!r}"
    try:
        optmanager.load(o2, text_out)
        if late:
            X.reach("deferred")
            spec = [s for s in SPEC if s[0] == name][0]
            o2.add_option(spec[0], spec[1], spec[2], "help")
            o2.process_deferred()
    except exceptions.OptionsError as e:
        X.fail(f"C44/roundtrip/load-error/{KIND[name]}", f"{e} :: " + ctx)
    except TypeError as e:
        X.fail(f"C44/roundtrip/type-changed/{KIND[name]}", f"{e} :: " + ctx)
    got = snapshot(o2)
    # key = option kind + which non-printing characters the value contains (a different character class is a different finding)
    flat = value if isinstance(value, str) else "".join(x for x in value if isinstance(x, str)) if isinstance(value, (list, tuple)) else ""
    cls = "+".join(sorted({TOKEN_CLASS[ch] for ch in flat if ch in TOKEN_CLASS})) or "printable"
    for k in want:
        X.check(norm(got[k]) == norm(want[k]) and type(norm(got[k])) is type(norm(want[k])), f"C44/roundtrip/value-changed/{KIND[k]}/{cls}",
                f"option {k}: saved {want[k]!r}, loaded {got[k]!r} :: " + ctx)
    X.reach("end")


def obligations(tier):
    quick = tier == "quick"
    small = ["b", "i", "seq"] if quick else ["i", "seq"]
    full = ["b", "i", "s", "os", "oi", "seq"]
    n_small, n_full = (3, 2) if quick else (4, 3)
    tok = TOKENS if quick else TOKENS_EXT
    obs = [
        Symx("typed-single-update", h_typed_single,
             bounds=f"6 options (one per type) x {len(CROSS)} values of every type (cross-type menu), alone or preceded in the same update by a valid assignment to another option",
             encoded=ENCODED, must_reach=["valid", "wrong-typed"]),
        Symx("history-few-options", lambda X: h_history(X, n_small, small),
             bounds=f"every history of {n_small} updates over options {small}: {len(update_menu(small))} update variants (1-2 assignments, values {[HIST_VALUES[n] for n in small]}, last of each = wrong type) "
                    "x every accept/reject predicate of the rejecting listener over the states shown to it",
             encoded=ENCODED, must_reach=["end", "rejected", "accepted", "wrong-typed"], parallel_depth=2),
        Symx("nested-listener-update", lambda X: h_nested_listener(X, 3 if quick else 4),
             bounds=f"every history of {3 if quick else 4} updates from a 6-entry menu with two cooperating listeners: A answers i=41 by a nested update of option b, B (subscribed later) rejects chosen values of i",
             encoded=ENCODED, must_reach=["end", "outer-rejected", "rejected-after-nested-update", "nested-accepted"]),
        Symx("history-6-options", lambda X: h_history(X, n_full, full),
             bounds=f"every history of {n_full} updates over all 6 options: {len(update_menu(full))} update variants (1-2 assignments; values {HIST_VALUES}) x every accept/reject predicate",
             encoded=ENCODED, must_reach=["end", "rejected", "accepted", "wrong-typed"], parallel_depth=2),
        Symx("config-roundtrip-all-kinds", lambda X: h_roundtrip(X, 2, ["s", "os", "seq0", "seq1"], tok, [False, True], True),
             bounds=f"string of 1-2 tokens from {tok!r} as value of a str / Optional[str] option or as element of a Sequence[str] option (alone / second element), "
                    f"plus non-string values {NONSTR!r}; option known at load time or registered afterwards (update_defer + process_deferred)",
             encoded=ENCODED, must_reach=["end", "string", "deferred"], parallel_depth=2),
        Symx("config-roundtrip-3-tokens", lambda X: h_roundtrip(X, 3, ["s"] if quick else ["s", "seq1"], TOKENS, [False], False),
             bounds=f"string of 1-3 tokens from {TOKENS!r} as value of a str option" + ("" if quick else " / second element of a Sequence[str] option"),
             encoded=ENCODED, must_reach=["end", "string"], parallel_depth=3),
    ]
    return obs
