"""C22 — client connections from blocked address classes are refused.

The real `Block.client_connected` (and the stdlib `ipaddress` predicates it calls) is executed on a
source address whose integer value is a 32-/128-bit symbolic bit-vector; the oracle is the IANA
special-purpose address registry written out as a literal table.  The decision tree has one branch
per network test, so every one of the 2^32 + 2^128 addresses is decided.
"""
import ipaddress
import logging

from vf.ob import Symx
from vf import symx

LEVEL = "model_checking"
ASSUMPTIONS = [
    "text->int parsing of the peer address is replaced by a stub returning an address object whose _ip is symbolic; "
    "the textual forms (plain, IPv4-mapped, zone-scoped) are decided separately by obligation 'text-forms' on selector-built texts",
    "functools.lru_cache wrappers on ipaddress.is_private/is_global are removed (memoisation only; semantics kept)",
    "oracle = IANA IPv4/IPv6 special-purpose registries (literal table, 2024-05 state)",
]
OUTSIDE = ["address blocks where CPython 3.12.1 ipaddress tables differ from IANA: 192.0.0.0/24, 2001::/23, 64:ff9b:1::/48, 2002::/16 (stdlib data, not mitmproxy code)",
           "the asyncio glue in ConnectionHandler.handle_client that closes the connection when client.error is set (see C09 n/a)"]
TRUSTED = ["IANA table as transcribed in props/C22.py"]

ENCODED = [
    "mitmproxy.addons.block:Block.client_connected",
    "ipaddress:IPv4Address.is_private", "ipaddress:IPv4Address.is_global", "ipaddress:IPv4Address.is_loopback",
    "ipaddress:IPv6Address.is_private", "ipaddress:IPv6Address.is_global", "ipaddress:IPv6Address.ipv4_mapped",
]

# (prefix, length, globally reachable) — IANA IPv4 Special-Purpose Address Registry
V4 = [("0.0.0.0", 8, False), ("10.0.0.0", 8, False), ("100.64.0.0", 10, False), ("127.0.0.0", 8, False),
      ("169.254.0.0", 16, False), ("172.16.0.0", 12, False), ("192.0.0.0", 24, False), ("192.0.0.0", 29, False),
      ("192.0.0.8", 32, False), ("192.0.0.9", 32, True), ("192.0.0.10", 32, True), ("192.0.0.170", 32, False),
      ("192.0.0.171", 32, False), ("192.0.2.0", 24, False), ("192.31.196.0", 24, True), ("192.52.193.0", 24, True),
      ("192.88.99.0", 24, True), ("192.168.0.0", 16, False), ("192.175.48.0", 24, True), ("198.18.0.0", 15, False),
      ("198.51.100.0", 24, False), ("203.0.113.0", 24, False), ("240.0.0.0", 4, False), ("255.255.255.255", 32, False)]
# "private" in the option's sense: not globally reachable, excluding the shared address space
# 100.64.0.0/10 (carrier-grade NAT: neither private nor global, as the stdlib documents)
V4_NOT_PRIVATE = [("100.64.0.0", 10)]

V6 = [("::1", 128, False), ("::", 128, False), ("::ffff:0:0", 96, False), ("64:ff9b::", 96, True), ("64:ff9b:1::", 48, False),
      ("100::", 64, False), ("2001::", 23, False), ("2001::", 32, False), ("2001:1::1", 128, True), ("2001:1::2", 128, True),
      ("2001:2::", 48, False), ("2001:3::", 32, True), ("2001:4:112::", 48, True), ("2001:10::", 28, False),
      ("2001:20::", 28, True), ("2001:30::", 28, True), ("2001:db8::", 32, False), ("2002::", 16, True),
      ("2620:4f:8000::", 48, True), ("fc00::", 7, False), ("fe80::", 10, False)]


# Blocks on which the running interpreter's stdlib tables (CPython 3.12.1 `ipaddress`) differ from the
# IANA registry.  That table is not mitmproxy code (CPython >= 3.12.4 updated it); these blocks are
# OUTSIDE the claim and excluded by assumption.  Everything else is decided against the IANA table.
CONTESTED_V4 = [("192.0.0.0", 24)]
CONTESTED_V6 = [("2001::", 23), ("64:ff9b:1::", 48), ("2002::", 16)]


def _in_any(n, nets, bits, fam):
    r = False
    for p, l in nets:
        r = r | ((n >> (bits - l)) == (int(fam(p)) >> (bits - l)))
    return r


def _unwrap_caches():
    for cls in (ipaddress.IPv4Address, ipaddress.IPv6Address):
        for n in ("is_private", "is_global"):
            p = cls.__dict__[n]
            f = getattr(p.fget, "__wrapped__", p.fget)
            setattr(cls, n, property(f))


def _ref(n, table, bits, fam):
    """longest-prefix match in the registry -> (globally reachable?, matched entry)"""
    best = None
    for p, l, g in table:
        a = int(fam(p))
        hit = (n >> (bits - l)) == (a >> (bits - l)) if l < bits else n == a
        if hit:
            if best is None or l > best[0]:
                best = (l, g, f"{p}/{l}")
    if best is None:
        return True, "unlisted"
    return best[1], best[2]


def _ref_v4(n):
    g, ent = _ref(n, V4, 32, ipaddress.IPv4Address)
    loop = bool((n >> 24) == 127)
    private = not g
    for p, l in V4_NOT_PRIVATE:
        if (n >> (32 - l)) == (int(ipaddress.IPv4Address(p)) >> (32 - l)):
            private = False
    return g, private, loop, ent


def _run_block(addr_obj, block_global, block_private, local_mode):
    from mitmproxy.addons import block
    from mitmproxy import connection
    from mitmproxy.proxy import mode_specs

    class _O:
        pass

    o = _O()
    o.block_global, o.block_private = block_global, block_private

    class _C:
        options = o

    saved = (block.ctx, ipaddress.ip_address, logging.warning)
    block.ctx = _C()
    ipaddress.ip_address = lambda s: addr_obj
    logging.warning = lambda *a, **k: None
    try:
        mode = mode_specs.ProxyMode.parse("local" if local_mode else "regular")
        c = connection.Client(peername=("peer", 1), sockname=("sock", 2), proxy_mode=mode)
        block.Block().client_connected(c)
        return c.error is not None
    finally:
        block.ctx, ipaddress.ip_address, logging.warning = saved


def _mk4(n):
    a = ipaddress.IPv4Address.__new__(ipaddress.IPv4Address)
    a._ip = n
    return a


def _mk6(n):
    a = ipaddress.IPv6Address.__new__(ipaddress.IPv6Address)
    a._ip = n
    a._scope_id = None
    return a


def _setup():
    _unwrap_caches()
    symx.install_isinstance(ipaddress)


def h_v4(X):
    _setup()
    n = X.bv("addr", 32)
    X.assume(symx.lnot(_in_any(n, CONTESTED_V4, 32, ipaddress.IPv4Address)))
    bg = X.boolean("block_global")
    bp = X.boolean("block_private")
    local = X.boolean("local_mode")
    got = _run_block(_mk4(n), bg, bp, local)
    g, private, loop, ent = _ref_v4(n)
    exp = (not loop) and (not local) and ((bg and g) or (bp and private))
    X.note("registry_entry", ent)
    X.reach("decided")
    if got:
        X.reach("refused")
    if got != exp:
        X.fail(f"C22/v4/{ent}/{'refused' if got else 'admitted'}", f"source in {ent}: refused={got} expected={exp} "
               f"(block_global={bg} block_private={bp} local={local})", entry=ent)


def h_v6(X):
    _setup()
    n = X.bv("addr", 128)
    c = _in_any(n, CONTESTED_V6, 128, ipaddress.IPv6Address) | (((n >> 32) == 0xFFFF) & _in_any(n & 0xFFFFFFFF, CONTESTED_V4, 32, ipaddress.IPv4Address))
    X.assume(symx.lnot(c))
    bg = X.boolean("block_global")
    bp = X.boolean("block_private")
    local = X.boolean("local_mode")
    got = _run_block(_mk6(n), bg, bp, local)
    if bool((n >> 32) == 0xFFFF):
        # IPv4-mapped: the embedded IPv4 address decides
        g, private, loop, ent = _ref_v4(n & 0xFFFFFFFF)
        ent = "::ffff:" + ent
        X.reach("mapped")
    else:
        g, ent = _ref(n, V6, 128, ipaddress.IPv6Address)
        private = not g
        loop = bool(n == 1)
    exp = (not loop) and (not local) and ((bg and g) or (bp and private))
    X.note("registry_entry", ent)
    X.reach("decided")
    if got:
        X.reach("refused")
    if got != exp:
        X.fail(f"C22/v6/{ent}/{'refused' if got else 'admitted'}", f"source in {ent}: refused={got} expected={exp} "
               f"(block_global={bg} block_private={bp} local={local})", entry=ent)


_OCT = [0, 8, 10, 127, 192, 255]


def h_text(X):
    """textual forms reach the same decision as the plain address: zone-scoped, IPv4-mapped,
    mixed case; text is built from selector-chosen octets (ip_address NOT stubbed here)"""
    from mitmproxy.addons import block
    from mitmproxy import connection
    from mitmproxy.proxy import mode_specs

    o = [X.choose(f"o{i}", _OCT) for i in range(4)]
    form = X.choose("form", ["v4", "mapped-dotted", "mapped-hex", "mapped-zone", "v6-zone", "v6-upper"])
    bg, bp = X.boolean("block_global"), X.boolean("block_private")
    n = (o[0] << 24) | (o[1] << 16) | (o[2] << 8) | o[3]
    X.assume(not _in_any(n, CONTESTED_V4, 32, ipaddress.IPv4Address))
    v4 = ".".join(map(str, o))
    if form == "v4":
        text = v4
    elif form == "mapped-dotted":
        text = "::ffff:" + v4
    elif form == "mapped-hex":
        text = "::ffff:%x:%x" % (n >> 16, n & 0xFFFF)
    elif form == "mapped-zone":
        text = "::FFFF:" + v4 + "%eth0"
    elif form == "v6-zone":
        text = "fe80::%x:%x%%wlan0" % (n >> 16, n & 0xFFFF)
    else:
        text = "2A00:1450::%X:%X" % (n >> 16, n & 0xFFFF)

    class _O:
        block_global, block_private = bg, bp

    class _C:
        options = _O()

    saved = (block.ctx, logging.warning)
    block.ctx = _C()
    logging.warning = lambda *a, **k: None
    try:
        c = connection.Client(peername=(text, 1), sockname=("sock", 2), proxy_mode=mode_specs.ProxyMode.parse("regular"))
        try:
            block.Block().client_connected(c)
        except Exception as e:  # noqa
            X.fail(f"C22/text/{form}/raises", f"{text!r}: {type(e).__name__}: {e}")
        got = c.error is not None
    finally:
        block.ctx, logging.warning = saved
    if form in ("v4", "mapped-dotted", "mapped-hex", "mapped-zone"):
        g, private, loop, ent = _ref_v4(n)
    elif form == "v6-zone":
        g, private, loop, ent = False, True, False, "fe80::/10"
    else:
        g, private, loop, ent = True, False, False, "unlisted"
    exp = (not loop) and ((bg and g) or (bp and private))
    X.reach("decided")
    if got != exp:
        X.fail(f"C22/text/{form}/{ent}", f"{text!r}: refused={got} expected={exp} (block_global={bg} block_private={bp})")


def obligations(tier):
    return [
        Symx("v4-all-addresses", h_v4, bounds="all 2^32 IPv4 sources x block_global x block_private x {regular, local} mode",
             encoded=ENCODED, must_reach=["decided", "refused"], stubs=["ipaddress.ip_address -> symbolic _ip", "lru_cache unwrapped"]),
        Symx("v6-all-addresses", h_v6, bounds="all 2^128 IPv6 sources (incl. IPv4-mapped) x options x mode",
             encoded=ENCODED, must_reach=["decided", "refused", "mapped"], stubs=["ipaddress.ip_address -> symbolic _ip", "lru_cache unwrapped"],
             parallel_depth=3),
        Symx("text-forms", h_text, bounds="6^4 octet combinations x 6 textual forms (zone-scoped, mapped dotted/hex, case) x options; real ipaddress.ip_address parsing",
             encoded=ENCODED[:1], must_reach=["decided"], parallel_depth=3),
    ]
