"""C07 — body size limits are enforced and streamed bodies are relayed exactly.

  size-unit-table    (smt)  SIZE_UNITS lifted from the current source of utils/human.py: b,k,m,g,t = 1024^0..1024^4,
                            single lower-case letters (parse_size strips exactly one character)
  parse-size-arith   (symx) real human.parse_size (lru_cache unwrapped) with the digits replaced by a symbolic int N
                            below `int()`: parse_size("<N><unit>") == N * 1024^i for every N, malformed suffixes raise
  early-decision     (symx) real HttpLayer/HttpStream.check_body_size at header time with body_size_limit L,
                            stream_large_bodies T and the declared Content-Length D all symbolic ints (0..2^40): the
                            flow is aborted iff L set and D > L, else streamed iff T set and D > T, else buffered
  limits-and-streaming (symx) real HttpLayer + Http1Server/Http1Client (h11 readers) in both directions; L and T stay
                            symbolic (the code only compares them), so one path covers every limit value in an order
                            class; the body is concrete (lengths cannot stay symbolic through len()/bytes/h11): chunk
                            count and sizes are selectors from a small menu, i.e. the *relations* between the running
                            size, L and T are what the solver enumerates.  Selectors: direction, framing (Content-Length
                            / chunked / read-until-close), store_streamed_bodies, addon stream setting (none / True /
                            identity / upper-case / split-in-two callable).
Oracle (written from the property sentence):  a body is *known to exceed* the limit when the declared Content-Length
is > L, or when the bytes buffered so far are > L; then: error hook, the client has received one complete error
response, no body byte was forwarded, flow not live.  Abort takes precedence over streaming.  A body is *streamed*
when the addon asked for it at the headers hook, when Content-Length > T, or from the moment the buffered bytes
exceed T; from then on every received chunk is at the peer before the next event and the peer finally holds exactly
the concatenated outputs of the transform over the received bytes in order (transform called on every data piece and
once with b"" at the end).  While buffering, mitmproxy holds exactly the bytes received so far and never more than
L + one chunk.  The flow keeps the body iff it was buffered or store_streamed_bodies is on.
"""
import ast
import builtins
import types

import z3

from vf import sansio, smt
from vf.ob import Smt, Symx
from vf.refs import http1ref

LEVEL = "model_checking"
ASSUMPTIONS = [
    "human.parse_size is stubbed *inside mitmproxy.proxy.layers.http only* to return the harness' symbolic ints for the option strings 'L' / 'T' "
    "(string parsing is covered by parse-size-arith / size-unit-table)",
    "parse-size-arith: `int` inside mitmproxy.utils.human returns the symbolic N for the digit placeholder; lru_cache unwrapped",
    "early-decision: expected_http_body_size is wrapped inside mitmproxy.proxy.layers.http to return symbolic D for the placeholder Content-Length",
    "every body chunk arrives in its own TCP segment (segmentation independence is C02); payload bytes are a running alphabet",
    "weaker reading: body_size_limit is not demanded of bodies that are already being streamed (chunked body passing T first), "
    "and bytes kept because store_streamed_bodies is on are not counted against the memory bound",
    "oracle for the bytes the peer receives = vf/refs/http1ref.py",
]
OUTSIDE = ["HTTP/2 and HTTP/3 DATA framing of streamed bodies", "more chunks / other chunk sizes than the stated menu", "trailers",
           "stream callables that change the body length under Content-Length framing (the addon's responsibility)",
           "negative / non-decimal size specifications accepted by int()"]
ENCODED = [
    "mitmproxy.utils.human:parse_size",
    "mitmproxy.proxy.layers.http:HttpStream.check_body_size",
    "mitmproxy.proxy.layers.http:HttpStream.state_wait_for_request_headers",
    "mitmproxy.proxy.layers.http:HttpStream.state_consume_request_body",
    "mitmproxy.proxy.layers.http:HttpStream.state_stream_request_body",
    "mitmproxy.proxy.layers.http:HttpStream.start_request_stream",
    "mitmproxy.proxy.layers.http:HttpStream.state_wait_for_response_headers",
    "mitmproxy.proxy.layers.http:HttpStream.state_consume_response_body",
    "mitmproxy.proxy.layers.http:HttpStream.state_stream_response_body",
    "mitmproxy.proxy.layers.http:HttpStream.start_response_stream",
    "mitmproxy.proxy.layers.http:HttpStream.send_response",
    "mitmproxy.proxy.layers.http._http1:Http1Client.send",
    "mitmproxy.proxy.layers.http._http1:Http1Server.send",
    "mitmproxy.proxy.layers.http._http1:Http1Connection.read_body",
]
HUMAN = "mitmproxy/utils/human.py"
BIG = 2 ** 40

# ------------------------------------------------------------------------------------------
# parse_size


def _eval_int(node):
    if isinstance(node, ast.Constant) and isinstance(node.value, int):
        return node.value
    if isinstance(node, ast.BinOp) and isinstance(node.op, (ast.Pow, ast.Mult, ast.LShift)):
        a, b = _eval_int(node.left), _eval_int(node.right)
        return a ** b if isinstance(node.op, ast.Pow) else (a * b if isinstance(node.op, ast.Mult) else a << b)
    raise smt.AnchorNotFound(f"SIZE_UNITS value {ast.unparse(node)} is not a constant integer expression")


REF_UNITS = {"b": 0, "k": 1, "m": 2, "g": 3, "t": 4}


def _build_unit_queries():
    node = smt.find_assign(HUMAN, "SIZE_UNITS")
    if not isinstance(node, ast.Dict):
        raise smt.AnchorNotFound("SIZE_UNITS is not a dict literal")
    table = {}
    for k, v in zip(node.keys, node.values):
        if not (isinstance(k, ast.Constant) and isinstance(k.value, str)):
            raise smt.AnchorNotFound("SIZE_UNITS key is not a string literal")
        table[k.value] = _eval_int(v)
    qs = []
    n = z3.Int("n")

    def rp(w):
        from mitmproxy.utils import human

        bad = {u: human.SIZE_UNITS.get(u) for u, i in REF_UNITS.items() if human.SIZE_UNITS.get(u) != 1024 ** i}
        extra = [u for u in human.SIZE_UNITS if u not in REF_UNITS]
        return bool(bad or extra), f"unit table differs from b,k,m,g,t = 1024^0..4: {bad} extra={extra}"

    # exists n >= 0 and a unit with n*table[u] != n*1024^i  (or the key sets differ)
    diffs = [n * table[u] != n * (1024 ** i) for u, i in REF_UNITS.items() if u in table]
    keys_differ = z3.BoolVal(set(table) != set(REF_UNITS))
    qs.append(smt.Query("for all n >= 0 and every unit u: n * SIZE_UNITS[u] == n * 1024^i, units exactly b,k,m,g,t",
                        [n >= 0, z3.Or(keys_differ, *diffs)], key="C07/parse-size/unit-table", witness_vars=[n], replay=rp))
    s = z3.String("u")
    keys = z3.Union(*[z3.Re(z3.StringVal(k)) for k in table]) if len(table) > 1 else z3.Re(z3.StringVal(next(iter(table))))
    one_lower = z3.Range("a", "z")

    def rp2(w):
        return True, f"unit {w['u']!r} is not a single lower-case letter although parse_size strips exactly one character"

    qs.append(smt.lang_subset("every unit key is one lower-case letter (parse_size strips s[:-1])", keys, one_lower, key="C07/parse-size/unit-key-shape", replay=rp2, var="u"))
    return qs


def h_parse_size(X):
    from mitmproxy.utils import human

    X.opaque_str(True)  # symbolic ints are only formatted into messages; the concrete replay prints the real values
    f = getattr(human.parse_size, "__wrapped__", human.parse_size)
    kind = X.choose("kind", ["number", "none"])
    if kind == "none":
        X.check(f(None) is None, "C07/parse-size/none", "parse_size(None) is not None")
        X.reach("none")
        return
    n = X.int("N", 0, 2 ** 50)
    unit = X.choose("unit", ["", "b", "k", "m", "g", "t", "x", "K", "kb", "mb", " k", "k "])
    text = "<N>" + unit

    def sym_int(s, *a):
        return n if s == "<N>" else builtins.int(s, *a)

    human.__dict__["int"] = sym_int
    try:
        try:
            r = f(text)
            err = None
        except ValueError as e:
            r, err = None, e
    finally:
        del human.__dict__["int"]
    ref = {"": 1, "b": 1, "k": 1024, "m": 1024 ** 2, "g": 1024 ** 3, "t": 1024 ** 4}
    if unit in ref:
        X.reach("valid")
        X.check(err is None, f"C07/parse-size/rejects-valid/{unit or 'plain'}", f"parse_size('<N>{unit}') raised {err}")
        exp = n * ref[unit]
        X.check(not bool(r != exp), f"C07/parse-size/wrong-value/{unit or 'plain'}", f"parse_size('<N>{unit}') = {r!r} != N*{ref[unit]}")
    else:
        X.reach("invalid")
        X.check(err is not None, f"C07/parse-size/accepts-malformed/{unit.strip() or 'blank'}", f"parse_size('<N>{unit}') returned {r!r}")


# ------------------------------------------------------------------------------------------
# layer harnesses


class _Env:
    """installs the parse_size stub (and optionally the Content-Length wrapper) into mitmproxy.proxy.layers.http"""

    def __init__(self, L, T, D=None):
        self.L, self.T, self.D = L, T, D

    def __enter__(self):
        from mitmproxy.proxy.layers import http as H
        from mitmproxy.utils import human

        self.H = H
        self.saved = (H.human, H.expected_http_body_size)
        table = {"L": self.L, "T": self.T}
        shim = types.ModuleType("human_shim")
        shim.__dict__.update({k: v for k, v in vars(human).items() if not k.startswith("__")})
        shim.parse_size = lambda s: None if s is None else table[s]
        H.human = shim
        if self.D is not None:
            real = self.saved[1]
            D = self.D

            def wrapped(request, response=None):
                r = real(request, response)
                return D if r == 77 else r

            H.expected_http_body_size = wrapped
        return self

    def __exit__(self, *a):
        self.H.human, self.H.expected_http_body_size = self.saved


def _page_ok(X, out, key, what, method=b"GET"):
    msgs, rest, err = http1ref.parse_stream(out, "response", [method], eof=False)
    X.check(err is None and len(msgs) == 1 and rest == b"" and msgs[0].status >= 400, key,
            f"{what}: client did not receive exactly one complete error response ({err}; {[m.status for m in msgs]}; rest {rest[:40]!r}): {out[:120]!r}")


def h_early(X):
    from mitmproxy.proxy.layers import http as H

    X.opaque_str(True)
    direction = X.choose("direction", ["request", "response"])
    L = X.int("L", 0, BIG) if X.boolean("limit_set") else None
    T = X.int("T", 0, BIG) if X.boolean("threshold_set") else None
    D = X.int("D", 1, BIG)
    opts = sansio.make_options(body_size_limit="L" if L is not None else None, stream_large_bodies="T" if T is not None else None)
    with _Env(L, T, D):
        ctx = sansio.make_context(opts)
        layer = H.HttpLayer(ctx, H.HTTPMode.regular)
        d = sansio.Driver(layer, ctx)
        d.start()
        if direction == "request":
            d.data(ctx.client, b"POST http://a.test/ HTTP/1.1\r\nHost: a.test\r\nContent-Length: 77\r\n\r\n")
            fwd = b"".join(b for c, b in d.sent_log if c is not ctx.client)
        else:
            d.data(ctx.client, b"GET http://a.test/ HTTP/1.1\r\nHost: a.test\r\n\r\n")
            X.check(len(d.opened) == 1, "C07/harness/not-forwarded", "GET was not forwarded")
            d.data(d.opened[0], b"HTTP/1.1 200 OK\r\nContent-Length: 77\r\n\r\n")
            fwd = d.sent_to(ctx.client)
    errs = d.hook_names.count("error")
    flow = d.hooks[0][1]
    if errs:
        got = "aborted"
    elif fwd.startswith(b"POST " if direction == "request" else b"HTTP/1.1 200"):
        got = "streamed"
    else:
        got = "buffered"
    # reference, decided after the run so that the real comparisons create the path classes
    if L is not None and bool(D > L):
        exp = "aborted"
    elif T is not None and bool(D > T):
        exp = "streamed"
    else:
        exp = "buffered"
    X.reach(exp)
    X.check(got == exp, f"C07/early/{direction}/{exp}-but-{got}", f"L={L} T={T} declared Content-Length D={D}: expected {exp}, observed {got} (hooks {d.hook_names})")
    if exp == "aborted":
        X.check(errs == 1 and flow.error is not None and not flow.live, f"C07/early/{direction}/abort-incomplete", f"error hooks={errs} flow.error={flow.error} live={flow.live}")
        _page_ok(X, d.sent_to(ctx.client), f"C07/early/{direction}/no-error-response", "oversize by Content-Length", b"POST" if direction == "request" else b"GET")
        if direction == "request":
            X.check(fwd == b"", "C07/early/request/forwarded-despite-abort", f"bytes reached the server: {fwd[:60]!r}")
    elif exp == "buffered":
        X.check(fwd == b"", f"C07/early/{direction}/forwarded-while-buffering", f"{fwd[:60]!r}")


SIZES = [1, 2, 5]
ADDON = ["none", "true", "identity", "upper", "split"]


def _payload(start, n):
    return bytes(97 + ((start + i) % 26) for i in range(n))


def _dechunk(buf):
    """decode as much of a chunked body as is there -> (data, complete, garbage_after_end)"""
    out, pos = b"", 0
    while True:
        i = buf.find(b"\r\n", pos)
        if i < 0:
            return out, False, b""
        try:
            n = int(buf[pos:i], 16)
        except ValueError:
            return out, False, buf[pos:]
        if n == 0:
            j = buf.find(b"\r\n", i + 2)
            return out, True, buf[j + 2:] if j >= 0 else b""
        if len(buf) < i + 2 + n + 2:
            return out + buf[i + 2:i + 2 + n], False, b""
        out += buf[i + 2:i + 2 + n]
        pos = i + 2 + n + 2


def h_layer(X, K, sizes, addons, framings):
    from mitmproxy.connection import ConnectionState
    from mitmproxy.proxy.layers import http as H

    X.opaque_str(True)
    direction = X.choose("direction", ["request", "response"])
    framing = X.choose("framing", [f for f in framings if f != "eof" or direction == "response"])
    L = X.int("L", 0, BIG) if X.boolean("limit_set") else None
    T = X.int("T", 0, BIG) if X.boolean("threshold_set") else None
    store = X.boolean("store_streamed_bodies")
    n = X.choose("nchunks", K + 1)
    chunks, off = [], 0
    for j in range(n):
        c = X.choose("size", sizes)
        chunks.append(_payload(off, c))
        off += c
    total = b"".join(chunks)
    D = len(total)
    opts = sansio.make_options(body_size_limit="L" if L is not None else None, stream_large_bodies="T" if T is not None else None, store_streamed_bodies=store)
    calls, outs = [], []
    addon_choice = [None]

    def transform(kind):
        def f(data):
            calls.append(bytes(data))
            if kind == "identity":
                r = data
            elif kind == "upper":
                r = data.upper()
            else:
                h = len(data) // 2
                r = [data[:h], data[h:]]  # "an iterable of bytes", as the stream API documents
            outs.append(b"".join(r) if isinstance(r, list) else bytes(r))
            return r
        return f

    def on_hook(hook):
        if hook.name == ("requestheaders" if direction == "request" else "responseheaders"):
            f = hook.args()[0]
            msg = f.request if direction == "request" else f.response
            if f.error is None:
                a = X.choose("addon_stream", addons)
                addon_choice[0] = a
                if a == "true":
                    msg.stream = True
                elif a != "none":
                    msg.stream = transform(a)
        return True

    with _Env(L, T):
        ctx = sansio.make_context(opts)
        layer = H.HttpLayer(ctx, H.HTTPMode.regular)
        d = sansio.Driver(layer, ctx)
        d.on_hook = on_hook
        d.start()
        stream_obj = [None]
        state = {"mode": "buffer", "S": 0, "recv": b""}
        maxc = max([len(c) for c in chunks] or [0])
        src = ctx.client if direction == "request" else None  # connection the body arrives on
        peer_is_server = direction == "request"

        def peer_bytes():
            if peer_is_server:
                return b"".join(b for c, b in d.sent_log if c is not ctx.client)
            return d.sent_to(ctx.client)

        def peer_body_so_far():
            raw = peer_bytes()
            i = raw.find(b"\r\n\r\n")
            if i < 0:
                return None, None
            head, rest = raw[:i + 4], raw[i + 4:]
            if b"transfer-encoding: chunked" in head.lower():
                data, complete, garbage = _dechunk(rest)
                return data, garbage
            return rest, b""

        def bufs():
            s = stream_obj[0]
            if s is None:
                s = stream_obj[0] = layer.streams.get(1)
            if s is None:
                return 0
            return len(s.request_body_buf if direction == "request" else s.response_body_buf)

        def expected_stream_output():
            if addon_choice[0] in ("identity", "upper", "split"):
                return b"".join(outs)
            return state["recv"]

        def monitor(where):
            m = state["mode"]
            held = bufs()
            if m == "buffer" and framing == "cl" and state["S"] == D:
                return  # Content-Length reached: the message is complete and is being forwarded (judged at the end)
            if m == "buffer":
                X.check(held == state["S"], "C07/monitor/buffer-content", f"{where}: buffering, {state['S']} bytes received but {held} held")
                if L is not None:
                    X.check(not bool(held > L + maxc), "C07/monitor/memory-bound", f"{where}: holding {held} bytes > limit {L} + one chunk ({maxc})")
                body, _ = peer_body_so_far()
                X.check(not body, "C07/monitor/forwarded-while-buffering", f"{where}: peer already has body bytes {body!r} although the body is being buffered")
            elif m == "stream":
                body, garbage = peer_body_so_far()
                exp = expected_stream_output()
                X.check(not garbage, f"C07/stream/{direction}/{framing}/bytes-after-last-chunk",
                        f"{where}: the peer saw the terminating chunk and then more bytes: {garbage!r} (received {state['recv']!r}, addon={addon_choice[0]})")
                X.check((body or b"") == exp, f"C07/stream/{direction}/{framing}/not-relayed-immediately",
                        f"{where}: received {state['recv']!r}, transform outputs {exp!r}, but the peer has {body!r} (addon={addon_choice[0]})")
                if not store:
                    X.check(held == 0, "C07/monitor/streaming-holds-bytes", f"{where}: streaming without store_streamed_bodies but {held} bytes held")
            elif m == "aborted":
                if L is not None:
                    X.check(not bool(held > L + maxc), "C07/monitor/memory-bound", f"{where}: holding {held} bytes > limit {L} + one chunk ({maxc}) after abort")

        def oracle_headers():
            # declared size known from Content-Length
            if framing == "cl" and D > 0:
                if L is not None and bool(D > L):
                    state["mode"] = "aborted"
                    X.reach("abort-by-content-length")
                    return
                if T is not None and bool(D > T):
                    state["mode"] = "stream"
                    X.reach("stream-by-content-length")
            has_body_phase = not (framing == "cl" and D == 0)
            if addon_choice[0] not in (None, "none") and has_body_phase:
                state["mode"] = "stream"
                X.reach("stream-by-addon")

        def oracle_chunk(c):
            state["recv"] += c
            if state["mode"] == "buffer":
                state["S"] += len(c)
                if L is not None and bool(state["S"] > L):
                    state["mode"] = "aborted"
                    X.reach("abort-by-buffered-bytes")
                elif T is not None and bool(state["S"] > T):
                    state["mode"] = "stream"
                    X.reach("stream-by-buffered-bytes")
            elif state["mode"] == "stream" and L is not None and bool(len(state["recv"]) > L):
                X.reach("streamed-beyond-limit")

        # ---- head
        if direction == "request":
            head = b"POST http://a.test/up HTTP/1.1\r\nHost: a.test\r\n"
            head += (b"Content-Length: %d\r\n\r\n" % D) if framing == "cl" else b"Transfer-Encoding: chunked\r\n\r\n"
            d.data(ctx.client, head)
        else:
            d.data(ctx.client, b"GET http://a.test/down HTTP/1.1\r\nHost: a.test\r\n\r\n")
            X.check(len(d.opened) == 1 and d.sent_to(d.opened[0]).startswith(b"GET /down"), "C07/harness/not-forwarded", "GET was not forwarded")
            src = d.opened[0]
            head = b"HTTP/1.1 200 OK\r\n"
            head += (b"Content-Length: %d\r\n\r\n" % D) if framing == "cl" else (b"Transfer-Encoding: chunked\r\n\r\n" if framing == "chunked" else b"\r\n")
            d.data(src, head)
        if direction == "request":
            src = ctx.client
        oracle_headers()
        monitor("after headers")
        # ---- body
        for j, c in enumerate(chunks):
            if state["mode"] == "aborted" or not (src.state & ConnectionState.CAN_READ):
                break
            d.data(src, (b"%x\r\n%s\r\n" % (len(c), c)) if framing == "chunked" else c)
            oracle_chunk(c)
            monitor(f"after chunk {j}")
        ended = False
        if state["mode"] != "aborted" and (src.state & ConnectionState.CAN_READ):
            ended = True
            if framing == "chunked":
                d.data(src, b"0\r\n\r\n")
            elif framing == "eof":
                d.close(src)
            if direction == "request":
                X.check(len(d.opened) == 1, "C07/harness/request-not-forwarded", f"complete request but no upstream connection (hooks {d.hook_names})")
                if d.opened[0].state & ConnectionState.CAN_READ:
                    d.data(d.opened[0], b"HTTP/1.1 200 OK\r\nContent-Length: 0\r\n\r\n")
    # ---- verdicts
    flows = d.hooks_named("requestheaders")
    X.check(len(flows) == 1, "C07/harness/flows", f"{len(flows)} flows")
    flow = flows[0]
    msg = flow.request if direction == "request" else flow.response
    mode = state["mode"]
    X.reach(f"final:{mode}")
    errs = d.hook_names.count("error")
    client_out = d.sent_to(ctx.client)
    if mode == "aborted":
        X.check(errs == 1 and flow.error is not None, f"C07/limit/{direction}/no-error-hook", f"oversize body but error hooks={errs}, flow.error={flow.error}")
        X.check(not flow.live, f"C07/limit/{direction}/flow-still-live", "oversize body but flow.live is True")
        _page_ok(X, client_out, f"C07/limit/{direction}/no-error-response", "oversize body", b"POST" if direction == "request" else b"GET")
        if direction == "request":
            X.check(peer_bytes() == b"", "C07/limit/request/forwarded", f"oversize request, yet the server received {peer_bytes()[:80]!r}")
            X.check("request" not in d.hook_names, "C07/limit/request/request-hook", "oversize request, yet the request hook fired")
        else:
            # (_page_ok: the client's bytes are exactly one error response, so no body byte was forwarded)
            X.check("response" not in d.hook_names, "C07/limit/response/response-hook", "oversize response, yet the response hook fired")
        return
    X.check(errs == 0, f"C07/limit/{direction}/spurious-error", f"body within limits (or no limit) but error hook fired: {flow.error}")
    X.check(ended, "C07/harness/not-ended", "body source became unreadable before the end")
    # the peer holds one complete message
    raw = peer_bytes()
    if direction == "request":
        try:
            pm, pos = http1ref.parse_message(raw, 0, "request")
            rest = raw[pos:]
        except (http1ref.Incomplete, http1ref.ParseError) as e:
            X.fail(f"C07/{mode}/request/{framing}/peer-message-broken", f"server-side bytes do not parse as one complete request ({type(e).__name__}: {e}): {raw!r}")
    else:
        closed = not (ctx.client.state & ConnectionState.CAN_WRITE)
        try:
            pm, pos = http1ref.parse_message(raw, 0, "response", b"GET", eof=closed)
            rest = raw[pos:]
        except (http1ref.Incomplete, http1ref.ParseError) as e:
            X.fail(f"C07/{mode}/response/{framing}/peer-message-broken", f"client-side bytes do not parse as one complete response ({type(e).__name__}: {e}; closed={closed}): {raw!r}")
    if mode == "stream" and framing == "chunked":
        X.check(rest == b"", f"C07/stream/{direction}/chunked/bytes-after-last-chunk", f"the peer saw the terminating chunk and then more bytes: {rest!r} (all: {raw!r}, addon={addon_choice[0]})")
    X.check(rest == b"", f"C07/{mode}/{direction}/{framing}/bytes-after-message", f"peer received extra bytes after the message: {rest!r} (all: {raw!r})")
    if mode == "buffer":
        X.check(pm.body == total, f"C07/buffer/{direction}/body-differs", f"buffered body forwarded as {pm.body!r}, received {total!r}")
        X.check((msg.raw_content or b"") == total, f"C07/buffer/{direction}/flow-content", f"flow content {msg.raw_content!r} != {total!r}")
        return
    # streamed
    X.reach("streamed-complete")
    if addon_choice[0] in ("identity", "upper", "split"):
        X.reach("transform-applied")
        X.check(b"".join(calls) == total and b"" not in calls[:-1], f"C07/stream/{direction}/transform-input", f"stream callable was called with {calls}, received {total!r} (must be the received bytes in order, then b'' once)")
        X.check(len(calls) >= 1 and calls[-1] == b"", f"C07/stream/{direction}/transform-no-final-call", f"stream callable never called with b'' at the end: {calls}")
    exp = expected_stream_output()
    X.check(pm.body == exp, f"C07/stream/{direction}/{framing}/body-differs", f"peer body {pm.body!r} != transform(received) {exp!r} (addon={addon_choice[0]}, received {total!r})")
    kept = msg.raw_content
    if store:
        X.reach("stored")
        X.check(kept in (exp, total), f"C07/stream/{direction}/not-stored", f"store_streamed_bodies on, flow content is {kept!r}, relayed {exp!r}")
    else:
        X.check(not kept, f"C07/stream/{direction}/kept-without-store", f"store_streamed_bodies off, but the flow keeps {kept!r}")


def _h2_flow_control():
    from props import C05

    return Symx("h2-relay-under-flow-control", lambda X: C05.h_schedule(X, C05.Cfg(shapes=["H", "H"], resp=["HDT", "HD"], splits=0, window=4)),
                bounds="2 HTTP/2 client streams, response bodies larger than the client's 4-byte INITIAL_WINDOW_SIZE (one with trailers); every interleaving of "
                       "response frames and <= 2 WINDOW_UPDATEs (1 or 64 bytes) per stream (C05's h2-flow-control schedule)",
                encoded=ENCODED + ["mitmproxy.proxy.layers.http._http_h2:BufferedH2Connection.stream_window_updated", "mitmproxy.proxy.layers.http._http_h2:BufferedH2Connection.send_data"],
                must_reach=["end", "answered", "window-update"], parallel_depth=4)


def obligations(tier):
    q = tier == "quick"
    K = 3 if q else 4
    sizes = SIZES if q else [1, 2, 3, 5]
    framings = ["cl", "chunked", "eof"]
    stubs = ["mitmproxy.proxy.layers.http.human.parse_size -> harness ints (symbolic L, T)"]
    reach = ["final:buffer", "final:stream", "final:aborted", "abort-by-content-length", "abort-by-buffered-bytes", "stream-by-content-length",
             "stream-by-buffered-bytes", "stream-by-addon", "streamed-complete", "transform-applied", "stored", "streamed-beyond-limit"]
    return [
        Smt("size-unit-table", _build_unit_queries, bounds="SIZE_UNITS dict literal in the current source; all n >= 0 (unbounded ints)", encoded=ENCODED[:1]),
        Symx("parse-size-arith", h_parse_size, bounds="N symbolic in [0, 2^50] x suffix in {'',b,k,m,g,t} + 6 malformed suffixes; parse_size(None)", encoded=ENCODED[:1],
             must_reach=["valid", "invalid", "none"], stubs=["mitmproxy.utils.human.int -> symbolic N for the digit placeholder", "lru_cache unwrapped"]),
        Symx("early-decision", h_early, bounds="L, T, declared Content-Length D symbolic in [0, 2^40] (D >= 1), limit/threshold set or unset, request and response direction",
             encoded=ENCODED[1:3] + ENCODED[6:7], must_reach=["aborted", "streamed", "buffered"],
             stubs=stubs + ["mitmproxy.proxy.layers.http.expected_http_body_size -> symbolic D for the placeholder Content-Length 77"]),
        Symx("limits-and-streaming", lambda X: h_layer(X, K, sizes, ADDON, framings),
             bounds=f"L, T symbolic in [0, 2^40] (set/unset) x direction x framing {framings} x store_streamed_bodies x <= {K} chunks with sizes from {sizes} x addon stream in {ADDON}",
             encoded=ENCODED[1:], must_reach=reach, stubs=stubs, parallel_depth=4),
        # relaying a body to an HTTP/2 peer under flow control (the bytes must arrive complete and in order): the HTTP/2
        # half of "the peer receives exactly the received bytes ... in order" is decided by C05's flow-control schedule
        # (same harness, imported), because the mechanism (BufferedH2Connection) is shared
        _h2_flow_control(),
    ]
