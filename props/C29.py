"""C29 — raw TCP/UDP relay is exact; each flow ends once.

The real `TCPLayer` / `UDPLayer` are driven sans-io (vf.sansio.Driver, native execution per path) by a
schedule whose steps are solver-enumerated selectors: data from client / server (unique marker payloads),
injected messages towards either side, client close, server close, delivery of the ConnectionClosed
that server.py sends back after a full CloseConnection command, and — as the first selector — how the
server connection comes up (already open / opened on start / open fails).  The "addon" in the message hook
either passes or makes a length-changing edit (part of the step selector).

Oracle = a 20-line reference relay written from the property sentence, compared after EVERY step (so each
schedule also covers all its prefixes):
  * every data / injected event fed before the flow ended appends exactly one message (right direction,
    original content) and fires exactly one message hook;
  * per direction, the payloads of the SendData commands == the recorded message contents (after the
    hook's edit) in order, to the opposite connection, nothing else;
  * TCP: the first close while the other side is still readable => exactly CloseTcpConnection(other,
    half_close=True), no end hook, and data the other way is still relayed afterwards; the second close
    ends the flow; UDP: a close ends the flow;
  * at most one of end/error hook at any time, exactly one once the flow has ended (or the open failed);
    after it nothing is recorded or relayed.
"""
from mitmproxy import connection, tcp, udp
from mitmproxy.connection import ConnectionState
from mitmproxy.proxy import commands, events
from mitmproxy.proxy.layers import tcp as tcp_layer
from mitmproxy.proxy.layers import udp as udp_layer

from vf import sansio
from vf.ob import Symx

LEVEL = "model_checking"
ASSUMPTIONS = [
    "connection state flags are maintained by vf.sansio.Driver exactly as server.py does (handle_connection / close_connection)",
    "hooks complete immediately (blocked-layer scheduling is C04); the addon either leaves the message or replaces its content by a longer one",
    "SendData / Close* are judged at command level (what the layer asks server.py to do)",
    "UDP: a ConnectionClosed from either side ends the flow (there is no half-close for datagrams)",
]
OUTSIDE = ["schedules longer than the stated bound", "payload bytes other than the unique markers (the layers never inspect payloads)",
           "whether server.py can still deliver a message injected towards a connection whose write side was already half-closed",
           "intercepted (withheld) hooks beyond the close-while-hook-pending obligation"]
ENCODED = ["mitmproxy.proxy.layers.tcp:TCPLayer.start", "mitmproxy.proxy.layers.tcp:TCPLayer.relay_messages", "mitmproxy.proxy.layers.tcp:TCPLayer.done",
           "mitmproxy.proxy.layers.udp:UDPLayer.start", "mitmproxy.proxy.layers.udp:UDPLayer.relay_messages", "mitmproxy.proxy.layers.udp:UDPLayer.done"]

_OPTS = sansio.make_options()

_P = {
    "tcp": dict(layer=tcp_layer.TCPLayer, inj=tcp_layer.TcpMessageInjected, msg=tcp.TCPMessage,
                start="tcp_start", message="tcp_message", end="tcp_end", error="tcp_error"),
    "udp": dict(layer=udp_layer.UDPLayer, inj=udp_layer.UdpMessageInjected, msg=udp.UDPMessage,
                start="udp_start", message="udp_message", end="udp_end", error="udp_error"),
}


def h_relay(X, proto, K, reduced=False):
    P = _P[proto]
    ctx = sansio.make_context(_OPTS, transport=proto)
    ctx.server = connection.Server(address=("203.0.113.5", 4433), transport_protocol=proto)
    client, server = ctx.client, ctx.server
    startup = X.choose("startup", ["already-open", "open-ok", "open-fails"])
    ignore = X.boolean("ignore_mode")  # TCPLayer(ignore=True): no flow, no hooks, plain relay
    if startup == "already-open":
        server.state = ConnectionState.OPEN
        server.timestamp_start = 1700000000.5
        server.peername = server.address
    lay = P["layer"](ctx, ignore=ignore)
    flow = lay.flow
    d = sansio.Driver(lay, ctx)
    d.on_open = lambda cmd: "connection refused" if startup == "open-fails" else None
    edits = []

    def on_hook(hook):
        if hook.name == P["message"]:
            m = hook.args()[0].messages[-1]
            if plan["edit"]:
                m.content = b"<edited:" + m.content + b">"
                X.reach("edited")
            edits.append(m.content)
        return True

    d.on_hook = on_hook
    plan = {"edit": False}

    # ---- reference relay
    ref_msgs = []  # (from_client, final content)
    ref_ended = False
    closed_fed = set()  # sides whose ConnectionClosed was fed
    echo = []  # ConnectionClosed events server.py will deliver after a full close command
    seen_cmds = 0
    marker = 0

    def sends(conn):
        return [bytes(c.data) for c in d.trace if isinstance(c, commands.SendData) and c.connection is conn]

    def n_hook(name):
        return sum(1 for n in d.hook_names if n == name)

    def compare(where):
        if flow is not None:
            got = [(m.from_client, bytes(m.content)) for m in flow.messages]
            X.check(got == ref_msgs, f"C29/{proto}/messages-recorded", f"{where}: flow.messages {got} != reference {ref_msgs}")
            X.check(n_hook(P["message"]) == len(ref_msgs), f"C29/{proto}/message-hook-count",
                    f"{where}: {n_hook(P['message'])} message hooks for {len(ref_msgs)} messages")
        X.check(sends(server) == [c for fc, c in ref_msgs if fc], f"C29/{proto}/relay-to-server",
                f"{where}: SendData(server) {sends(server)} != recorded client messages {[c for fc, c in ref_msgs if fc]}")
        X.check(sends(client) == [c for fc, c in ref_msgs if not fc], f"C29/{proto}/relay-to-client",
                f"{where}: SendData(client) {sends(client)} != recorded server messages {[c for fc, c in ref_msgs if not fc]}")
        stray = [c for c in d.trace if isinstance(c, commands.SendData) and c.connection not in (client, server)]
        X.check(not stray, f"C29/{proto}/stray-send", f"{where}: SendData to a foreign connection {stray}")
        if flow is not None:
            n_end, n_err = n_hook(P["end"]), n_hook(P["error"])
            X.check(n_end + n_err <= 1, f"C29/{proto}/end-twice", f"{where}: end hooks={n_end} error hooks={n_err}")
            X.check((n_end + n_err == 1) == ref_ended, f"C29/{proto}/end-hook-timing",
                    f"{where}: flow ended per reference={ref_ended} but end hooks={n_end} error hooks={n_err}")

    d.start()
    if startup == "open-fails":
        ref_ended = True
        X.reach("open-failed")
        if flow is not None:
            X.check(n_hook(P["error"]) == 1 and n_hook(P["end"]) == 0, f"C29/{proto}/open-failure-hooks",
                    f"open failed: error hooks={n_hook(P['error'])} end hooks={n_hook(P['end'])}")
            X.check(flow.error is not None, f"C29/{proto}/open-failure-no-error", "open failed but flow.error is not set")
    else:
        X.check(server in d.opened or startup == "already-open", f"C29/{proto}/not-opened", "server connection was never opened")
    if flow is not None:
        X.check(n_hook(P["start"]) == 1, f"C29/{proto}/start-hook", f"{n_hook(P['start'])} start hooks")
    compare("after start")

    # the variants that differ from the main configuration only in how the layer starts get one step less
    if not (startup == "open-ok" and not ignore):
        K = K - 1
    for step in range(K):
        # full close commands make server.py deliver a ConnectionClosed for that connection later
        for c in d.trace[seen_cmds:]:
            if isinstance(c, commands.CloseConnection) and not getattr(c, "half_close", False) and c.connection not in closed_fed and c.connection not in echo:
                echo.append(c.connection)
        seen_cmds = len(d.trace)
        # menu of enabled steps (deterministic given the earlier choices); "+edit" = the addon edits this message
        menu = []
        for kind, src in (("client-data", client), ("server-data", server)):
            if src.state & ConnectionState.CAN_READ:
                menu.append(kind)
                if not ref_ended and not ignore and not reduced:
                    menu.append(kind + "+edit")
        if flow is not None and not reduced:
            for kind in ("inject-to-server", "inject-to-client"):
                menu.append(kind)
                if not ref_ended:
                    menu.append(kind + "+edit")
        for kind, src in (("client-close", client), ("server-close", server)):
            if src.state & ConnectionState.CAN_READ:
                menu.append(kind)
        if echo:
            menu.append("echo-close")
        if not menu:
            X.reach("nothing-enabled")
            break
        s = X.choose("step", menu)
        plan["edit"] = s.endswith("+edit")
        s = s.replace("+edit", "")
        n_cmds_before = len(d.trace)
        if s in ("client-data", "server-data"):
            src = client if s == "client-data" else server
            payload = b"[%s%d]" % (b"c" if src is client else b"s", marker)
            marker += 1
            n_ed = len(edits)
            d.data(src, payload)
            if not ref_ended:
                X.check(ignore or len(edits) == n_ed + 1, f"C29/{proto}/message-hook-missing", f"{s}: no message hook fired")
                ref_msgs.append((src is client, payload if ignore else edits[-1]))
                X.reach("relayed")
                if closed_fed:
                    X.reach("relayed-after-half-close")
        elif s in ("inject-to-server", "inject-to-client"):
            fc = s == "inject-to-server"
            payload = b"[inj%d]" % marker
            marker += 1
            n_ed = len(edits)
            d.feed(P["inj"](flow, P["msg"](fc, payload)))
            if not ref_ended:
                X.check(len(edits) == n_ed + 1, f"C29/{proto}/message-hook-missing", f"{s}: no message hook fired")
                ref_msgs.append((fc, edits[-1]))
                X.reach("injected")
            else:
                X.reach("injected-after-end")
        elif s in ("client-close", "server-close"):
            src, other = (client, server) if s == "client-close" else (server, client)
            other_readable = bool(other.state & ConnectionState.CAN_READ)
            d.close(src)
            closed_fed.add(src)
            new = d.trace[n_cmds_before:]
            if ref_ended:
                X.check(not new, f"C29/{proto}/commands-after-end", f"{s} after the flow ended produced {new}")
            elif proto == "tcp" and other_readable:
                # half-close: propagate the FIN, keep the flow alive
                X.reach("half-close")
                ok = len(new) == 1 and isinstance(new[0], commands.CloseTcpConnection) and new[0].connection is other and new[0].half_close
                X.check(ok, "C29/tcp/half-close-not-propagated", f"{s} with the other side still readable produced {new}, expected CloseTcpConnection(other, half_close=True)")
            else:
                ref_ended = True
                X.reach("ended-by-close")
        else:  # echo-close
            conn = echo.pop(0)
            d.feed(events.ConnectionClosed(conn))
            X.reach("echo-close")
            X.check(len(d.trace) == n_cmds_before, f"C29/{proto}/commands-after-end", f"ConnectionClosed echo produced {d.trace[n_cmds_before:]}")
        compare(f"step {step} ({s})")
    X.reach("end")


def h_close_pending(X):
    """TCP: a message hook is still pending (slow addon, intercepted message) when the peers close.  Every close must still be
    propagated to the other peer once the hook completes: a lone close as a half-close, both closes as closes of both connections,
    with exactly one end hook."""
    P = _P["tcp"]
    ctx = sansio.make_context(_OPTS, transport="tcp")
    ctx.server = connection.Server(address=("203.0.113.5", 4433), transport_protocol="tcp")
    client, server = ctx.client, ctx.server
    server.state = ConnectionState.OPEN
    server.timestamp_start = 1700000000.5
    server.peername = server.address
    lay = P["layer"](ctx)
    d = sansio.Driver(lay, ctx)
    hold = {"on": True}
    d.on_hook = lambda hook: not (hold["on"] and hook.name == P["message"])
    d.start()
    src = client if X.choose("data_from", ["client", "server"]) == "client" else server
    d.data(src, b"[m0]")
    X.check(len(d.pending_hooks) == 1, "C29/tcp/close-while-hook-pending/harness", f"message hook not pending: {d.hook_names}")
    order = X.choose("closes", ["client", "server", "client,server", "server,client"])
    for side in order.split(","):
        d.close(client if side == "client" else server)
    more = X.boolean("data_after_first_close") and "," not in order
    if more:
        other = server if order == "client" else client
        d.data(other, b"[m1]")
    hold["on"] = False
    while d.pending_hooks:
        d.complete_hook()
    X.reach("ran")
    closes = [(c.connection, bool(getattr(c, "half_close", False))) for c in d.trace if isinstance(c, commands.CloseConnection)]
    n_end = sum(1 for n in d.hook_names if n in (P["end"], P["error"]))
    what = f"data from {'client' if src is client else 'server'}, hook pending, then closes {order}{' + data from the other side' if more else ''}: close commands {[(('client' if c is client else 'server'), h) for c, h in closes]}, hooks {d.hook_names}"
    sent = [(c.connection, bytes(c.data)) for c in d.trace if isinstance(c, commands.SendData)]
    X.check((server if src is client else client, b"[m0]") in sent, "C29/tcp/close-while-hook-pending/message-lost", what)
    if "," in order:
        X.reach("both-closed-while-pending")
        X.check(n_end == 1, "C29/tcp/close-while-hook-pending/end-hook", what)
        for conn, nm in ((client, "client"), (server, "server")):
            X.check(any(c is conn for c, _ in closes), f"C29/tcp/close-while-hook-pending/{nm}-never-closed",
                    f"{what}: the other peer's close was never propagated to the {nm} (its connection lingers until the idle time-out)")
    else:
        other = server if order == "client" else client
        X.check(n_end == 0, "C29/tcp/close-while-hook-pending/ended-on-half-close", what)
        X.check(any(c is other and h for c, h in closes), "C29/tcp/half-close-not-propagated", what)
        if more:
            X.check((client if other is server else server, b"[m1]") in sent, "C29/tcp/close-while-hook-pending/data-after-half-close-lost", what)
            X.reach("relayed-after-half-close")


def obligations(tier):
    kt, ku, kd = (4, 4, 8) if tier == "quick" else (5, 5, 11)
    alpha = "{client data, server data, inject->server, inject->client (each with hook policy pass / length-changing edit), client close, server close, ConnectionClosed echo}"
    must = ["end", "relayed", "injected", "edited", "ended-by-close", "open-failed", "injected-after-end", "echo-close"]
    var = "x startup {already open, open ok, open fails} x ignore-mode (variants other than open-ok/flow get one step less)"
    return [
        Symx("tcp-relay-schedule", lambda X: h_relay(X, "tcp", kt),
             bounds=f"every schedule of {kt} enabled steps (all prefixes judged) over {alpha} {var}",
             encoded=ENCODED[:3], must_reach=must + ["half-close", "relayed-after-half-close"], parallel_depth=3),
        Symx("tcp-halfclose-deep", lambda X: h_relay(X, "tcp", kd, reduced=True),
             bounds=f"every schedule of {kd} enabled steps over the reduced alphabet {{client data, server data, client close, server close, ConnectionClosed echo}} (hook passes) {var}",
             encoded=ENCODED[:3], must_reach=["end", "relayed", "ended-by-close", "open-failed", "echo-close", "half-close", "relayed-after-half-close"], parallel_depth=3),
        Symx("udp-relay-schedule", lambda X: h_relay(X, "udp", ku),
             bounds=f"every schedule of {ku} enabled steps (all prefixes judged) over {alpha} {var}",
             encoded=ENCODED[3:], must_reach=must, parallel_depth=3),
        Symx("tcp-close-while-hook-pending", h_close_pending,
             bounds="TCP: one message from either peer whose tcp_message hook is withheld x {client, server, both in either order} closing meanwhile x data from the other side "
                    "after a lone close; then the hook completes",
             encoded=ENCODED[:3], must_reach=["ran", "both-closed-while-pending", "relayed-after-half-close"]),
    ]
