"""C27 — DNS replies correspond to client queries; TCP framing ignores segmentation.

The real `DNSLayer` is driven sans-io.  (i) TCP framing: solver-chosen streams of length-prefixed
messages are fed unsplit and split at solver-chosen cut points; both runs must forward the same
messages and reach the same closed/open state, and both must agree with the independent RFC 1035
4.2.2 splitter of vf.refs.dnsref; one obligation keeps a length prefix fully symbolic (all 65536
values: zero, shorter than a header, too short, exact, too long, beyond the stream).  (ii) Histories
of <= N events (client query / upstream reply echoing any earlier query / upstream reply with an id
no query used / upstream connect failure / addon sets response / addon sets error) with *symbolic*
message ids, op-codes and RD bits: `DNSLayer.flows` is a dict model keyed by possibly-symbolic ids, so
one path covers every id assignment with the same equal/unequal pattern.  Oracle: every flow handed
to a hook has `.request`; every message sent to the client is a reply whose id and question are
those of some query the client sent; a synthesised SERVFAIL keeps id, question, op-code and RD.
"""
import struct

from vf import dnsshim, sansio, symx
from vf.ob import Symx
from vf.refs import dnsref

LEVEL = "model_checking"
ASSUMPTIONS = [
    "hooks complete immediately; addon behaviour is the selector-chosen action inside dns_request (pass / set response / set error)",
    "upstream replies are either an echo (id + question) of some earlier query, or carry an id that no query used; an upstream that answers a pending id with a different question is outside the menu",
    "struct / bytearray / bytes() / domain_names.cache / DNSLayer.flows replaced by symbolic-octet and symbolic-key models (symbolic runs only; counterexamples replayed on unmodified code)",
    "weaker reading used: a duplicate upstream reply that is forwarded twice still 'answers a query that client sent'",
]
OUTSIDE = ["histories longer than the bound; more than one client connection per layer (a DNSLayer instance serves one client)", "timeouts / retransmission (mitmproxy has none)",
           "TCP streams of more than 3 messages or more than 2 cut points"]
ENCODED = [
    "mitmproxy.proxy.layers.dns:DNSLayer.state_query", "mitmproxy.proxy.layers.dns:DNSLayer.unpack_message", "mitmproxy.proxy.layers.dns:DNSLayer.handle_request",
    "mitmproxy.proxy.layers.dns:DNSLayer.handle_response", "mitmproxy.proxy.layers.dns:DNSLayer.handle_error", "mitmproxy.proxy.layers.dns:pack_message",
    "mitmproxy.dns:DNSMessage.fail", "mitmproxy.dns:DNSMessage.succeed", "mitmproxy.dns:DNSMessage.unpack_from", "mitmproxy.dns:DNSMessage.packed",
]
STUBS = ["struct -> vf.symbytes model", "bytearray/bytes -> vf.dnsshim", "domain_names.cache / DNSLayer.flows -> SymKeyDict", "sansio.Driver.SendData recording keeps SymBytes"]
_OPTS = None


def _setup(X, transport):
    from mitmproxy.proxy.layers import dns as dns_layer
    global _OPTS
    if _OPTS is None:
        _OPTS = sansio.make_options()
    ctx = sansio.make_context(_OPTS, mode="regular", transport=transport)
    ctx.server.address = ("192.0.2.53", 53)
    ctx.server.transport_protocol = transport
    layer = dns_layer.DNSLayer(ctx)
    if X.symbolic:
        layer.flows = dnsshim.SymKeyDict()
        layer.req_buf = dnsshim.SymByteArray()
        layer.resp_buf = dnsshim.SymByteArray()
    d = dnsshim.make_driver(layer, ctx)
    d.start()
    return ctx, layer, d


def _u(v, n):
    return [(v >> (8 * i)) & 0xFF for i in reversed(range(n))]


def _eq_items(a, b):
    a, b = list(a), list(b)
    if len(a) != len(b):
        return False
    for x, y in zip(a, b):
        if x is y:
            continue
        if not (x == y):
            return False
    return True


# ------------------------------------------------------------------------------------------------
# (i) TCP framing

BODIES = {
    "header-only": lambda mid: dnsref.encode(dnsref.Msg(mid, 0x0100, [], [], [], [])),
    "query-a": lambda mid: dnsref.encode(dnsref.Msg(mid, 0x0100, [dnsref.Q((b"a",), 1, 1)], [], [], [])),
    "query-long": lambda mid: dnsref.encode(dnsref.Msg(mid, 0x0100, [dnsref.Q((b"www", b"example", b"org"), 28, 1)], [], [], [])),
}


def _run_stream(X, segments, direction, bodies=()):
    """fresh layer; feed the segments from one side; -> (forwarded payloads, peer closed?, hooks)"""
    ctx, layer, d = _setup(X, "tcp")
    src = ctx.client if direction == "client" else ctx.server
    dst = ctx.server if direction == "client" else ctx.client
    if direction == "server":
        # upstream replies need pending queries (and an upstream connection): the client first sends
        # every message of the stream as a query, so that each intact upstream message echoes a pending id
        for b in bodies:
            d.data(ctx.client, dnsshim.mkbuf(X.symbolic, _u(len(b), 2) + b))
    base = len(d.raw_to(dst))
    for seg in segments:
        try:
            d.data(src, dnsshim.mkbuf(X.symbolic, seg))
        except (symx.Unsupported, symx.Violation):
            raise
        except Exception as e:  # noqa
            X.fail(f"C27/framing/crash/{type(e).__name__}", f"layer raised {type(e).__name__}: {str(e)[:200]}")
    closed = any(c is src for c, _ in d.closed)
    return d.raw_to(dst)[base:], closed, list(d.hook_names)


def _same_runs(X, a, b, what):
    (fa, ca, ha), (fb, cb, hb) = a, b
    X.check(len(fa) == len(fb), f"C27/framing/{what}/message-count", f"unsplit run forwarded {len(fa)} messages, split run {len(fb)}")
    for i, (x, y) in enumerate(zip(fa, fb)):
        X.check(_eq_items(x, y), f"C27/framing/{what}/message-differs", f"forwarded message {i} differs between the unsplit and the split run")
    X.check(ca == cb, f"C27/framing/{what}/closed-differs", f"connection closed: unsplit {ca}, split {cb}")
    X.check(ha == hb, f"C27/framing/{what}/hooks-differ", f"hooks: unsplit {ha}, split {hb}")


def _against_reference(X, stream, bodies, run, what, direction="client"):
    """judge one run against the reference splitter.  A frame shorter than a DNS header must close the
    connection; a frame that is exactly one of the intact messages must be forwarded; any other frame
    (misaligned garbage) may be rejected or accepted — mitmproxy's own decision is followed."""
    fwd, closed, hooks = run
    frames, rest, err = dnsref.split_tcp(stream)
    k = 0
    for fr in frames:
        if len(fr) < 12:
            X.check(closed and len(fwd) == k, f"C27/framing/{what}/short-frame-not-closed", f"a {len(fr)}-octet frame (shorter than a DNS header) did not close the connection")
            X.reach("short-frame-closed")
            return
        intact = any(_eq_items(fr, b) for b in bodies)
        if direction == "server" and not intact and not closed and (k >= len(fwd) or not _eq_items(fwd[k][2:], fr)):
            # a garbage frame from upstream that parses as a message answering no pending query may be ignored
            X.reach("garbage-frame-ignored")
            continue
        if k < len(fwd):
            X.check(_eq_items(fwd[k][2:], fr) and _eq_items(fwd[k][:2], _u(len(fr), 2)), f"C27/framing/{what}/wrong-message",
                    f"forwarded message {k} is not reference frame {k}")
            k += 1
        else:
            X.check(not intact, f"C27/framing/{what}/intact-message-lost", f"reference frame {k} is an intact message but was not forwarded")
            X.check(closed, f"C27/framing/{what}/frame-ignored", f"reference frame {k} neither forwarded nor rejected")
            X.reach("garbage-frame-rejected")
            return
    X.check(k == len(fwd), f"C27/framing/{what}/extra-message", f"{len(fwd)} messages forwarded, reference found {k} frames")
    if err == "zero-length":
        X.check(closed, f"C27/framing/{what}/zero-length-not-closed", "a zero length prefix did not close the connection")
        X.reach("zero-length-closed")
    else:
        X.check(not closed, f"C27/framing/{what}/closed-without-cause", "connection closed although every frame was forwarded")
        if rest:
            X.reach("incomplete-tail-buffered")
        X.reach("all-forwarded")


def h_segmentation(X, max_msgs, max_cuts):
    with dnsshim.installed(X.symbolic, step_limit=200000):
        X.opaque_str(True)
        direction = X.choose("from", ["client", "server"])
        n = X.choose("messages", list(range(1, max_msgs + 1)))
        stream, bodies = [], []
        for i in range(n):
            b = BODIES[X.choose(f"msg{i}", list(BODIES))](0x0101 * (i + 1))
            bodies.append(b)
            stream += _u(len(b), 2) + b
        tail = X.choose("tail", ["none", "one-octet", "prefix-only", "half-message"])
        stream += {"none": [], "one-octet": [0], "prefix-only": [0, 12], "half-message": [0, 12, 9, 9, 1, 0]}[tail]
        ncuts = X.choose("cuts", list(range(1, max_cuts + 1)))
        cuts, lo = [], 0
        for i in range(ncuts):
            c = X.choose(f"cut{i}", list(range(lo, len(stream) + 1)))
            cuts.append(c)
            lo = c
        segs, prev = [], 0
        for c in cuts + [len(stream)]:
            segs.append(stream[prev:c])
            prev = c
        whole = _run_stream(X, [stream], direction, bodies)
        split = _run_stream(X, segs, direction, bodies)
        _same_runs(X, whole, split, "split")
        _against_reference(X, stream, bodies, whole, "unsplit", direction)
        X.reach("compared")
        if any(len(s) == 1 for s in segs):
            X.reach("one-octet-segment")


def h_length_prefix(X, max_msgs):
    """the length prefix of the first message is any 16-bit value; the rest of the stream is exact"""
    with dnsshim.installed(X.symbolic, step_limit=200000):
        X.opaque_str(True)
        direction = X.choose("from", ["client", "server"])
        n = X.choose("messages", list(range(1, max_msgs + 1)))
        L = X.bv("length_prefix", 16)
        stream, bodies = [], []
        for i in range(n):
            b = BODIES[X.choose(f"msg{i}", ["header-only", "query-a"])](0x0101 * (i + 1))
            bodies.append(b)
            stream += (_u(L, 2) if i == 0 else _u(len(b), 2)) + b
        cut = X.choose("cut", list(range(0, len(stream) + 1)))
        whole = _run_stream(X, [stream], direction, bodies)
        split = _run_stream(X, [stream[:cut], stream[cut:]], direction, bodies)
        _same_runs(X, whole, split, "length")
        _against_reference(X, stream, bodies, whole, "length", direction)
        X.reach("compared")


# ------------------------------------------------------------------------------------------------
# (ii) histories


def _decode_payload(X, p, transport, ev):
    items = list(p)
    if transport == "tcp":
        X.check(len(items) >= 2 and _eq_items(items[:2], _u(len(items) - 2, 2)), f"C27/{ev}/tcp-length-prefix", "payload to the client is not one length-prefixed message")
        items = items[2:]
    try:
        return dnsref.decode(items, typed=False)
    except dnsref.RefError as e:
        X.fail(f"C27/{ev}/undecodable-reply", f"payload to the client is not a DNS message: {e}")


def h_history(X, N, transports=("udp", "tcp"), actions=("pass", "respond", "error"), open_may_fail=True, hook_oracle=True):
    with dnsshim.installed(X.symbolic, step_limit=400000):
        X.opaque_str(True)
        from mitmproxy import flow as mflow

        transport = X.choose("transport", list(transports))
        ctx, layer, d = _setup(X, transport)
        state = {"ev": "start", "n_req_hook": 0}
        queries = []  # dicts: id, opcode, rd, qname

        def on_hook(hook):
            flow = hook.args()[0]
            if hook_oracle and not hasattr(flow, "request"):
                X.fail(f"C27/{state['ev']}/{hook.name}-hook-without-request", f"{hook.name} fired for a flow that has no request (event: {state['ev']})")
            if hook.name == "dns_request":
                act = X.choose("request_hook", list(actions))
                state["act"] = act
                if act == "respond":
                    flow.response = flow.request.succeed([])
                elif act == "error":
                    flow.error = mflow.Error("addon says no")
            return True

        def on_open(cmd):
            fail = X.boolean("open_fails") if open_may_fail else False
            state["open_failed"] = fail
            return "connection refused" if fail else None

        d.on_hook = on_hook
        d.on_open = on_open

        def frame(items):
            return (_u(len(items), 2) + items) if transport == "tcp" else items

        def check_client_payloads(start, ev):
            """every message sent to the client answers some query the client sent"""
            out = []
            for p in d.raw_to(ctx.client)[start:]:
                r = _decode_payload(X, p, transport, ev)
                out.append(r)
                X.check(len(r.qd) == 1, f"C27/{ev}/reply-question-count", f"reply to the client has {len(r.qd)} questions")
                cond = False
                for qd in queries:
                    if qd["qname"] == r.qd[0].name:
                        cond = dnsshim._or(cond, dnsshim._eqc(r.id, qd["id"]))
                X.check(cond, f"C27/{ev}/reply-without-query", f"a message was sent to the client whose id/question match no query it sent (question {r.qd[0].name}, event {ev})")
                X.check((r.flags >> 15) == 1, f"C27/{ev}/reply-not-a-response", "message sent to the client has QR=0")
            return out

        for step in range(N):
            menu = ["query"]
            if ctx.server.connected and queries:
                menu += ["reply-echo", "reply-unknown-id"]
            menu.append("stop")
            ev = X.choose("event", menu)
            if ev == "stop":
                break
            state["ev"] = ev
            state["act"] = None
            state["open_failed"] = None
            before = len(d.raw_to(ctx.client))
            try:
                if ev == "query":
                    k = len(queries)
                    qd = {"id": X.bv(f"id{k}", 16), "opcode": X.bv(f"opcode{k}", 4), "rd": X.bv(f"rd{k}", 1), "qname": (b"q%d" % k, b"test")}
                    queries.append(qd)
                    flags = (qd["opcode"] << 11) | (qd["rd"] << 8)
                    msg = dnsref.Msg(qd["id"], flags, [dnsref.Q(qd["qname"], 1, 1)], [], [], [])
                    d.data(ctx.client, dnsshim.mkbuf(X.symbolic, frame(dnsref.encode(msg))))
                elif ev == "reply-echo":
                    j = X.choose("echo_of", len(queries))
                    qd = queries[j]
                    flags = 0x8080 | (qd["opcode"] << 11) | (qd["rd"] << 8)
                    rr = dnsref.RR(qd["qname"], 1, 1, 60, (("raw", "rdata", [192, 0, 2, 1]),))
                    msg = dnsref.Msg(qd["id"], flags, [dnsref.Q(qd["qname"], 1, 1)], [rr], [], [])
                    X.reach("reply-echo")
                    d.data(ctx.server, dnsshim.mkbuf(X.symbolic, frame(dnsref.encode(msg, compress_owner=lambda s, i: True))))
                else:
                    rid = X.bv(f"rid{step}", 16)
                    for qd in queries:
                        X.assume(rid != qd["id"])
                    msg = dnsref.Msg(rid, 0x8180, [dnsref.Q((b"unsolicited", b"test"), 1, 1)], [], [], [])
                    X.reach("reply-unknown-id")
                    d.data(ctx.server, dnsshim.mkbuf(X.symbolic, frame(dnsref.encode(msg))))
            except (symx.Unsupported, symx.Violation):
                raise
            except Exception as e:  # noqa
                X.fail(f"C27/{ev}/crash/{type(e).__name__}", f"layer raised {type(e).__name__}: {str(e)[:200]}")
            new = check_client_payloads(before, ev)
            if ev == "query":
                qd = queries[-1]
                # a message triggered by this query must be about this query's question
                for r in new:
                    if r.qd[0].name != qd["qname"]:
                        reused = any(bool(dnsshim._eqc(o["id"], qd["id"])) for o in queries[:-1])
                        X.fail("C27/id-reuse/stale-reply-replayed" if reused else "C27/query/reply-for-other-question",
                               f"query {len(queries) - 1} ({qd['qname']}, addon action {state['act']}) was answered at once with a reply for {r.qd[0].name}"
                               + (" — an earlier, completed exchange used the same message id" if reused else ""))
                synth = state["act"] == "error" or (state["act"] == "pass" and state["open_failed"])
                if synth:
                    X.check(len(new) == 1, "C27/servfail/count", f"{len(new)} messages sent to the client after an error (expected one SERVFAIL)")
                    r = new[0]
                    X.check(r.id == qd["id"], "C27/servfail/id", "synthesised SERVFAIL has a different id")
                    X.check(r.qd[0].name == qd["qname"], "C27/servfail/question", "synthesised SERVFAIL has a different question")
                    X.check((r.flags & 0xF) == 2, "C27/servfail/rcode", "synthesised error reply is not SERVFAIL")
                    X.check(((r.flags >> 11) & 0xF) == qd["opcode"], "C27/servfail/opcode", "synthesised SERVFAIL does not keep the op-code")
                    X.check(((r.flags >> 8) & 1) == qd["rd"], "C27/servfail/rd", "synthesised SERVFAIL does not keep the RD bit")
                    X.check("dns_error" in d.hook_names, "C27/servfail/no-error-hook", "no dns_error hook before the SERVFAIL")
                    X.reach("servfail-open-failed" if state["act"] == "pass" else "servfail-hook-error")
                elif state["act"] == "respond":
                    X.check(len(new) == 1 and new[0].id == qd["id"], "C27/hook-response/not-delivered", "the addon's response was not delivered with the query's id")
                    X.reach("hook-response")
                elif state["act"] == "pass":
                    if len(new) != 0:
                        reused = any(bool(dnsshim._eqc(o["id"], qd["id"])) for o in queries[:-1])
                        X.fail("C27/id-reuse/stale-error-replayed" if reused else "C27/query/premature-reply",
                               f"query {len(queries) - 1} was passed by the addon and upstream is reachable, yet it was answered at once (rcode {new[0].flags & 0xF})"
                               + (" — an earlier exchange with the same message id had ended in an error" if reused else ""))
                    fw = d.raw_to(ctx.server)
                    X.check(len(fw) >= 1, "C27/query/not-forwarded", "query was not forwarded upstream")
                    X.reach("query-forwarded")
            elif ev == "reply-echo":
                X.check(len(new) == 1, "C27/reply-echo/not-delivered", f"{len(new)} messages sent to the client for a matching upstream reply")
        if len(queries) >= 2:
            X.reach("two-queries")
        X.reach("end")


def obligations(tier):
    q = tier == "quick"
    n_hist = 3 if q else 4
    return [
        Symx("tcp-segmentation", lambda X: h_segmentation(X, 2 if q else 3, 1 if q else 2),
             bounds=f"streams of 1..{2 if q else 3} well-formed messages (3-entry menu) + tail in {{none, 1 octet, bare prefix, half message}}, from the client or from the server; "
                    f"every placement of {1 if q else '1..2'} cut point(s); unsplit vs split vs reference splitter",
             encoded=ENCODED[:2], must_reach=["compared", "all-forwarded", "incomplete-tail-buffered", "one-octet-segment"], stubs=STUBS, parallel_depth=3, budget_s=1500 if q else 3600),
        Symx("tcp-length-prefix", lambda X: h_length_prefix(X, 2),
             bounds="1..2 messages (2-entry menu), the first length prefix any 16-bit value (zero / < 12 / short / exact / long / beyond the stream), one cut point anywhere; from client or server",
             encoded=ENCODED[:2], must_reach=["compared", "zero-length-closed", "short-frame-closed", "garbage-frame-rejected", "all-forwarded", "incomplete-tail-buffered"],
             stubs=STUBS, parallel_depth=3, budget_s=1500 if q else 3600),
        Symx("history-long", lambda X: h_history(X, n_hist + 1, ("udp",), ("pass", "respond"), False, False),
             bounds=f"as 'history' with <= {n_hist + 1} events, restricted to UDP, dns_request action in {{pass, set response}}, upstream connect succeeds; only the messages sent to the client are judged (hook oracle off)", encoded=ENCODED,
             must_reach=["end", "two-queries", "reply-echo", "reply-unknown-id", "hook-response", "query-forwarded"],
             stubs=STUBS, parallel_depth=4, budget_s=1500 if q else 3600),
        Symx("history", lambda X: h_history(X, n_hist),
             bounds=f"every history of <= {n_hist} events over {{client query (id, op-code, RD symbolic; equal or different ids), upstream reply echoing any earlier query (pending / answered / duplicate), "
                    "upstream reply with an id no query used}} x dns_request action {pass, set response, set error} x upstream connect {ok, fails}; UDP and TCP",
             encoded=ENCODED, must_reach=["end", "two-queries", "reply-echo", "reply-unknown-id", "servfail-open-failed", "servfail-hook-error", "hook-response", "query-forwarded"],
             stubs=STUBS, parallel_depth=4, budget_s=1500 if q else 3600),
    ]
