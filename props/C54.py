"""C54 — sticky cookies are only sent to hosts and paths they belong to.

The real `stickycookie.domain_match` (which calls the pure-Python stdlib `http.cookiejar.domain_match`)
and the real `StickyCookie.response` / `StickyCookie.request` hooks are executed on solver-enumerated
host / Domain / Path strings (built from label menus) and on solver-enumerated histories of
Set-Cookie responses followed by a request.  Oracle: vf/refs/rfc6265.py (RFC 6265 §5.1.3 domain-match,
§5.1.4 path-match, §5.2.3 Domain canonicalisation) and a reference jar that records, for every cookie
value ever set, its RFC scope and whether it must be gone.  Only the safety direction is asserted
("attached => allowed", "stored => allowed"); mitmproxy storing or attaching *less* is never a violation.
"""
from vf.ob import Symx
from vf.refs import rfc6265

LEVEL = "model_checking"
ASSUMPTIONS = [
    "oracle = vf/refs/rfc6265.py; weak readings: leading dots / the root dot of names are insignificant; a cookie without a Path attribute "
    "may go to every path (mitmproxy's documented default '/'); a host-only cookie may also go to sub-domains (the property sentence only "
    "requires a domain-match with the cookie's domain); an expired Set-Cookie must remove at least the cookie with the identical raw "
    "(name, Domain, port, Path) key",
    "the sticky filter is '.*' (every flow matches), installed by flowfilter.parse as StickyCookie.configure does",
    "wall clock: Max-Age=0 and a 1970 Expires date are in the past, Max-Age=3600 is in the future",
]
OUTSIDE = ["public-suffix handling (Domain=com)", "IDNA / punycode canonicalisation of hosts", "cookie attribute syntax errors (C34)",
           "histories longer than the stated bound"]
ENCODED = ["mitmproxy.addons.stickycookie:domain_match", "mitmproxy.addons.stickycookie:ckey", "mitmproxy.addons.stickycookie:StickyCookie.response",
           "mitmproxy.addons.stickycookie:StickyCookie.request", "http.cookiejar:domain_match", "http.cookiejar:is_HDN",
           "mitmproxy.net.http.cookies:is_expired", "mitmproxy.net.http.cookies:get_expiration_ts", "mitmproxy.net.http.cookies:parse_set_cookie_header"]


def _classify_domain(host, dom):
    h, d = rfc6265.canon_host(host), rfc6265.canon_domain_attr(dom)
    if d and d in h and not h.endswith(d):
        return "inner-substring"
    if d and h.endswith(d):
        return "suffix-without-dot-boundary"
    return "other"


# ------------------------------------------------------------------------------------------
# (i) kernels


def _name(X, tag, labels, maxn):
    n = X.choose(f"{tag}_n", maxn) + 1
    return ".".join(X.choose(f"{tag}_label", labels) for _ in range(n))


def h_domain_kernel(X, host_labels, hmax, dom_labels, dmax):
    from mitmproxy.addons import stickycookie

    host = _name(X, "host", host_labels, hmax)
    dom = ("." if X.boolean("dom_dot") else "") + _name(X, "dom", dom_labels, dmax)
    # a request host / Domain attribute consisting only of dots (or empty) is degenerate: no caller produces such a host and
    # RFC 6265 5.2.3 ignores an empty Domain attribute
    X.assume(host.strip(".") != "" and dom.strip(".") != "")
    got = stickycookie.domain_match(host, dom)
    exp = rfc6265.host_matches_attr(host, dom)
    X.reach("decided")
    if got:
        X.reach("real-match")
    if got and exp:
        X.reach("both-match")
    if got and not exp:
        X.fail(f"C54/domain-match/{_classify_domain(host, dom)}",
               f"stickycookie.domain_match({host!r}, {dom!r}) is True but {host!r} does not domain-match {dom!r} (RFC 6265 5.1.3)", host=host, domain=dom)


HOST_PRE = ["", "www.", "a.b.", "evil-", "evil", "WWW."]
HOST_SUF = ["", ".evil.org", ".", "evil.org", ".org"]
DOM_REAL = ["example.com", "com", "xample.com", "le.com", "example.com.evil.org", "evil.org", "Example.COM", "example.com.", "www.example.com", "b.example.com"]


def h_domain_real(X):
    from mitmproxy.addons import stickycookie

    host = X.choose("prefix", HOST_PRE) + "example.com" + X.choose("suffix", HOST_SUF)
    dom = ("." if X.boolean("dom_dot") else "") + X.choose("domain", DOM_REAL)
    got = stickycookie.domain_match(host, dom)
    exp = rfc6265.host_matches_attr(host, dom)
    X.reach("decided")
    if got and exp:
        X.reach("both-match")
    if got and not exp:
        X.fail(f"C54/domain-match/{_classify_domain(host, dom)}",
               f"stickycookie.domain_match({host!r}, {dom!r}) is True but {host!r} does not domain-match {dom!r} (RFC 6265 5.1.3)", host=host, domain=dom)


_FLT = []


def _mk_sc():
    from mitmproxy import flowfilter
    from mitmproxy.addons import stickycookie

    if not _FLT:
        _FLT.append(flowfilter.parse(".*"))  # parsed once (2 ms of pyparsing), never mutated
    sc = stickycookie.StickyCookie()
    sc.flt = _FLT[0]
    return sc


def _flow(host, port, path, set_cookie=None):
    from mitmproxy.test import tflow, tutils

    f = tflow.tflow(req=tutils.treq(host=host, port=port, path=path.encode(), headers=__import__("mitmproxy.http").http.Headers(), content=b""),
                    resp=set_cookie is not None)
    if set_cookie is not None:
        for line in ([set_cookie] if isinstance(set_cookie, str) else set_cookie):
            f.response.headers.add("Set-Cookie", line)
    return f


def _sent(f):
    """cookie pairs of the request after the hook, parsed independently (values in this harness are plain tokens)"""
    out = []
    for line in f.request.headers.get_all("cookie"):
        for part in line.split(";"):
            part = part.strip()
            if part:
                k, _, v = part.partition("=")
                out.append((k, v))
    return out


SEGS = ["/", "/foo", "/foo/", "/foobar", "/foo/bar", "/fo", "/foo.bar", "/foo?x=1", "/bar"]


def h_path_kernel(X, cpaths, rpaths):
    cp = X.choose("cookie_path", cpaths)
    rp = X.choose("request_path", rpaths)
    sc = _mk_sc()
    sc.response(_flow("example.com", 80, "/", f"c=v1; Path={cp}"))
    stored = any("c" in c for c in sc.jar.values())
    f = _flow("example.com", 80, rp)
    sc.request(f)
    got = ("c", "v1") in _sent(f)
    # RFC 6265 5.2.4: an empty Path / one not starting with "/" means default-path of the setting request ("/" here)
    eff = cp if cp.startswith("/") else rfc6265.default_path("/")
    exp = rfc6265.path_match(rfc6265.request_path(rp), eff)
    X.reach("decided")
    if stored:
        X.reach("stored")
    if got and exp:
        X.reach("both-match")
    if got and not exp:
        boundary = rp.startswith(cp)
        X.fail("C54/path-match/prefix-without-boundary" if boundary else "C54/path-match/other",
               f"cookie set with Path={cp} is attached to a request for {rp} (RFC 6265 5.1.4: no path-match)", cookie_path=cp, request_path=rp)


# ------------------------------------------------------------------------------------------
# (ii) histories through the real hooks against a reference jar

H_SAME, H_SUB, H_SIB, H_LOOK, H_INNER = "example.com", "www.example.com", "api.example.com", "evil-example.com", "www.example.com.evil.org"
REQ_HOSTS = [H_SAME, H_SUB, H_SIB, H_LOOK, H_INNER]
DOM_ATTRS = [None, "example.com", ".example.com", ".evil.org"]
PATH_ATTRS = [None, "/foo"]
PAST = "Thu, 01-Jan-1970 00:00:00 GMT"
EXPIRY = [None, "Max-Age=0", f"Expires={PAST}", "Max-Age=-1", "Max-Age=3600"]  # RFC 6265 5.2.2: a negative Max-Age expires the cookie as well


class RefJar:
    """what RFC 6265 (weak readings, see ASSUMPTIONS) allows; cookies are identified by their unique value"""

    def __init__(self):
        self.by_value = {}

    def set_cookie(self, host, port, name, value, dom, path, expiry):
        foreign = dom is not None and not rfc6265.host_matches_attr(host, dom)
        # weak reading: only an *expired* Set-Cookie whose raw key (name, Domain attribute or — for host-only cookies — the setting host,
        # port, Path attribute) is identical to the stored one must remove it; replacement by a live cookie is not demanded
        rawkey = (name, dom, host if dom is None else None, port, path)
        expired = expiry is not None and expiry != "Max-Age=3600"
        rec = dict(name=name, value=value, host=host, port=port, dom=dom, path=path, rawkey=rawkey, foreign=foreign, expired=expired, gone=False)
        if not foreign and expired:
            for r in self.by_value.values():
                if r["rawkey"] == rawkey:
                    r["gone"] = True
        self.by_value[value] = rec

    def storable(self, value):
        r = self.by_value.get(value)
        return r is not None and not r["foreign"] and not r["expired"] and not r["gone"]

    def may_attach(self, value, host, port, target):
        r = self.by_value.get(value)
        if r is None:
            return False, "unknown cookie"
        if r["foreign"]:
            return False, f"foreign Domain={r['dom']} set by {r['host']}"
        if r["expired"] or r["gone"]:
            return False, "expired"
        d = r["dom"] if r["dom"] is not None else r["host"]
        if not rfc6265.host_matches_attr(host, d):
            return False, f"host {host} does not domain-match {d}"
        if port != r["port"]:
            return False, f"port {port} != {r['port']}"
        if r["path"] is not None and not rfc6265.path_match(rfc6265.request_path(target), r["path"]):
            return False, f"path {target} does not path-match {r['path']}"
        return True, ""


def _why_key(rec, host, why):
    if "domain-match" in why or "foreign" in why:
        d = rec["dom"] if rec["dom"] is not None else rec["host"]
        h = rec["host"] if "foreign" in why else host
        return f"C54/domain-match/{_classify_domain(h, d)}"
    if "path" in why:
        return "C54/path-match/prefix-without-boundary"
    if "port" in why:
        return "C54/port-mismatch"
    return "C54/expired-cookie-kept/attached"


def h_history(X, spec):
    sc = _mk_sc()
    ref = RefJar()
    nresp = X.choose("responses", spec["max_responses"] + 1)
    for i in range(nresp):
        first = i == 0
        # one selector per response over the product menu (host, port, Domain, Path, expiry, name): fewer solver declarations per path
        menu = [(h, p, d, pa, e, nm) for h in spec["set_hosts"] for p in ([80] if first else spec["set_ports"]) for d in spec["dom_attrs"] for pa in PATH_ATTRS
                for e in ([None] if first and spec["first_plain"] else spec["expiry"]) for nm in (["c"] if first else spec["names"])]
        host, port, dom, path, expiry, name = X.choose("set_cookie", menu)
        value = f"v{i}"
        line = f"{name}={value}" + (f"; Domain={dom}" if dom is not None else "") + (f"; Path={path}" if path is not None else "") + (f"; {expiry}" if expiry else "")
        lines = [line]
        if not first and spec.get("foreign_first") and X.boolean("foreign_cookie_first"):
            # the same response carries, in an earlier Set-Cookie field, a cookie for a domain the host does not belong to:
            # it must not be stored, and it must not change what happens to the other fields of the response
            fdom = ".example.com" if host.endswith("evil.org") else ".evil.org"
            ref.set_cookie(host, port, "x", f"f{i}", fdom, None, None)
            lines.insert(0, f"x=f{i}; Domain={fdom}")
            X.reach("two-set-cookie-fields")
        ref.set_cookie(host, port, name, value, dom, path, expiry)
        sc.response(_flow(host, port, "/", lines))
        X.reach("response")
        # stored => allowed
        for key, cs in sc.jar.items():
            for n, v in cs.items():
                if not ref.storable(v):
                    r = ref.by_value[v]
                    if r["foreign"]:
                        X.fail(f"C54/domain-match/{_classify_domain(r['host'], r['dom'])}",
                               f"cookie {line!r} from {r['host']} stored under {key} although {r['host']} does not domain-match Domain={r['dom']}", jar_key=list(key))
                                # a Domain attribute without leading dot sent by a sub-domain host is ignored by mitmproxy altogether (RFC 2965 semantics)
                    cls = "dotless-domain-from-subdomain" if dom is not None and not dom.startswith(".") and host.lower() != dom.lower() else "other"
                    X.fail(f"C54/expired-cookie-kept/{cls}", f"after {line!r} from {host}:{port} the jar still holds {n}={v} under {key}", jar_key=list(key))
        if ref.by_value[value]["foreign"]:
            X.reach("foreign-rejected")
        if ref.by_value[value]["expired"] and not ref.by_value[value]["foreign"]:
            X.reach("expiry-processed")
    if not spec.get("do_request", True):
        return
    host, port, target = X.choose("request", [(h, p, t) for h in spec["req_hosts"] for p in spec["req_ports"] for t in spec["req_paths"]])
    f = _flow(host, port, target)
    sc.request(f)
    X.reach("request")
    for n, v in _sent(f):
        X.reach("attached")
        ok, why = ref.may_attach(v, host, port, target)
        if ok:
            X.reach("attached-allowed")
        else:
            rec = ref.by_value.get(v, {"dom": None, "host": host})
            X.fail(_why_key(rec, host, why), f"request to {host}:{port}{target} carries {n}={v}: {why} (history: {[(r['host'], r['port'], r['dom'], r['path']) for r in ref.by_value.values()]})")


def obligations(tier):
    q = tier == "quick"
    hl = ["a", "b", "c", "1", ""] if q else ["a", "b", "c", "1", "", "B"]
    dl = ["a", "b", "c", "1", "", "B"] if q else ["a", "b", "c", "1", "", "B", "ab"]
    hmax, dmax = (3, 2) if q else (4, 2)
    spec_q = dict(max_responses=2, set_hosts=[H_SUB, H_INNER], set_ports=[80, 8080], dom_attrs=DOM_ATTRS, expiry=EXPIRY[:2], first_plain=True,
                  names=["c"], req_hosts=REQ_HOSTS, req_ports=[80, 8080], req_paths=["/foo", "/foobar"])
    spec_t = dict(spec_q, set_hosts=[H_SAME, H_SUB, H_INNER], expiry=EXPIRY, req_paths=["/", "/foo", "/foobar", "/foo/bar"])
    spec_store = dict(spec_t, do_request=False, foreign_first=True, names=["c"] if q else ["c", "d"], expiry=EXPIRY[:4] if q else EXPIRY)
    spec_t3 = dict(max_responses=3, set_hosts=[H_SUB, H_INNER], set_ports=[80], dom_attrs=[None, ".example.com"], expiry=EXPIRY[:2], first_plain=False,
                   names=["c"], req_hosts=REQ_HOSTS, req_ports=[80, 8080], req_paths=["/", "/foo", "/foobar"])
    reach_h = ["response", "request", "attached", "attached-allowed", "foreign-rejected", "expiry-processed"]
    obs = [
        Symx("domain-match-kernel", lambda X: h_domain_kernel(X, hl, hmax, dl, dmax),
             bounds=f"host = 1..{hmax} labels from {hl}, Domain = optional '.' + 1..{dmax} labels from {dl} (empty labels give leading/trailing/double dots; '1' gives IP-like names; 'B' case)",
             encoded=ENCODED[:1] + ENCODED[4:6], must_reach=["decided", "real-match", "both-match"], parallel_depth=3),
        Symx("domain-match-real-names", h_domain_real,
             bounds=f"host = prefix {HOST_PRE} + 'example.com' + suffix {HOST_SUF}; Domain = optional '.' + one of {DOM_REAL}", encoded=ENCODED[:1] + ENCODED[4:6],
             must_reach=["decided", "both-match"]),
        Symx("path-match-kernel", lambda X: h_path_kernel(X, SEGS[:7] + ["foo", ""], SEGS),
             bounds=f"cookie Path from {SEGS[:7] + ['foo', '']} x request target from {SEGS}, through the real response/request hooks", encoded=ENCODED[1:4],
             must_reach=["decided", "stored", "both-match"]),
        Symx("history", lambda X: h_history(X, spec_q if q else spec_t),
             bounds="<= 2 Set-Cookie responses (hosts " + ("" if q else "example.com / ") + "www.example.com / www.example.com.evil.org, port 80 / 8080, Domain none / example.com / "
                    ".example.com / .evil.org, Path none / /foo, expiry none / Max-Age=0 / past Expires" + ("" if q else " / Max-Age=3600") + ") then one request to "
                    "{same, sub, sibling, evil-example.com, www.example.com.evil.org} x port {80, 8080} x path {/, /foo, /foobar" + ("" if q else ", /foo/bar") + "}",
             encoded=ENCODED, must_reach=reach_h, parallel_depth=2),
    ]
    obs.append(Symx("store-and-expire", lambda X: h_history(X, spec_store),
                    bounds="<= 2 Set-Cookie responses, no request; after each response every cookie in the real jar must be allowed by the reference jar "
                           "(hosts example.com / www.example.com / www.example.com.evil.org, second response port 80 / 8080, Domain none / example.com / .example.com / .evil.org, "
                           "Path none / /foo, expiry none / Max-Age=0 / past Expires / Max-Age=-1" + ("" if q else " / Max-Age=3600, cookie names c / d") + "); the second response "
                           "optionally carries a foreign-Domain cookie in an earlier Set-Cookie field",
                    encoded=ENCODED, must_reach=["response", "foreign-rejected", "expiry-processed", "two-set-cookie-fields"], parallel_depth=2))
    if not q:
        obs.append(Symx("history-3", lambda X: h_history(X, spec_t3),
                        bounds="<= 3 Set-Cookie responses (hosts www.example.com / www.example.com.evil.org, port 80, Domain none / .example.com, Path none / /foo, "
                               "expiry none / Max-Age=0) then one request (5 hosts x 2 ports x 3 paths)", encoded=ENCODED, must_reach=reach_h, parallel_depth=4))
    return obs
