"""C32 — message text round-trips for every content type.

The real `Message.set_text / get_text` (with `infer_content_encoding`, `parse_content_type`,
`assemble_content_type`, `encoding.encode/decode`, `set_content/get_content`) are executed
  * natively on texts whose *structure* is enumerated by the solver (engine symx): Content-Type, charset
    parameter, in-body declaration prefix (BOM, <meta charset=X>, <?xml encoding=X?>, @charset "X";) and one or
    two code points from the classes ASCII / Latin-1 high / BMP / astral / lone (escape) surrogate;
  * under CrossHair with a *symbolic code point* (all 1.1 M scalar values in one run) for the header
    configurations whose codecs CrossHair models faithfully (utf-8, latin-1, the html/json utf-8 fallbacks); escape
    surrogates are enumerated by the solver and run natively instead (CrossHair's error-handler models are not faithful).
Oracle (from the property sentence): after `set_text(t)`, `get_text()` is `t`.
Readings chosen (weaker ones, see GUIDE "Oracles"):
  * a leading U+FEFF in the *assigned* text is an encoding signature and may be consumed by the read
    (`t == "\\ufeff" + g` accepted); a U+FEFF that was *not* assigned must not appear;
  * for texts containing escape surrogates (U+DC80..U+DCFF = surrogate-escaped bytes) a strict read may raise
    ValueError (documented), the non-strict read must return the text;
  * the declared charset may only change when the text cannot be represented in it.
"""
from vf.ob import Chx, Symx

LEVEL = "model_checking"
ASSUMPTIONS = [
    "a leading U+FEFF of the assigned text may be consumed as the encoding signature by get_text (weaker reading)",
    "texts with escape surrogates: strict get_text may raise ValueError, get_text(strict=False) must equal the text",
    "CrossHair's codec models for utf-8 / latin-1 (strict, scalar values only) stand for the C codecs in the code-point kernels "
    "(counterexamples are replayed natively; confirmations are cross-checked by the symx class representatives)",
]
OUTSIDE = ["texts longer than declaration prefix + 2 code points", "lone surrogates outside U+DC80..U+DCFF (not surrogate-escaped bytes; set_text raises)",
           "charsets outside the menu", "declarations not at the start of the body", "Content-Encoding combined with text (C31)"]
ENCODED = [
    "mitmproxy.http:Message.set_text", "mitmproxy.http:Message.get_text",
    "mitmproxy.net.http.headers:infer_content_encoding", "mitmproxy.net.http.headers:parse_content_type",
    "mitmproxy.net.http.headers:assemble_content_type", "mitmproxy.net.encoding:encode", "mitmproxy.net.encoding:decode",
]

CTYPES = [None, "text/plain", "text/html", "application/xml", "text/css", "application/json", "application/javascript"]
CHARSETS = [None, "latin-1", "utf-8", "utf-16", "gb2312", "ascii", "bogus"]
CHARSETS_T = CHARSETS + ["utf-32", "UTF-8"]
DECLARED = ["utf-8", "latin-1", "gb2312", "utf-16", "bogus"]
PREFIX = ["none", "bom", "meta", "xml", "css", "late-meta"]
CLASSES = {"ascii": "a", "latin1-high": "\xe9", "bmp": "中", "astral": "\U0001f600", "surrogate": "\udc80",
           "bom-lookalike": "\xff\xfe"}  # the characters U+00FF U+00FE: as latin-1 *bytes* they would be a UTF-16 byte order mark
BOM = "﻿"


def _prefix(kind, x):
    if kind == "none":
        return ""
    if kind == "bom":
        return BOM
    if kind == "meta":
        return f"<meta charset={x}>"
    if kind == "late-meta":
        # the declaration sits behind a long comment (get_text sniffs the whole body, not only its first kilobyte)
        return "<!-- " + "x" * 1500 + f" --><meta charset={x}>"
    if kind == "xml":
        return f'<?xml version="1.0" encoding="{x}"?>'
    return f'@charset "{x}";'


def _representable(text, charset):
    """can `text` be written in the declared charset (python codec of that label)?  None = unknown label"""
    import codecs

    try:
        codecs.lookup(charset)
    except LookupError:
        return None
    try:
        raw = text.encode("gb18030" if charset.lower() in ("gb2312", "gbk") else charset)
    except UnicodeEncodeError:
        return False
    # a body whose first bytes form a byte order mark is read in the BOM's encoding whatever the header says (the property quantifies
    # over bodies carrying BOMs): text that merely *encodes to* such bytes (U+00FF U+00FE in latin-1) is not representable in that charset
    if raw.startswith((b"\xff\xfe", b"\xfe\xff", b"\xef\xbb\xbf", b"\x00\x00\xfe\xff")) and not text.startswith(BOM) \
            and not charset.lower().replace("-", "").replace("_", "").startswith(("utf16", "utf32")):
        return False
    return True


def h_text(X, thorough):
    from mitmproxy import http
    from mitmproxy.net.http.headers import parse_content_type

    ct = X.choose("content_type", CTYPES)
    cs = X.choose("charset", CHARSETS_T if thorough else CHARSETS) if ct is not None else None
    pk = X.choose("prefix", PREFIX)
    decl = X.choose("declared", DECLARED) if pk in ("meta", "xml", "css", "late-meta") else None
    c1 = X.choose("cp1", list(CLASSES))
    c2 = X.choose("cp2", ["none"] + (list(CLASSES) if thorough else ["latin1-high", "ascii"]))
    # a character in front of / inside the declaration: whether the declaration still counts must be answered identically
    # by the writing and the reading side (the sniffers work on an ASCII projection of the text resp. on the raw bytes)
    lead = X.choose("before_declaration", ["none", "latin1-high", "bmp", "nbsp-inside"]) if decl is not None else "none"
    pre = _prefix(pk, decl)
    if lead == "nbsp-inside":
        pre = pre.replace(" ", "\xa0", 1) if " " in pre else "\xa0" + pre
    elif lead != "none":
        pre = CLASSES[lead] + pre
    if lead != "none":
        X.reach("non-ascii-before-declaration")
    text = pre + CLASSES[c1] + (CLASSES[c2] if c2 != "none" else "")
    h = http.Headers()
    header = None
    if ct is not None:
        header = ct + (f"; charset={cs}" if cs else "")
        h["Content-Type"] = header
    if X.boolean("is_request"):
        m = http.Request("example.com", 80, b"POST", b"http", b"", b"/", b"HTTP/1.1", h, b"", None, 0, 0)
    else:
        m = http.Response(b"HTTP/1.1", 200, b"OK", h, b"", None, 0, 0)
    has_sur = "surrogate" in (c1, c2)
    short = (ct or "none").split("/")[-1]
    cfg = f"Content-Type {header!r}, text {text!r}"
    try:
        m.set_text(text)
    except ValueError as e:
        X.fail(f"C32/set-raises/{short}/{cs}", f"{cfg}: set_text raised {type(e).__name__}: {e}")
    X.reach("set")
    after = m.headers.get("content-type")
    raw = m.raw_content
    try:
        got = m.get_text()
        strict_ok = True
    except ValueError as e:
        got, strict_ok, err = None, False, e
    lenient = m.get_text(strict=False)
    # which reading applies
    sniffed = cs is None and ((pk in ("meta", "late-meta") and ct == "text/html") or (pk == "xml" and ct == "application/xml") or (pk == "css" and ct == "text/css"))

    def same(g):
        return g == text or (text.startswith(BOM) and g == text[1:])

    def klass(g):
        if g is not None and (g == BOM + text or (g.startswith(BOM) and not text.startswith(BOM))):
            return f"bom-prepended/charset-{cs}"
        if sniffed:
            return f"inbody-declaration-overrides/{short}"
        return f"mismatch/{short}/{cs}/{pk}"

    if has_sur:
        X.reach("surrogate")
        if strict_ok:
            X.check(same(got), "C32/" + klass(got), f"{cfg}: get_text() = {got!r} (Content-Type now {after!r}, raw {raw[:40]!r})")
        X.check(same(lenient), "C32/" + klass(lenient), f"{cfg}: get_text(strict=False) = {lenient!r} (Content-Type now {after!r}, raw {raw[:40]!r})")
    else:
        if not strict_ok:
            X.fail("C32/" + klass(None), f"{cfg}: get_text() raised {err} (Content-Type now {after!r}, raw {raw[:40]!r})")
        X.check(same(got), "C32/" + klass(got), f"{cfg}: get_text() = {got!r} (Content-Type now {after!r}, raw {raw[:40]!r})")
        X.check(lenient == got, "C32/strict-lenient-differ", f"{cfg}: strict {got!r} lenient {lenient!r}")
    # declared charset only updated when the text cannot be represented otherwise
    if header is not None and cs is not None:
        rep = _representable(text, cs)
        if rep:
            X.check(after == header, f"C32/charset-changed-needlessly/{cs}", f"{cfg}: Content-Type became {after!r} although the text is representable in {cs}")
            X.reach("charset-kept")
        else:
            p = parse_content_type(after or "")
            X.check(p is not None and p[0] + "/" + p[1] == ct and p[2].get("charset", "").lower().replace("-", "") == "utf8",
                    f"C32/charset-not-updated/{cs}", f"{cfg}: text not representable in {cs!r}, Content-Type now {after!r}")
            X.reach("charset-updated")
    if header is None and _representable(text, "latin-1"):
        X.check(after is None, "C32/charset-invented", f"{cfg}: representable in the latin-1 default but Content-Type {after!r} was added")
    if got is not None and text.startswith(BOM) and got == text[1:]:
        X.reach("bom-consumed")
    X.reach("end")


def h_second_assignment(X):
    """get_text() output assigned again is a fixpoint (text -> bytes -> text -> bytes): the *second* read equals the
    first read for every configuration in which the first round trip held"""
    from mitmproxy import http

    ct = X.choose("content_type", CTYPES[1:])
    cs = X.choose("charset", CHARSETS)
    pk = X.choose("prefix", PREFIX)
    decl = X.choose("declared", DECLARED) if pk in ("meta", "xml", "css", "late-meta") else None
    c1 = X.choose("cp1", ["ascii", "latin1-high", "bmp", "astral"])
    text = _prefix(pk, decl) + CLASSES[c1]
    h = http.Headers()
    h["Content-Type"] = ct + (f"; charset={cs}" if cs else "")
    m = http.Response(b"HTTP/1.1", 200, b"OK", h, b"", None, 0, 0)
    m.set_text(text)
    try:
        g1 = m.get_text()
    except ValueError:
        return
    if not (g1 == text or (text.startswith(BOM) and g1 == text[1:])):
        return  # judged by text-roundtrip
    raw1, ct1 = m.raw_content, m.headers.get("content-type")
    m.set_text(g1)
    try:
        g2 = m.get_text()
    except ValueError as e:
        X.fail("C32/second/get-raises", f"Content-Type {ct1!r}: text {g1!r} read back and assigned again: get_text raised {e}")
    X.check(g2 == g1, "C32/second/not-a-fixpoint", f"Content-Type {ct1!r}: {g1!r} assigned again reads {g2!r}")
    X.check(m.headers.get("content-type") == ct1, "C32/second/header-drifts", f"{ct1!r} -> {m.headers.get('content-type')!r}")
    X.reach("fixpoint")


def h_escape_surrogates(X):
    """every escape surrogate U+DC80..U+DCFF (= every undecodable byte 0x80..0xFF), enumerated by the solver and run
    natively (CrossHair's codec models do not implement the surrogateescape/replace error handlers faithfully:
    a CrossHair kernel for this class confirmed a mutant that fails natively, so it is not used)"""
    from mitmproxy import http

    c = X.int("surrogate", 0xDC80, 0xDCFF)
    ch = chr(c)
    header = X.choose("content_type", [None, "text/plain; charset=utf-8", "text/plain; charset=latin-1", "text/html", "application/json; charset=ascii"])
    text = X.choose("shape", ["{}", "x{}", "{}x", "\xe9{}"]).format(ch)
    h = http.Headers()
    if header:
        h["Content-Type"] = header
    m = http.Response(b"HTTP/1.1", 200, b"OK", h, b"", None, 0, 0)
    try:
        m.set_text(text)
    except ValueError as e:
        X.fail("C32/surrogate/set-raises", f"Content-Type {header!r}: set_text({text!r}) raised {e}")
    lenient = m.get_text(strict=False)
    X.check(lenient == text, "C32/surrogate/lenient-read-differs", f"Content-Type {header!r}: set_text({text!r}); get_text(strict=False) = {lenient!r} (raw {m.raw_content!r})")
    X.check(m.raw_content.count(bytes([c - 0xDC00])) >= 1, "C32/surrogate/byte-not-restored", f"escaped byte 0x{c - 0xDC00:02x} not in raw body {m.raw_content!r}")
    try:
        g = m.get_text()
        X.check(g == text, "C32/surrogate/strict-read-differs", f"Content-Type {header!r}: get_text() = {g!r} for {text!r}")
    except ValueError:
        X.reach("strict-raises")
    X.reach("end")


KERNEL = "props/chx/c32_kernel.py"


class _Chx(Chx):
    """same obligation; the CrossHair child (main and reachability twin) gets at least 150 s per condition.  CrossHair
    returns as soon as the path tree is exhausted / the twin's counterexample is found (2-15 s of CPU), the slack only
    matters on an overloaded machine where the default 30 s twin budget (210 s wall incl. interpreter start) was hit."""

    def _child(self, fn, timeout, seed):
        return super()._child(fn, max(timeout, 150), seed)


def obligations(tier):
    thorough = tier == "thorough"
    to = 150 if tier == "quick" else 1200  # CrossHair stops as soon as the path tree is exhausted (5-15 s unloaded); the slack is for a loaded machine
    cp = "every Unicode scalar value (1,112,064 code points, symbolic) followed by / preceded by one fixed ASCII character"
    obs = [
        Symx("text-roundtrip", lambda X: h_text(X, thorough),
             bounds=f"Content-Type {CTYPES} x charset {CHARSETS_T if thorough else CHARSETS} x prefix {PREFIX} x declared charset {DECLARED} x "
                    f"character in front of / inside the declaration {{none, U+00E9, U+4E2D, U+00A0 replacing the first blank}} x code point classes {list(CLASSES)} x second code point ({'all classes' if thorough else 'none/latin1-high/ascii'}) x request/response",
             encoded=ENCODED, must_reach=["set", "end", "surrogate", "charset-kept", "charset-updated", "bom-consumed", "non-ascii-before-declaration"], parallel_depth=3),
        Symx("second-assignment", h_second_assignment,
             bounds="6 content types x 7 charsets x prefixes x declared charsets x 4 code point classes: get_text() output assigned again",
             encoded=ENCODED[:2], must_reach=["fixpoint"]),
        _Chx("codepoint-latin1", KERNEL, "check_latin1", twin="twin_latin1", timeout=to, bounds="every code point U+0000..U+00FF (symbolic), Content-Type text/plain; charset=latin-1, header unchanged", encoded=ENCODED),
        _Chx("codepoint-no-content-type", KERNEL, "check_no_content_type", twin="twin_no_content_type", timeout=to, bounds="every code point U+0000..U+00FF (symbolic), no Content-Type header (latin-1 fallback)", encoded=ENCODED),
        Symx("escape-surrogates", h_escape_surrogates,
             bounds="every escape surrogate U+DC80..U+DCFF (all 128 undecodable bytes, solver-enumerated) x 5 header configurations x 4 positions; native execution",
             encoded=ENCODED[:2], must_reach=["end", "strict-raises"]),
    ]
    if thorough:
        # since the set_text fix sniffs the body like get_text (ascii-"replace" encode + regex on the symbolic text)
        # these three kernels need minutes instead of seconds: thorough tier only; the quick tier covers the same
        # content types through the class representatives of text-roundtrip
        obs += [
            _Chx("codepoint-utf8", KERNEL, "check_utf8", twin="twin_utf8", timeout=to, bounds=cp + ", Content-Type text/plain; charset=utf-8 (U+FEFF first: signature reading)", encoded=ENCODED),
            _Chx("codepoint-json", KERNEL, "check_json_one", twin="twin_json_one", timeout=to, bounds=cp + ", Content-Type application/json (utf-8 by definition)", encoded=ENCODED),
            _Chx("codepoint-html", KERNEL, "check_html", twin="twin_html", timeout=to, bounds=cp + ", Content-Type text/html without charset (meta sniffing regex runs on the symbolic body)", encoded=ENCODED),
        ]
    return obs
