"""C26 — forwarded DNS messages keep their meaning.

The real `DNSLayer` (UDP and TCP) is driven sans-io with pass-through hooks.  The client query and the
upstream reply are produced by the independent reference *encoder* (vf.refs.dnsref, RFC 1035 name
compression) from solver-enumerated selectors (record type, which names are compressed, which name
menu entry) while the octets that are *data* — opaque RDATA of A/AAAA/TXT/unknown types, TTLs, MX
preference, SRV port, SOA serial, header flags — are bit-vector symbols, so "octets that look like a
compression pointer (0xC0 xx)" are in the space by construction.  Whatever the layer sends on is
decoded by the independent type-aware reference *decoder* and compared with what was sent: header,
question, every record; RDATA of name-less types octet for octet, name-bearing types after expanding
compression in their name fields only (names compare ASCII-case-insensitively, RFC 4343).
"""
import struct

from vf import dnsshim, sansio, symx
from vf.ob import Symx
from vf.refs import dnsref

LEVEL = "model_checking"
ASSUMPTIONS = [
    "hooks complete immediately and modify nothing; OpenConnection succeeds",
    "struct / bytearray / bytes() / domain_names.cache replaced by the symbolic-octet models of vf.symbytes and vf.dnsshim (symbolic runs only; "
    "counterexamples are replayed on the unmodified modules with concrete bytes)",
    "oracle = vf.refs.dnsref decoder (RFC 1035 4.1, RFC 3597 4: only the listed RR types carry names); weaker reading: names are compared case-insensitively",
]
OUTSIDE = ["EDNS OPT semantics, DNSSEC record types", "more than one question; more than 2 records per reply", "labels containing '.' or non-IDNA octets (C25)",
           "messages that mitmproxy rejects as unparsable (it is allowed to be stricter; such a reply is reported under key */dropped only for well-formed input)"]
ENCODED = [
    "mitmproxy.proxy.layers.dns:DNSLayer.state_query", "mitmproxy.proxy.layers.dns:DNSLayer.handle_request", "mitmproxy.proxy.layers.dns:DNSLayer.handle_response",
    "mitmproxy.proxy.layers.dns:DNSLayer.unpack_message", "mitmproxy.proxy.layers.dns:pack_message",
    "mitmproxy.dns:DNSMessage.unpack_from", "mitmproxy.dns:DNSMessage.packed",
    "mitmproxy.net.dns.domain_names:record_data_can_have_compression", "mitmproxy.net.dns.domain_names:decompress_from_record_data",
    "mitmproxy.net.dns.domain_names:unpack_from_with_compression", "mitmproxy.net.dns.domain_names:pack",
]
STUBS = ["struct -> vf.symbytes model", "bytearray/bytes -> vf.dnsshim", "domain_names.cache -> SymKeyDict", "sansio.Driver.SendData recording keeps SymBytes"]

QNAMES = [(b"a", b"b"), (b"xn--mnchen-3ya", b"a")]
TYPES = {"A": 1, "AAAA": 28, "TXT": 16, "TYPE65280": 65280, "CNAME": 5, "NS": 2, "PTR": 12, "MX": 15, "SOA": 6, "SRV": 33}
_OPTS = None


def _ctx(transport):
    global _OPTS
    if _OPTS is None:
        _OPTS = sansio.make_options()
    ctx = sansio.make_context(_OPTS, mode="regular", transport=transport)
    ctx.server.address = ("192.0.2.53", 53)
    ctx.server.transport_protocol = transport
    return ctx


def _u(v, n):
    return [(v >> (8 * i)) & 0xFF for i in reversed(range(n))]


def _frame(items, transport):
    return (_u(len(items), 2) + items) if transport == "tcp" else items


def _deframe(X, payloads, transport, key):
    """payload objects sent to one peer -> list of message octet lists"""
    if transport == "udp":
        return [list(p) for p in payloads]
    stream = []
    for p in payloads:
        stream += list(p)
    msgs, rest, err = dnsref.split_tcp(stream)
    X.check(err is None and not rest, key, f"TCP stream to peer is not a sequence of length-prefixed messages (rest={len(rest)}, err={err})")
    return msgs


def _eq_items(a, b):
    a, b = list(a), list(b)
    if len(a) != len(b):
        return False
    for x, y in zip(a, b):
        if x is y:
            continue
        if not (x == y):
            return False
    return True


def _compare(X, sent, got, tname, who, plain=False):
    """sent/got: dnsref.Msg; returns nothing, fails with a (type, field) key on the first difference.
    Failures in name fields of a record none of whose data octets is symbolic (so no octet can merely
    "look like" a pointer) get the key suffix /plain-data: a different defect class."""
    X.check(got.id == sent.id, f"C26/{who}/header/id", "message id changed")
    X.check(got.flags == sent.flags, f"C26/{who}/header/flags", "header flag bits changed")
    X.check(len(got.qd) == len(sent.qd), f"C26/{who}/question/count", "question count changed")
    for a, b in zip(sent.qd, got.qd):
        X.check(dnsref.name_eq(a.name, b.name), f"C26/{who}/question/name", f"question name {a.name} -> {b.name}")
        X.check(b.type == a.type and b.cls == a.cls, f"C26/{who}/question/type-class", "question type/class changed")
    for s in ("an", "ns", "ar"):
        sa, sb = getattr(sent, s), getattr(got, s)
        X.check(len(sa) == len(sb), f"C26/{who}/{s}/count", f"{s} count {len(sa)} -> {len(sb)}")
        for i, (a, b) in enumerate(zip(sa, sb)):
            tn = dnsref.type_name(a.type) if isinstance(a.type, int) else tname
            X.check(dnsref.name_eq(a.name, b.name), f"C26/{tn}/owner", f"{s}[{i}] owner {a.name} -> {b.name}")
            X.check(b.type == a.type, f"C26/{tn}/type", f"{s}[{i}] type changed")
            X.check(b.cls == a.cls, f"C26/{tn}/class", f"{s}[{i}] class changed")
            X.check(b.ttl == a.ttl, f"C26/{tn}/ttl", f"{s}[{i}] ttl changed")
            sfx = "/plain-data" if plain and s == "an" else ""
            # messages that carry an IDN (xn--) name are a class of their own (a recorded defect miscounts their length)
            if any(l.lower().startswith(b"xn--") for q in sent.qd for l in q.name):
                sfx += "/idn-name"
            for fa, fb in zip(a.fields, b.fields):
                if fb[0] == "error":
                    X.fail(f"C26/{tn}/{fa[1]}/unreadable{sfx}", f"{s}[{i}] (type {tn}) field {fa[1]} of the forwarded record cannot be read: {fb[2]}")
                if fa[0] == "name":
                    X.check(dnsref.name_eq(fa[2], fb[2]), f"C26/{tn}/{fa[1]}/name-changed{sfx}", f"{s}[{i}].{fa[1]}: {fa[2]} -> {fb[2]}")
                elif not _eq_items(fa[2], fb[2]):
                    # the recorded defect rewrites octets that LOOK like a compression pointer (top two bits set); data without
                    # such an octet that changes in forwarding is a different failure and gets its own key
                    vals = fa[2] if isinstance(fa[2], (list, tuple)) else [(fa[2] >> (8 * k)) & 0xFF for k in range(fa[3] if len(fa) > 3 else 4)]
                    lookalike = any(bool(v >= 0xC0) for v in vals)
                    X.fail(f"C26/{tn}/{fa[1]}/" + ("pointer-rewrite" if lookalike else "octets-changed"),
                           f"{s}[{i}] (type {tn}) field {fa[1]}: octets changed in forwarding")
            extra = b.fields[len(a.fields):]
            X.check(not extra and len(a.fields) == len(b.fields), f"C26/{tn}/rdata-layout", f"{s}[{i}] rdata layout changed: {extra[:1]}")


def _decode_out(X, items, tname, who):
    try:
        return dnsref.decode(items, lenient=True)
    except dnsref.RefError as e:
        X.fail(f"C26/{tname}/output-malformed", f"{who}: the forwarded message is not decodable by the reference decoder: {e}")


def _record_spec(X, tname, qname, tag="r"):
    """-> (fields for the encoder, set of rdata field names that may be compressed, ttl)"""
    sub = (b"ns",) + qname  # a name that shares a suffix with the question
    other = (b"x", b"y")
    scanned = tname in ("TXT", "MX", "SOA", "SRV")
    ttl = 0x00C0FFEE if scanned else X.bv(f"{tag}.ttl", 32)  # (TTL octets would be symbolic pointer targets for byte-scanned types)
    if tname == "A":
        f = [("raw", "rdata", list(X.bytes(f"{tag}.addr", 4)))]
    elif tname == "AAAA":
        f = [("raw", "rdata", list(X.bytes(f"{tag}.addr", 16)))]
    elif tname == "TYPE65280":
        n = X.choose(f"{tag}.len", [0, 2, 4])
        f = [("raw", "rdata", list(X.bytes(f"{tag}.data", n)))]
    elif tname == "TXT":
        shape = X.choose(f"{tag}.txt", ["1x2", "1x3", "2x1", "long"])
        if shape == "1x2":
            f = [("raw", "rdata", [2] + list(X.bytes(f"{tag}.s", 2)))]
        elif shape == "1x3":
            f = [("raw", "rdata", [3] + list(X.bytes(f"{tag}.s", 3)))]
        elif shape == "2x1":
            f = [("raw", "rdata", [1] + list(X.bytes(f"{tag}.s", 1)) + [1] + list(X.bytes(f"{tag}.t", 1)))]
        else:  # one 192-octet string: the length octet itself is 0xC0
            f = [("raw", "rdata", [0xC0] + list(X.bytes(f"{tag}.s", 1)) + [0x61] * 191)]
    elif tname in ("CNAME", "NS", "PTR"):
        target = X.choose(f"{tag}.target", ["sub", "other", "qname", "root"])
        fn = dnsref.LAYOUT[TYPES[tname]][0][1]
        f = [("name", fn, {"sub": sub, "other": other, "qname": qname, "root": ()}[target])]
    elif tname == "MX":
        target = X.choose(f"{tag}.target", ["sub", "root"])
        f = [("u", "preference", X.bv(f"{tag}.preference", 16), 2), ("name", "exchange", sub if target == "sub" else ())]
    elif tname == "SRV":
        f = [("u", "priority", 1, 2), ("u", "weight", 2, 2), ("u", "port", X.bv(f"{tag}.port", 16), 2), ("name", "target", sub)]
    elif tname == "SOA":
        half = X.choose(f"{tag}.serial_half", ["plain", "hi", "lo"])
        if half == "plain":
            serial = 2024010101
        else:
            s16 = X.bv(f"{tag}.serial16", 16)
            serial = (s16 << 16) | 0x0001 if half == "hi" else (0x7A11 << 16) | s16
        # the SOA names may lie in a zone that occurs nowhere earlier in the message: a compressing server then points the RNAME's
        # suffix INTO the MNAME of the same record data (e.g. amy.ns.cloudflare.com / dns.cloudflare.com for a customer domain)
        zone = X.choose(f"{tag}.soa_zone", ["query-zone", "other-zone"]) if half == "plain" else "query-zone"  # (not crossed with the symbolic serial)
        mname, rname = (sub, (b"h",) + qname) if zone == "query-zone" else ((b"ns", b"zone", b"test"), (b"h", b"zone", b"test"))
        if zone == "other-zone":
            X.reach("pointer-into-own-rdata")
        f = [("name", "mname", mname), ("name", "rname", rname), ("u", "serial", serial, 4), ("u", "refresh", 3600, 4),
             ("u", "retry", 900, 4), ("u", "expire", 604800, 4), ("u", "minimum", 60, 4)]
    else:
        raise AssertionError(tname)
    plain = tname in ("CNAME", "NS", "PTR") or (tname == "SOA" and half == "plain")
    return f, ttl, plain


def h_forward(X, tname, max_records):
    with dnsshim.installed(X.symbolic, step_limit=200000):
        X.opaque_str(True)
        from mitmproxy.proxy.layers import dns as dns_layer

        transport = X.choose("transport", ["udp", "tcp"])
        qname = X.choose("qname", QNAMES)
        rtype = TYPES[tname]
        ctx = _ctx(transport)
        layer = dns_layer.DNSLayer(ctx)
        d = dnsshim.make_driver(layer, ctx)
        d.start()
        # ---- client query
        query = dnsref.Msg(0x1234, 0x0100, [dnsref.Q(qname, rtype, 1)], [], [], [])
        qitems = dnsref.encode(query)
        try:
            d.data(ctx.client, dnsshim.mkbuf(X.symbolic, _frame(qitems, transport)))
        except (symx.Unsupported, symx.Violation):
            raise
        except Exception as e:  # noqa
            X.fail(f"C26/query/crash/{type(e).__name__}", f"layer raised {type(e).__name__}: {str(e)[:200]}")
        X.check(d.hook_names == ["dns_request"], "C26/query/hooks", f"hooks after the query: {d.hook_names}")
        out = _deframe(X, d.raw_to(ctx.server), transport, "C26/query/framing")
        X.check(len(out) == 1, "C26/query/dropped", f"{len(out)} messages forwarded to the server for one query")
        _compare(X, query, _decode_out(X, out[0], "query", "to server"), tname, "query")
        X.reach("query-forwarded")
        # ---- upstream reply
        nrec = X.choose("records", list(range(1, max_records + 1)))
        owner_c = X.boolean("owner_compressed")
        rdata_c = X.choose("rdata_names", ["compressed", "uncompressed", "mixed"]) if rtype in dnsref.LAYOUT else "uncompressed"
        fields, ttl, plain = _record_spec(X, tname, qname)
        an = [dnsref.RR(qname, rtype, 1, ttl, tuple(fields))]
        ar = []
        if nrec >= 2:
            # companion address record for the name in the first record's rdata (or the owner), as servers add
            names = [f[2] for f in fields if f[0] == "name" and f[2]]
            if tname in ("TXT", "MX", "SOA", "SRV"):  # byte-scanned types: keep the octets behind the rdata concrete (they are pointer targets)
                ar.append(dnsref.RR(names[0] if names else qname, 1, 1, 300, (("raw", "rdata", [192, 0, 2, 1]),)))
            else:
                ar.append(dnsref.RR(names[0] if names else qname, 1, 1, X.bv("r2.ttl", 32), (("raw", "rdata", list(X.bytes("r2.addr", 4))),)))
        if nrec >= 3:
            # twin: a second answer of the same type whose rdata names repeat the first record's, so the encoder
            # compresses them to pointers *into the first record's rdata* (offsets that move when mitmproxy
            # expands names in front of them); its data fields are fixed values
            tw = []
            for f in fields:
                if f[0] == "name":
                    tw.append(f)
                elif f[0] == "u":
                    tw.append(("u", f[1], 7, f[3]))
                else:
                    tw.append(("raw", f[1], [7] * len(f[2]) if tname != "TXT" else [len(f[2]) - 1] + [0x62] * (len(f[2]) - 1)))
            an.append(dnsref.RR(qname, rtype, 1, 300, tuple(tw)))
        reply = dnsref.Msg(0x1234, 0x8180, [dnsref.Q(qname, rtype, 1)], an, [], ar)
        seen = []

        def comp_rdata(sec, i, fname):
            if rdata_c == "mixed":
                seen.append(fname)
                return len(seen) % 2 == 1
            return rdata_c == "compressed"

        ritems = dnsref.encode(reply, compress_owner=lambda sec, i: owner_c or sec == "ar", compress_rdata=comp_rdata)
        expected = dnsref.Msg(reply.id, reply.flags, reply.qd, [r._replace(fields=dnsref.norm_fields(r.fields)) for r in an], [],
                              [r._replace(fields=dnsref.norm_fields(r.fields)) for r in ar])
        if not X.symbolic:
            # harness self-check (concrete replays only): the reference decoder reads back what the reference encoder wrote
            back = dnsref.decode(ritems)
            assert [r.fields for r in back.an + back.ar] == [r.fields for r in expected.an + expected.ar], "dnsref encode/decode mismatch"
            assert [r.name for r in back.an + back.ar] == [r.name for r in expected.an + expected.ar], "dnsref owner mismatch"
        before = len(d.raw_to(ctx.client))
        try:
            d.data(ctx.server, dnsshim.mkbuf(X.symbolic, _frame(ritems, transport)))
        except (symx.Unsupported, symx.Violation):
            raise
        except Exception as e:  # noqa
            X.fail(f"C26/{tname}/crash/{type(e).__name__}", f"layer raised {type(e).__name__} on a well-formed reply: {str(e)[:200]}")
        out = _deframe(X, d.raw_to(ctx.client)[before:], transport, f"C26/{tname}/framing")
        X.check(len(out) == 1, f"C26/{tname}/dropped", f"{len(out)} messages forwarded to the client for one well-formed reply; log={d.logs[-1:]}")
        X.check(d.hook_names == ["dns_request", "dns_response"], f"C26/{tname}/hooks", f"hooks: {d.hook_names}")
        got = _decode_out(X, out[0], tname, "to client")
        _compare(X, expected, got, tname, "reply", plain)
        X.reach("reply-forwarded")
        if nrec >= 2:
            X.reach("two-records")
        if nrec >= 3:
            X.reach("twin-record")
        if owner_c:
            X.reach("owner-compressed")
        if rdata_c != "uncompressed":
            X.reach("rdata-compressed")


def h_header(X):
    """header-only view: id and all 16 flag bits symbolic in the query and in the reply"""
    with dnsshim.installed(X.symbolic, step_limit=200000):
        X.opaque_str(True)
        from mitmproxy.proxy.layers import dns as dns_layer

        transport = X.choose("transport", ["udp", "tcp"])
        ctx = _ctx(transport)
        layer = dns_layer.DNSLayer(ctx)
        layer.flows = dnsshim.SymKeyDict() if X.symbolic else layer.flows
        d = dnsshim.make_driver(layer, ctx)
        d.start()
        qname = QNAMES[0]
        mid = X.bv("id", 16)
        query = dnsref.Msg(mid, X.bv("qflags", 16), [dnsref.Q(qname, X.bv("qtype", 16), X.bv("qclass", 16))], [], [], [])
        d.data(ctx.client, dnsshim.mkbuf(X.symbolic, _frame(dnsref.encode(query), transport)))
        out = _deframe(X, d.raw_to(ctx.server), transport, "C26/query/framing")
        X.check(len(out) == 1, "C26/query/dropped", f"{len(out)} messages forwarded to the server")
        _compare(X, query, _decode_out(X, out[0], "query", "to server"), "query", "query")
        reply = dnsref.Msg(mid, X.bv("rflags", 16), query.qd, [], [], [])
        d.data(ctx.server, dnsshim.mkbuf(X.symbolic, _frame(dnsref.encode(reply), transport)))
        out = _deframe(X, d.raw_to(ctx.client), transport, "C26/reply/framing")
        X.check(len(out) == 1, "C26/reply/dropped", f"{len(out)} messages forwarded to the client")
        _compare(X, reply, _decode_out(X, out[0], "reply", "to client"), "reply", "reply")
        X.reach("both-forwarded")


def obligations(tier):
    q = tier == "quick"
    obs = [Symx("fwd-header", h_header, bounds="query and reply with 1 question, no records: id, all 16 flag bits of both messages, qtype, qclass symbolic; UDP and TCP",
                encoded=ENCODED[:7], must_reach=["both-forwarded"], stubs=STUBS + ["DNSLayer.flows -> SymKeyDict"], parallel_depth=3, budget_s=1200)]
    for t in TYPES:
        obs.append(Symx(f"fwd-{t}", (lambda tn: lambda X: h_forward(X, tn, 3))(t),
                        bounds=f"UDP and TCP; question name from {len(QNAMES)} names (ASCII, IDN); reply with 1 {t} answer (+ optional companion A record in the additional section, owner compressed "
                               "against the first record's rdata name; + optional second {t} answer whose rdata names are pointers into the first record's rdata); owner compressed or not; rdata names compressed / uncompressed / mixed; opaque rdata octets, TTL (non-scanned types), "
                               "MX preference, SRV port, SOA serial (either half) fully symbolic; SOA names in the query's zone or in a zone that first occurs inside the record data; TXT as 1-2 character-strings of 1-3 symbolic octets or one 192-octet string",
                        encoded=ENCODED, must_reach=["query-forwarded", "reply-forwarded", "two-records", "twin-record", "owner-compressed"] + (["rdata-compressed"] if TYPES[t] in dnsref.LAYOUT else []) + (["pointer-into-own-rdata"] if t == "SOA" else []),
                        stubs=STUBS, parallel_depth=3 if t in ("TXT", "MX", "SOA", "SRV") else 0, budget_s=1200 if q else 3000))
    return obs
