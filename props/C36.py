"""C36 — flow files round-trip every flow type; reading is total.

Everything is decided by executing mitmproxy's own `tnetstring.dumps/_rdumpq/load/loads/pop/split/parse`,
`FlowWriter.add`, `FlowReader.stream`, `compat.migrate_flow` and the `get_state/from_state` of every flow and
connection class under the symx explorer:

  tnet-roundtrip      values shaped by solver-enumerated selectors: loads(dumps(v)) == v (typed), load() consumes
                      exactly the record, pop() returns exactly the remainder, _rdumpq's size bookkeeping is exact
  tnet-lengths        payload *lengths* are solver-chosen over a contiguous range so that the length-prefix digit
                      count boundaries (9/10, 99/100, 999/1000) are crossed inside nested containers
  reader-total-bytes  the file is a buffer of n fully symbolic bytes (all 256^n contents, one path per behaviour
                      class) read through the real FlowReader/tnetstring/compat code; the C-level consumers
                      (int(), float(), str(.,'utf8'), memoryview) are contract shims listed in STUBS; the buffer is
                      the whole file or the content of a list record (tnetstring layer + error mapping)
  reader-total-version  the same with the symbolic buffer as the value of the "version" key of a flow dict: every
                      version value (any int, byte pair, list, text ...) through compat.migrate_flow / Flow.from_state
  reader-total-states well-formed files whose flow state has one solver-chosen mutation (key removed / value
                      replaced by a value of another type / version changed): flows or FlowReadException, nothing else
  flow-fields / flow-sequences / flow-backup
                      real test flows of every type with solver-chosen field values: read(write(f)).get_state() ==
                      f.get_state() (typed), order kept over <= 3 mixed flows, backup/revert preserved
"""
import io as _io

from vf.ob import Symx
from vf.refs import flowio as F

LEVEL = "model_checking"
ASSUMPTIONS = [
    "payload bytes / code points / int digits are opaque to tnetstring's Python code (length-prefixed format; str(int), int(bytes), "
    "bytes.join, str.encode are C): they are drawn from adversarial menus (delimiters, NUL, 0xff, 1-4 byte UTF-8, digit-count "
    "boundaries), enumerated by the solver; repr(float)/float(bytes) round-trip is trusted",
    "reader-total-bytes: int()/float()/str(.,'utf8')/memoryview on symbolic buffers are contract shims (see STUBS); their "
    "contracts are validated against the C functions by the 'shim-validation' step",
    "flow fields are mitmproxy.test.tflow objects with one or two fields replaced by boundary values of the field's declared type",
    "metadata is restricted to values the wire format represents natively (None/bool/int/float/str/bytes/list/dict); tuples "
    "travel as lists (documented loss, weaker reading of 'serialisable values')",
]
OUTSIDE = [
    "str values containing lone surrogates (not encodable as UTF-8: dumps raises UnicodeEncodeError)", "NaN floats (nan != nan)",
    "the HAR/JSON branch of FlowReader.stream (first byte '{' or BOM + '{'): guarded by a blanket `except Exception` in the source",
    "files longer than the symbolic bound with arbitrary content; simultaneous mutation of more than the stated number of fields",
]
ENCODED = [
    "mitmproxy.io.tnetstring:dumps", "mitmproxy.io.tnetstring:_rdumpq", "mitmproxy.io.tnetstring:load", "mitmproxy.io.tnetstring:loads",
    "mitmproxy.io.tnetstring:parse", "mitmproxy.io.tnetstring:pop", "mitmproxy.io.tnetstring:split",
    "mitmproxy.io.io:FlowWriter.add", "mitmproxy.io.io:FlowReader.stream", "mitmproxy.io.compat:migrate_flow",
    "mitmproxy.flow:Flow.get_state", "mitmproxy.flow:Flow.set_state", "mitmproxy.flow:Flow.from_state",
    "mitmproxy.http:HTTPFlow.get_state", "mitmproxy.http:HTTPFlow.set_state", "mitmproxy.tcp:TCPFlow.set_state",
    "mitmproxy.udp:UDPFlow.set_state", "mitmproxy.dns:DNSFlow.set_state", "mitmproxy.coretypes.serializable:SerializableDataclass.from_state",
    "mitmproxy.coretypes.serializable:SerializableDataclass.get_state", "mitmproxy.coretypes.serializable:_process",
]


# ------------------------------------------------------------------------------------------------
# (i) tnetstring kernel


def _check_value(X, v, where):
    from mitmproxy.io import tnetstring
    import collections

    rec = tnetstring.dumps(v)
    exp = F.norm(v)
    try:
        back = tnetstring.loads(rec)
    except (ValueError, TypeError, IndexError) as e:
        X.fail(f"C36/tnet/{where}/loads-rejects-own-output", f"loads(dumps({v!r:.120})) raised {type(e).__name__}: {e} (record {rec!r:.120})")
    X.check(F.typed_eq(back, exp), f"C36/tnet/{where}/roundtrip", f"loads(dumps({v!r:.120})) == {back!r:.120} (record {rec!r:.120})")
    # the file API consumes exactly the record, whatever follows it
    for trailer in (b"", b"9", b"0:~", b":"):
        fo = _io.BytesIO(rec + trailer)
        got = tnetstring.load(fo)
        X.check(F.typed_eq(got, exp) and fo.tell() == len(rec), f"C36/tnet/{where}/load-consumption",
                f"load() on record {rec!r:.100} + {trailer!r}: value {got!r:.80}, consumed {fo.tell()} of {len(rec)} record bytes")
        got2, rest = tnetstring.pop(memoryview(rec + trailer))
        X.check(F.typed_eq(got2, exp) and bytes(rest) == trailer, f"C36/tnet/{where}/pop-remainder",
                f"pop() on record {rec!r:.100} + {trailer!r} left {bytes(rest)!r:.60}")
    # size bookkeeping of the recursive dumper (nested spans are computed from it)
    q = collections.deque()
    sz = tnetstring._rdumpq(q, 5, v)
    X.check(sz == 5 + len(b"".join(q)) and b"".join(q) == rec, f"C36/tnet/{where}/rdumpq-size", f"_rdumpq returned size {sz - 5} for a {len(b''.join(q))}-byte record")
    return rec


def h_unencodable_str(X):
    """str values that UTF-8 cannot encode (lone surrogates): refusing to write them is allowed (and is what the code
    does today: outside the round-trip claim), but anything that WAS written must load back -- a writer that emits a
    record the strict reader rejects loses that flow and every flow after it"""
    from mitmproxy.io import FlowReader, FlowWriter, tnetstring
    from mitmproxy.test import tflow

    s = X.choose("text", ["\udc80", "a\ud800", "\udfffz", "ok\udcff\u20ac"])
    where = X.choose("where", ["top", "list", "dict-value", "flow-comment", "flow-metadata"])
    if where in ("top", "list", "dict-value"):
        v = s if where == "top" else ([1, s] if where == "list" else {"k": s})
        try:
            rec = tnetstring.dumps(v)
        except (ValueError, UnicodeError):
            X.reach("writer-refuses")
            return
        X.reach("written")
        try:
            back = tnetstring.loads(rec)
        except (ValueError, TypeError, IndexError) as e:
            X.fail("C36/tnet/unencodable-str/written-but-unreadable", f"dumps({v!r}) wrote {rec!r}, which loads() rejects: {type(e).__name__}: {e}")
        X.check(F.typed_eq(back, F.norm(v)), "C36/tnet/unencodable-str/roundtrip", f"{v!r} -> {back!r}")
        return
    f1, f2 = tflow.tflow(resp=True), tflow.ttcpflow()
    if where == "flow-comment":
        f1.comment = s
    else:
        f1.metadata["note"] = s
    buf = _io.BytesIO()
    w = FlowWriter(buf)
    try:
        w.add(f1)
    except (ValueError, UnicodeError):
        X.reach("writer-refuses")
        return
    X.reach("written")
    w.add(f2)
    flows, outcome = F.read_stream(buf.getvalue())
    X.check(outcome == "clean" and len(flows) == 2, "C36/file/unencodable-str/written-but-unreadable",
            f"a flow with {where} = {s!r} was written, but reading the file gives {len(flows)} flows and {outcome}")


def h_tnet(X):
    v = F.shaped_value(X)
    X.reach({type(None): "leaf", bool: "leaf", int: "int", float: "leaf", bytes: "leaf", str: "leaf", list: "list", tuple: "list", dict: "dict"}[type(v)])
    if isinstance(v, (list, tuple, dict)) and any(isinstance(x, (list, tuple, dict)) for x in (v.values() if isinstance(v, dict) else v)):
        X.reach("nested")
    _check_value(X, v, "value")


def h_lengths(X, maxlen):
    """payload length L chosen by the solver over [0, maxlen]; the payload sits at top level, in a list between two
    siblings, as a dict value, or two levels deep, so that every span computation crosses the digit-count boundaries"""
    kind = X.choose("payload", ["bytes", "str-ascii", "str-2byte", "list-of-none", "dict", "int-digits"])
    ctx = X.choose("context", ["top", "list-middle", "dict-value", "deep"])
    L = int(X.int("len", 0, maxlen))
    X.note("len", L)
    if kind == "bytes":
        p = b":" * L
    elif kind == "str-ascii":
        p = "]" * L
    elif kind == "str-2byte":
        p = "é" * L  # ldata = 2L: length prefix counts bytes, not code points
    elif kind == "list-of-none":
        p = [None] * L  # payload 3L bytes
    elif kind == "dict":
        p = {i: b"" for i in range(L)}
    else:
        X.assume(L <= 120)
        p = 10 ** L - 1 if L else 0  # an int with L digits
    if ctx == "top":
        v = p
    elif ctx == "list-middle":
        v = [b"a", p, "z"]
    elif ctx == "dict-value":
        v = {"k": p, "l": 1}
    else:
        v = [[p], {"x": [p, None]}]
    rec = _check_value(X, v, "length")
    n = len(rec)
    for b in (9, 10, 99, 100, 999, 1000):
        if L == b:
            X.reach(f"len-{b}")
    X.reach("checked")


# ------------------------------------------------------------------------------------------------
# (iii) flow state round trip


def _roundtrip(X, flows, where):
    states = [f.get_state() for f in flows]
    data, offs = F.write_flows(flows)
    back, outcome = F.read_stream(data)
    X.check(outcome == "clean", f"C36/{where}/own-file-rejected", f"reading a file just written fails: {outcome}")
    X.check(len(back) == len(flows), f"C36/{where}/count", f"wrote {len(flows)} flows, read {len(back)}")
    for i, (f, g, st) in enumerate(zip(flows, back, states)):
        X.check(type(f) is type(g) and f.id == g.id, f"C36/{where}/order", f"flow {i}: wrote {type(f).__name__} {f.id}, read {type(g).__name__} {g.id}")
        st2 = g.get_state()
        if st2 != st:
            d = F.first_diff(st, st2) or "?"
            X.fail(f"C36/{where}/state/{_field_of(d)}", f"flow {i} ({type(f).__name__}): {d}")
        if not F.typed_eq(st, st2):
            X.fail(f"C36/{where}/state-types", f"flow {i} ({type(f).__name__}): {F.first_diff(st, st2)}")
        # the same comparison on the objects' attributes, without get_state(): a value get_state() drops on both sides
        # (and which therefore never reaches the file) is invisible above
        ad = F.attr_diff(F.attr_view(f), F.attr_view(g))
        if ad:
            top = ad.lstrip(".").split(":")[0].split(".")[0].split("[")[0] or "top"
            X.fail(f"C36/{where}/attribute/{top}", f"flow {i} ({type(f).__name__}): written vs read object attributes differ at {ad}")
    return back


def _field_of(diff):
    """'state['client_conn']['peername']: ...' -> 'client_conn' (violation keys name the top-level state field)"""
    import re

    m = re.match(r"state\['([^']*)'\]", diff)
    return m.group(1) if m else "top"


PAIR_KINDS = ["http-resp", "ws", "tcp-err", "dns-resp"]  # shapes that get every PAIR of field mutations in the thorough tier


def h_flow_fields(X, nmut):
    kind = X.choose("kind", F.FLOW_KINDS)
    f, done = F.mutated_flow(X, "", kind, nmut if kind in PAIR_KINDS else 1)
    if any(n == "backup" for n, _ in done):
        X.assume(False)  # decided by flow-backup
    X.note("mutations", done)
    _roundtrip(X, [f], "flow")
    X.reach("roundtrip")
    if done:
        X.reach("mutated")
    X.reach("kind-" + kind.split("-")[0])


def h_flow_sequences(X, n):
    k = X.choose("count", list(range(1, n + 1)))
    flows = []
    for i in range(k):
        kind = X.choose(f"kind{i}", F.FLOW_KINDS)
        f = F.base_flow(kind)
        flows.append(f)
    # one of the flows gets a solver-chosen mutation of a flow-level field (ids stay distinct)
    j = X.choose("mutated_flow", k) if k < 3 else 1
    muts = [m for m in F.mutations_for(_kind_of(flows[j])) if m[0] in (("comment", "marked", "metadata", "error") if k < 3 else ("comment", "metadata"))]
    mi = X.choose("field", [-1] + list(range(len(muts))))
    if mi >= 0:
        name, _, fn, menu = muts[mi]
        fn(flows[j], menu[X.choose("value", len(menu))])
    _roundtrip(X, flows, "sequence")
    X.reach("roundtrip")
    if k == n:
        X.reach("full-length")


def _kind_of(f):
    from mitmproxy import http, tcp, udp

    if isinstance(f, http.HTTPFlow):
        return "ws" if f.websocket else ("http-resp" if f.response else "http-req")
    if isinstance(f, tcp.TCPFlow):
        return "tcp"
    if isinstance(f, udp.UDPFlow):
        return "udp"
    return "dns-resp" if f.response else "dns-req"


def h_flow_backup(X):
    """a flow that was backed up and then edited: the saved file must reproduce the state (including the backup) and
    reverting the loaded flow must give the same state as reverting the original"""
    kind = X.choose("kind", F.FLOW_KINDS)
    f = F.base_flow(kind)
    f.backup()
    muts = [m for m in F.mutations_for(kind) if m[0] != "backup"]
    name, _, fn, menu = muts[X.choose("field", len(muts))]
    fn(f, menu[X.choose("value", len(menu))])
    st = f.get_state()
    X.assume(st["backup"] is not None)  # the edit changed something
    X.reach("has-backup")
    data, _ = F.write_flows([f])
    back, outcome = F.read_stream(data)
    X.check(outcome == "clean" and len(back) == 1, "C36/backup/own-file-rejected", f"{outcome}")
    g = back[0]
    X.check(g.modified() == f.modified(), "C36/backup/modified-flag", f"modified() {f.modified()} before save, {g.modified()} after load")
    st2 = g.get_state()
    nb = {k: v for k, v in st.items() if k != "backup"}
    nb2 = {k: v for k, v in st2.items() if k != "backup"}
    X.check(F.typed_eq(nb, nb2), "C36/backup/state", f"{F.first_diff(nb, nb2)}")
    X.check(st2["backup"] is not None and F.typed_eq(F.norm(st["backup"]), F.norm(st2["backup"])), "C36/backup/content-lost",
            f"backup content changed: {F.first_diff(F.norm(st['backup']), F.norm(st2['backup'] or {}))}")
    f.revert()
    g.revert()
    r1, r2 = f.get_state(), g.get_state()
    X.check(F.typed_eq(r1, r2), "C36/backup/revert", f"revert() after load differs from revert() before save: {F.first_diff(r1, r2)}")
    X.reach("reverted")
    # strict reading of "identical state": the backup inside the state compares equal as well
    if st2 != st:
        X.fail("C36/backup/not-identical", f"state differs after reload: {F.first_diff(st, st2)}")


# ------------------------------------------------------------------------------------------------
# (ii) totality


def _judge_read(X, fo_or_bytes, where, what):
    """flows or FlowReadException; anything else is a counterexample"""
    from vf import symx

    try:
        flows, outcome = F.read_stream(fo_or_bytes)
    except symx.Unsupported:
        raise
    except Exception as e:  # noqa
        import traceback

        tb = traceback.extract_tb(e.__traceback__)[-1]
        X.fail(f"C36/totality/escape/{type(e).__name__}", f"{where}: FlowReader.stream raised {type(e).__name__}: {str(e)[:80]} "
               f"(from {tb.filename.split('/mitmproxy/')[-1]}:{tb.name}) on {what()}")
    X.reach("flowread" if outcome != "clean" else "clean-end")
    if flows:
        X.reach("yielded-flow")
    return flows, outcome


CONTEXTS = ["top", "top-after-12-digits", "in-list", "version-value"]


def h_total_nesting(X):
    """well-formed tnetstrings nested to a solver-chosen depth (the bounded symbolic buffers cannot reach deep recursion)"""
    depth = X.choose("depth", [1, 30, 400, 1000, 3000, 20000])
    kind = X.choose("container", ["list", "dict-value", "mixed"])
    where = X.choose("where", ["top", "flow-metadata"])
    s = b"0:]"
    for i in range(depth):
        if kind == "list" or (kind == "mixed" and i % 2):
            s = str(len(s)).encode() + b":" + s + b"]"
        else:
            item = b"1:k," + s
            s = str(len(item)).encode() + b":" + item + b"}"
    if where == "flow-metadata":
        # the value of the metadata key of an otherwise well-formed flow file
        from mitmproxy.io import tnetstring

        st = F.base_flow("http-resp").get_state()
        st["metadata"] = {}
        raw = tnetstring.dumps(st)
        empty = b"8:metadata;0:}"
        assert raw.count(empty) == 1
        body = raw[raw.index(b":") + 1:-1].replace(empty, b"8:metadata;" + str(len(b"1:k," + s)).encode() + b":1:k," + s + b"}")
        s = str(len(body)).encode() + b":" + body + b"}"
    X.reach("depth-%d" % depth)
    _judge_read(X, s, f"{kind} nested {depth} deep ({where})", lambda: f"a {len(s)}-byte well-formed tnetstring")


def h_total_bytes(X, n, contexts, nmax=None):
    """the file content is `prefix + n symbolic bytes + suffix`; prefix/suffix put the symbolic region at top level
    (tnetstring.load path), inside a list (pop/split path) or make it the value of the "version" key of a flow dict
    (reaches compat.migrate_flow / Flow.from_state with an arbitrary version value)"""
    from vf import symx

    ctx = X.choose("context", contexts)
    k = X.choose("length", list(range(0, (nmax or {}).get(ctx, n) + 1)))
    sym = X.bytes("b", k)
    if ctx == "top":
        pre, suf = b"", b""
    elif ctx == "top-after-12-digits":
        pre, suf = b"9" * 11 + b"0", b""
        X.assume(k <= 3)
    elif ctx == "in-list":
        pre, suf = b"%d:" % k, b"]"
    else:
        key = b"7:version;"
        pre, suf = b"%d:" % (len(key) + k) + key, b"}"
    items = list(pre) + list(sym) + list(suf)
    if X.symbolic:
        # HAR/JSON branch excluded (OUTSIDE): first byte '{' or UTF-8 BOM followed by '{'
        if len(items) >= 1:
            X.assume(symx.lnot(items[0] == 0x7B))
        if len(items) >= 4:
            bom = (items[0] == 0xEF) & (items[1] == 0xBB) & (items[2] == 0xBF) & (items[3] == 0x7B)
            X.assume(symx.lnot(bom) if not isinstance(bom, bool) else not bom)
    else:
        data = bytes(items)
        X.assume(not data.startswith(b"{") and not data.startswith(b"\xef\xbb\xbf{"))
    with F.sym_reader_env(X):
        _judge_read(X, F.SymFile(items), ctx, lambda: f"file {bytes(symx.concretize(i) for i in items)!r}")
    X.reach("ctx-" + ctx)


REPL = [None, True, 0, -1, 2 ** 70, 1.5, b"", "x", [], {}, [[]], {"a": 1}, [1, 2, 3, 4, 5]]


def _state_paths(st, pre=()):
    if isinstance(st, dict):
        for k2, v in st.items():
            yield pre + (k2,)
            yield from _state_paths(v, pre + (k2,))
    elif isinstance(st, list) and st and len(pre) < 4:
        yield pre + (0,)
        yield from _state_paths(st[0], pre + (0,))


def h_total_states(X, kinds):
    """a well-formed file holding one flow whose state got ONE solver-chosen mutation: a key removed, a value
    replaced by a value of another type, an unexpected key added, or the format version replaced"""
    from mitmproxy.io import tnetstring

    kind = X.choose("kind", kinds)
    st = F.norm(F.base_flow(kind).get_state())
    paths = list(_state_paths(st))
    op = X.choose("mutation", ["replace", "delete", "add-key", "version"])
    if op == "version":
        st["version"] = X.choose("version", [0, 4, 10, 19, 20, 22, (0, 11), (3, 0), (9, 9), "21", None, 21.0, True])
        desc = f"version={st['version']!r}"
    else:
        p = X.choose("path", paths)
        o = st
        for k2 in p[:-1]:
            o = o[k2]
        if op == "delete":
            X.assume(not isinstance(p[-1], int))
            del o[p[-1]]
            desc = f"del {p}"
        elif op == "add-key":
            X.assume(isinstance(o[p[-1]], dict) or len(p) == 1)
            tgt = o[p[-1]] if isinstance(o[p[-1]], dict) else st
            X.assume(p == paths[0] or tgt is not st)
            tgt["unexpected"] = X.choose("extra", [None, b"x"])
            desc = f"extra key in {p if tgt is not st else 'state'}"
        else:
            r = X.choose("replacement", len(REPL))
            X.assume(not F.typed_eq(F.norm(o[p[-1]]), REPL[r]))
            o[p[-1]] = REPL[r]
            desc = f"{p} := {REPL[r]!r}"
    X.note("mutation", desc)
    data = tnetstring.dumps(st)
    _judge_read(X, data, "mutated-state", lambda: f"a {kind} flow file with {desc}")
    X.reach("judged")


def obligations(tier):
    q = tier == "quick"
    maxlen = 130 if q else 1100
    obs = [
        Symx("unencodable-str", h_unencodable_str,
             bounds="4 strings with lone surrogates x {top level, list element, dict value, flow comment, flow metadata}: the writer refuses, or what it wrote loads back (file: followed by a second flow)",
             encoded=ENCODED, must_reach=["writer-refuses"]),
        Symx("tnet-roundtrip", h_tnet,
             bounds="values: None/True/False, ints +-(lead*10^(k-1)+tail | 10^(k-1) | 10^k-1) for k=1..20 digits, 9 floats incl. -0.0/inf/denormal, "
                    "bytes <= 2 over 8 adversarial bytes, str <= 2 over 7 code points (1-4 byte UTF-8, delimiters), list/tuple/dict of <= 2 "
                    "of 15 leaves with 8 key shapes (str/bytes/int/None/bool keys), one more nesting level; 4 trailers after the record",
             encoded=ENCODED[:7], must_reach=["leaf", "int", "list", "dict", "nested"], parallel_depth=3, budget_s=1800 if q else 7200),
        Symx("tnet-lengths", lambda X: h_lengths(X, maxlen),
             bounds=f"every payload length 0..{maxlen} (solver-chosen) x 6 payload kinds (bytes, ascii str, 2-byte-char str, list, dict, int digits<=120) "
                    "x 4 nesting contexts",
             encoded=ENCODED[:7], must_reach=["checked", "len-9", "len-10", "len-99", "len-100"] + ([] if q else ["len-999", "len-1000"]),
             parallel_depth=2, budget_s=1800 if q else 7200),
        Symx("flow-fields", lambda X: h_flow_fields(X, 1 if q else 2),
             bounds=f"10 flow shapes (HTTP request-only/with response/with error, HTTP+WebSocket, TCP, TCP+error, UDP, DNS query/with response/with "
                    f"error) x {'one field mutation' if q else 'one field mutation (every pair of mutations for 4 shapes)'} out of ~95 fields x 2-8 boundary values each (ports, timestamps, "
                    "None, empty, non-ASCII, delimiters, certificates, proxy modes, connection states, headers/trailers, messages, DNS records)",
             encoded=ENCODED[7:], must_reach=["roundtrip", "mutated", "kind-http", "kind-ws", "kind-tcp", "kind-udp", "kind-dns"],
             parallel_depth=2 if q else 3, budget_s=1800 if q else 7200),
        Symx("flow-sequences", lambda X: h_flow_sequences(X, 3),
             bounds="files of 1-3 flows, every sequence of the 10 flow shapes; one flow carries a solver-chosen mutation of a flow-level field "
                    "(comment/marked/metadata/error at any position for <= 2 flows; comment/metadata on the middle flow for 3); order, ids, "
                    "types and full states compared",
             encoded=ENCODED[7:], must_reach=["roundtrip", "full-length"], parallel_depth=3, budget_s=1800 if q else 7200),
        Symx("flow-backup", h_flow_backup,
             bounds="10 flow shapes x backup() followed by one field mutation (every field x every menu value)",
             encoded=ENCODED[7:] + ["mitmproxy.flow:Flow.backup", "mitmproxy.flow:Flow.revert", "mitmproxy.flow:Flow.modified"],
             must_reach=["has-backup", "reverted"], parallel_depth=2, budget_s=1800 if q else 7200),
    ]
    nt, nl, nv = (6, 6, 5) if q else (8, 7, 6)
    obs += [
        Symx("reader-total-bytes", lambda X: h_total_bytes(X, max(nt, nl), ["top", "top-after-12-digits", "in-list"], {"top": nt, "in-list": nl}),
             bounds=f"ALL file contents: k <= {nt} fully symbolic bytes as the whole file (every one of the 256^k buffers); 12 digits + k <= 3 symbolic "
                    f"bytes; a list record holding k <= {nl} symbolic bytes (pop/split path) — tnetstring layer and FlowReader error mapping",
             encoded=ENCODED[2:10], must_reach=["flowread", "clean-end", "ctx-top", "ctx-in-list", "ctx-top-after-12-digits"], stubs=F.sym_reader_env.STUBS,
             parallel_depth=4, budget_s=1800 if q else 7200),
        Symx("reader-total-version", lambda X: h_total_bytes(X, nv, ["version-value"], {}),
             bounds=f"ALL files `N:7:version;` + k <= {nv} symbolic bytes + `}}`: a flow dict whose 'version' value is arbitrary (every int, bytes pair, "
                    "list, text ...) read through compat.migrate_flow and Flow.from_state",
             encoded=ENCODED[2:13], must_reach=["flowread", "ctx-version-value"], stubs=F.sym_reader_env.STUBS, parallel_depth=4, budget_s=1800 if q else 7200),
        Symx("reader-total-states", lambda X: h_total_states(X, ["http-resp", "http-err", "ws", "tcp", "udp", "dns-resp"] if q else F.FLOW_KINDS),
             bounds="well-formed one-flow files (6 flow shapes quick / 10 thorough) with one mutation of the state tree: every key path (depth <= 4, first "
                    "list element) x {delete, replace by one of 13 values of other types, add an unexpected key} + 13 version values",
             encoded=ENCODED[7:], must_reach=["judged", "flowread", "yielded-flow"], parallel_depth=3, budget_s=1800 if q else 7200),
    ]
    obs.append(Symx("reader-total-nesting", h_total_nesting,
                    bounds="well-formed tnetstrings of lists / dicts / alternating containers nested 1, 30, 400, 1000, 3000, 20000 deep, as the whole file "
                           "or as the metadata value of a well-formed HTTP flow",
                    encoded=ENCODED[2:10], must_reach=["flowread", "depth-1", "depth-20000"]))
    from vf.ob import Concrete

    obs.append(Concrete("shim-validation", F.validate_shims, bounds="int() contract of the symbolic decimal parser: all 256 bytes in 4 positions, all class "
                                                                        "sequences of length <= 4 with 2 members each, value agreement"))
    return obs
