"""C06 — translating between HTTP versions preserves message semantics.

Everything below runs the real layers natively; the solver enumerates the header block / message shape from an
alphabet-partition menu (engine symx), and the character-class kernels are decided over all byte values.

  h2-charclass      (symx, symbolic bytes) the real `h2.utilities._reject_illegal_characters` (the first stage of the
                    inbound validation that mitmproxy's H2Configuration switches on) on a field whose name and value are
                    1..3 fully symbolic bytes: accepted => no byte of the name is <= 0x20, >= 0x7f, upper case or a
                    non-leading ':', and the value contains no NUL / CR / LF and no leading / trailing SP / HTAB.
  name-regex        (smt) the language of mitmproxy's own `_valid_header_name` regex, lifted from the current source and
                    interpreted as `re.match` interprets it, contains no string with CR / LF / NUL (and is ⊆ token).
  h2-to-h1          (symx) a real in-memory h2 client peer (validation and normalisation switched OFF, so that arbitrary
                    blocks can be encoded) -> real Http2Server -> HttpLayer -> real Http1Client.  Header block: pseudo-header
                    set (complete, duplicate, unknown, missing, misplaced, values with SP / CR / LF / NUL) + <= N fields from the
                    menu (lower / upper names, ':' SP HTAB CR LF NUL in names and values, >= 2 cookie fields, connection-specific
                    fields, content-length, host).  If mitmproxy forwards anything, the bytes sent upstream must parse with the
                    independent RFC 9112 parser (vf/refs/http1ref.py) as exactly ONE request — nothing left over — with the same
                    method, path, authority-as-Host, field list modulo case and Cookie joining, and body.  Then the HTTP/1
                    answer (menu) must reach the h2 client with the same status, fields (minus connection-specific ones) and body.
  h1-to-h2          (symx) HTTP/1 client bytes (menu) -> Http1Server -> HttpLayer -> Http2Client -> real h2 server peer with
                    inbound validation ON: the decoded request is parse(format(x)) ≅ x; the h2 answer (menu, incl. trailers)
                    comes back to the HTTP/1 client as exactly one well-framed response with the same status / fields / body.
"""
import re

import h2.config
import h2.connection
import h2.events
import h2.exceptions
import h2.utilities
import z3

from mitmproxy.proxy.layers import http
from mitmproxy.proxy.layers.http import HTTPMode

from vf import sansio, smt, symbytes
from vf.ob import Smt, Symx
from vf.refs import http1ref

LEVEL = "model_checking"
ASSUMPTIONS = [
    "validate_inbound_headers is at its default (True); with the option off nothing is promised",
    "the h2 peers are python-hyper h2 4.4.1 / hpack (trusted to encode arbitrary byte strings and to decode what mitmproxy sends)",
    "oracle = vf/refs/http1ref.py (independent strict RFC 9112 parser): CR, LF, NUL inside a line, a request line that is not "
    "`token SP target SP HTTP/1.x`, or a field name that is not a token are parse errors",
    "h2-charclass: iteration over the field's bytes uses vf.symbytes.SymBytes (bytes model with symbolic elements)",
    "regular proxy mode, one request per connection, hooks complete immediately, bodies buffered",
]
OUTSIDE = ["HTTP/3 (shares format/parse helpers; aioquic's encoder is not executed)", "header blocks with more than 3 menu fields",
           "field bytes outside the menu's alphabet partition in the end-to-end obligations (the kernels cover all byte values)",
           "CONNECT / upgrade requests", "1xx responses"]
ENCODED = [
    "mitmproxy.proxy.layers.http._http2:parse_h2_request_headers", "mitmproxy.proxy.layers.http._http2:split_pseudo_headers",
    "mitmproxy.proxy.layers.http._http2:parse_h2_response_headers", "mitmproxy.proxy.layers.http._http2:format_h2_request_headers",
    "mitmproxy.proxy.layers.http._http2:format_h2_response_headers", "mitmproxy.proxy.layers.http._http2:normalize_h1_headers",
    "mitmproxy.proxy.layers.http._http2:Http2Server.handle_h2_event", "mitmproxy.proxy.layers.http._http2:Http2Client._handle_event2",
    "mitmproxy.proxy.layers.http._http1:Http1Client.send", "mitmproxy.proxy.layers.http._http1:Http1Server.send",
    "mitmproxy.net.http.http1.assemble:assemble_request_head", "mitmproxy.net.http.http1.assemble:assemble_response_head",
    "mitmproxy.net.http.validate:validate_headers", "mitmproxy.proxy.layers.http:validate_request",
    "h2.utilities:validate_headers", "h2.utilities:_reject_illegal_characters",
]

OPTS = sansio.make_options()
VAL = "mitmproxy/net/http/validate.py"
CONNECTION_SPECIFIC = {b"connection", b"proxy-connection", b"keep-alive", b"transfer-encoding", b"upgrade"}


# ------------------------------------------------------------------------------------------------
# kernels


def h_charclass(X):
    """all byte values: what h2's inbound validation lets through is free of the characters that would break HTTP/1 framing"""
    nl = X.choose("name_len", [1, 2, 3])
    vl = X.choose("value_len", [0, 1, 2, 3])
    name = X.bytes("n", nl)
    value = X.bytes("v", vl)
    flags = h2.utilities.HeaderValidationFlags(is_client=False, is_trailer=False, is_response_header=False, is_push_promise=False)
    try:
        out = list(h2.utilities._reject_illegal_characters([(name, value)], flags))
    except h2.exceptions.ProtocolError:
        X.reach("rejected")
        return
    X.reach("accepted")
    X.check(len(out) == 1, "C06/charclass/field-dropped", "accepted field not passed on")
    for i in range(nl):
        c = name[i]
        bad = (c <= 0x20) | (c >= 0x7F) | ((c >= 0x41) & (c <= 0x5A))
        if i > 0:
            bad = bad | (c == 0x3A)
        X.check(~bad if not isinstance(bad, bool) else not bad, "C06/charclass/name-byte", f"h2 accepts a field name with an illegal byte at offset {i}")
    for i in range(vl):
        c = value[i]
        bad = (c == 0) | (c == 10) | (c == 13)
        if i in (0, vl - 1):
            bad = bad | (c == 0x20) | (c == 0x09)
        X.check(~bad if not isinstance(bad, bool) else not bad, "C06/charclass/value-byte", f"h2 accepts a field value with NUL/CR/LF or surrounding whitespace at offset {i}")


def _build_regex_queries():
    pat, flags = smt.source_regex(VAL, "_valid_header_name")
    real = re.compile(pat)
    if not isinstance(pat, bytes):
        raise smt.AnchorNotFound("_valid_header_name is expected to be a bytes pattern")
    # regex_to_z3 models a trailing `$` as re.match does: end of string OR before a final newline
    r = smt.regex_to_z3(pat)
    bad = z3.Concat(smt.any_string(True), smt.chars("\r\n\0"), smt.any_string(True))
    s = z3.String("s")

    def rp(w):
        v = w["s"].encode("latin-1", "replace")
        ok = bool(real.match(v)) and any(c in v for c in b"\r\n\0")
        detail = f"_valid_header_name.match({v!r}) succeeds although the name contains CR/LF/NUL"
        if ok:
            from mitmproxy import http as mhttp
            from mitmproxy.net.http import validate

            req = mhttp.Request.make("GET", "http://example.com/", b"", [(v, b"v")])
            try:
                validate.validate_headers(req)
                detail += "; validate_headers() accepts the request and assemble_request_head() emits " + repr(
                    __import__("mitmproxy.net.http.http1.assemble", fromlist=["x"]).assemble_request_head(req))
            except ValueError:
                ok = False
        return ok, detail

    return [
        smt.Query("header-name language excludes CR/LF/NUL", [z3.InRe(s, z3.Intersect(r, bad))], key="C06/regex/header-name-admits-line-terminator",
                  witness_vars=[s], replay=rp),
    ]


# ------------------------------------------------------------------------------------------------
# h2 -> h1

PSEUDO = {
    "complete": [(b":method", b"POST"), (b":scheme", b"http"), (b":path", b"/p?q=1"), (b":authority", b"example.com")],
    "get": [(b":method", b"GET"), (b":scheme", b"http"), (b":path", b"/p"), (b":authority", b"example.com")],
    "with-port": [(b":method", b"POST"), (b":scheme", b"http"), (b":path", b"/p"), (b":authority", b"example.com:8080")],
    "no-authority": [(b":method", b"POST"), (b":scheme", b"http"), (b":path", b"/p")],
    "dup-method": [(b":method", b"POST"), (b":method", b"GET"), (b":scheme", b"http"), (b":path", b"/p"), (b":authority", b"example.com")],
    "dup-path": [(b":method", b"POST"), (b":scheme", b"http"), (b":path", b"/p"), (b":path", b"/other"), (b":authority", b"example.com")],
    "unknown": [(b":method", b"POST"), (b":scheme", b"http"), (b":path", b"/p"), (b":authority", b"example.com"), (b":foo", b"bar")],
    "status-in-request": [(b":method", b"POST"), (b":scheme", b"http"), (b":path", b"/p"), (b":authority", b"example.com"), (b":status", b"200")],
    "missing-path": [(b":method", b"POST"), (b":scheme", b"http"), (b":authority", b"example.com")],
    "missing-method": [(b":scheme", b"http"), (b":path", b"/p"), (b":authority", b"example.com")],
    "missing-scheme": [(b":method", b"POST"), (b":path", b"/p"), (b":authority", b"example.com")],
    "empty-path": [(b":method", b"POST"), (b":scheme", b"http"), (b":path", b""), (b":authority", b"example.com")],
    "upper-pseudo": [(b":Method", b"POST"), (b":scheme", b"http"), (b":path", b"/p"), (b":authority", b"example.com")],
    "path-sp": [(b":method", b"POST"), (b":scheme", b"http"), (b":path", b"/p /x"), (b":authority", b"example.com")],
    "path-crlf": [(b":method", b"POST"), (b":scheme", b"http"), (b":path", b"/p HTTP/1.1\r\nx-inj: 1\r\n\r\nGET /x"), (b":authority", b"example.com")],
    "path-lf": [(b":method", b"POST"), (b":scheme", b"http"), (b":path", b"/p\nx"), (b":authority", b"example.com")],
    "path-nul": [(b":method", b"POST"), (b":scheme", b"http"), (b":path", b"/p\0x"), (b":authority", b"example.com")],
    "path-htab": [(b":method", b"POST"), (b":scheme", b"http"), (b":path", b"/p\tx"), (b":authority", b"example.com")],
    "method-sp": [(b":method", b"GET /admin"), (b":scheme", b"http"), (b":path", b"/p"), (b":authority", b"example.com")],
    "method-cr": [(b":method", b"GET\r"), (b":scheme", b"http"), (b":path", b"/p"), (b":authority", b"example.com")],
    "method-lower-unknown": [(b":method", b"frob"), (b":scheme", b"http"), (b":path", b"/p"), (b":authority", b"example.com")],
    "authority-sp": [(b":method", b"POST"), (b":scheme", b"http"), (b":path", b"/p"), (b":authority", b"example.com evil.com")],
    "authority-crlf": [(b":method", b"POST"), (b":scheme", b"http"), (b":path", b"/p"), (b":authority", b"example.com\r\nx-inj: 1")],
    "authority-at": [(b":method", b"POST"), (b":scheme", b"http"), (b":path", b"/p"), (b":authority", b"user@example.com")],
    "scheme-sp": [(b":method", b"POST"), (b":scheme", b"http x"), (b":path", b"/p"), (b":authority", b"example.com")],
    "pseudo-after-field": [(b":method", b"POST"), (b":scheme", b"http"), (b":path", b"/p"), (b"x-early", b"1"), (b":authority", b"example.com")],
}
PSEUDO_VALID_BASE = ["complete", "get", "with-port"]

FIELDS = [
    # names
    (b"x-lower", b"v"), (b"X-Upper", b"v"), (b"x:colon", b"v"), (b"x sp", b"v"), (b"x\thtab", b"v"), (b"x\rcr", b"v"), (b"x\nlf", b"v"),
    (b"x-trail-lf\n", b"v"), (b"x\0nul", b"v"), (b"", b"v"), (b"x\x80hi", b"v"), (b"x-crlf\r\nx-inj", b"v"),
    # values
    (b"x-v", b""), (b"x-v", b"a b"), (b"x-v", b" lead"), (b"x-v", b"trail\t"), (b"x-v", b"a\tb"), (b"x-v", b"a\rb"), (b"x-v", b"a\nb"),
    (b"x-v", b"a\r\nx-inj: 1"), (b"x-v", b"a\0b"), (b"x-v", b"caf\xc3\xa9"), (b"x-v", b"a:b"),
    # cookies
    (b"cookie", b"a=1"), (b"cookie", b"b=2"), (b"Cookie", b"c=3"),
    # framing / connection-specific / host
    (b"content-length", b"3"), (b"content-length", b"5"), (b"transfer-encoding", b"chunked"), (b"connection", b"close"), (b"te", b"trailers"),
    (b"te", b"gzip"), (b"host", b"example.com"), (b"host", b"evil.example"), (b"upgrade", b"h2c"),
]
BODIES = [None, b"abc"]


def _mk_client_peer(validate_in=True):
    cfg = h2.config.H2Configuration(client_side=True, header_encoding=False, validate_outbound_headers=False, normalize_outbound_headers=False,
                                    validate_inbound_headers=validate_in, normalize_inbound_headers=False)
    return h2.connection.H2Connection(cfg)


def _collect(evs, sid=1):
    r = {"headers": None, "data": b"", "trailers": None, "ended": False, "reset": None, "nheaders": 0, "goaway": None}
    for e in evs:
        if isinstance(e, (h2.events.ResponseReceived, h2.events.RequestReceived)):
            r["headers"] = list(e.headers)
            r["nheaders"] += 1
        elif isinstance(e, h2.events.DataReceived):
            r["data"] += e.data
        elif isinstance(e, h2.events.TrailersReceived):
            r["trailers"] = list(e.headers)
        elif isinstance(e, h2.events.StreamEnded):
            r["ended"] = True
        elif isinstance(e, h2.events.StreamReset):
            r["reset"] = int(e.error_code)
        elif isinstance(e, h2.events.ConnectionTerminated):
            r["goaway"] = int(e.error_code)
    return r


H1_RESPONSES = {
    "cl": (b"HTTP/1.1 200 OK\r\nContent-Length: 4\r\nX-Resp: Mixed-Case\r\n\r\nresp", 200, [(b"content-length", b"4"), (b"x-resp", b"Mixed-Case")], b"resp"),
    "chunked": (b"HTTP/1.1 200 OK\r\nTransfer-Encoding: chunked\r\nConnection: keep-alive\r\nSet-Cookie: a=1\r\nSet-Cookie: b=2\r\n\r\n4\r\nresp\r\n0\r\n\r\n", 200,
                [(b"set-cookie", b"a=1"), (b"set-cookie", b"b=2")], b"resp"),
    "404-empty": (b"HTTP/1.1 404 Not Found\r\nContent-Length: 0\r\nKeep-Alive: timeout=5\r\n\r\n", 404, [(b"content-length", b"0")], b""),
    "204": (b"HTTP/1.1 204 No Content\r\nX-A:  padded \r\n\r\n", 204, [(b"x-a", b"padded")], b""),
    "close-delimited": (b"HTTP/1.0 200 OK\r\nX-Old: 1\r\n\r\nresp", 200, [(b"x-old", b"1")], b"resp"),
}


def h_h2_to_h1(X, nfields):
    pname = X.choose("pseudo", list(PSEUDO))
    block = list(PSEUDO[pname])
    kmax = nfields if pname == "complete" else (min(nfields, 2) if pname in PSEUDO_VALID_BASE else 1)
    k = X.choose("nfields", kmax + 1)
    fields = [X.choose("field", FIELDS) for _ in range(k)]
    block += fields
    body = X.choose("body", BODIES)
    trailers = None
    if body is not None and pname == "complete" and k == 0:
        trailers = X.choose("trailers", [None, [(b"x-trailer", b"t")]])
    method = dict(PSEUDO[pname]).get(b":method")
    # an addon adds a cookie the documented way (headers.add with the conventional spelling): the upstream message is HTTP/1,
    # so all cookie fields -- whatever the case of their names -- have to end up in one Cookie line
    addon_cookie = None
    if pname in PSEUDO_VALID_BASE and any(n == b"cookie" for n, _ in fields) and X.boolean("addon_adds_Cookie"):
        addon_cookie = b"z=9"

    ctx = sansio.make_context(OPTS)
    ctx.client.alpn = b"h2"
    d = sansio.Driver(http.HttpLayer(ctx, HTTPMode.regular), ctx)

    def on_hook(h):
        if addon_cookie and h.name == "request":
            h.args()[0].request.headers.add("Cookie", addon_cookie.decode())
        return True

    d.on_hook = on_hook
    d.start()
    cli = _mk_client_peer()
    cli.initiate_connection()
    d.data(ctx.client, cli.data_to_send())
    seen = len(d.sent_to(ctx.client))
    cli.receive_data(d.sent_to(ctx.client))
    cli.send_headers(1, block, end_stream=body is None)
    if body is not None:
        cli.send_data(1, body, end_stream=trailers is None)
        if trailers is not None:
            cli.send_headers(1, trailers, end_stream=True)
    try:
        d.data(ctx.client, cli.data_to_send())
    except AssertionError as e:
        X.fail("C06/h2-to-h1/crash-on-request-trailers" if trailers else "C06/h2-to-h1/crash", f"{pname} {fields} body={body!r} trailers={trailers}: AssertionError: {e}")
    flows = d.hooks_named("request")
    wire = b"".join(d.sent_to(c) for c in d.opened)
    X.note("block", repr(block)[:200])
    # 1. no CR / LF / NUL beyond the structural CRLFs, exactly one request, framed as sent
    if not wire:
        X.reach("rejected")
        X.check(not any(f.error is None for f in flows) or not flows, "C06/h2-to-h1/accepted-but-not-forwarded", f"{pname} {fields}: request hook ran without error but nothing was sent upstream")
        return
    X.reach("forwarded")
    X.check(len(d.opened) == 1, "C06/h2-to-h1/several-connections", f"{len(d.opened)} upstream connections for one request")
    msgs, rest, err = http1ref.parse_stream(wire, "request", eof=False)
    what = f"block {block!r} body={body!r} -> upstream bytes {wire!r}"
    if not msgs and err == "incomplete":
        X.fail("C06/h2-to-h1/declared-length-exceeds-body", f"{what}: the HTTP/2 message is complete, the HTTP/1 message emitted for it is not (framed differently)")
    X.check(err is None or msgs, f"C06/h2-to-h1/unparseable/{_classify(wire)}", f"{what}: reference parser: {err}")
    X.check(err is None and rest == b"" and len(msgs) == 1, "C06/h2-to-h1/body-outside-request-framing",
            f"{what}: parses as {len(msgs)} message(s) + leftover {rest!r} ({err}) - the body is not covered by the framing of the request head")
    m = msgs[0]
    pd = dict(PSEUDO[pname])
    X.check(m.method == pd[b":method"], "C06/h2-to-h1/method-changed", f"{what}: method {m.method!r}")
    X.check(m.target == pd[b":path"], "C06/h2-to-h1/path-changed", f"{what}: request-target {m.target!r} != :path {pd[b':path']!r}")
    got = m.header_list()
    hosts = [v for n, v in got if n == b"host"]
    exp_host = pd.get(b":authority") or next((v for n, v in fields if n.lower() == b"host"), None)
    X.check(hosts == [exp_host], "C06/h2-to-h1/host-differs-from-authority", f"{what}: Host fields {hosts}, :authority/host was {exp_host!r}")
    exp = [(n.lower(), v) for n, v in fields if n.lower() not in (b"host", b"cookie")]
    cookies = [v for n, v in fields if n.lower() == b"cookie"] + ([addon_cookie] if addon_cookie else [])
    if addon_cookie:
        X.reach("addon-cookie")
    got_rest = [(n, v) for n, v in got if n not in (b"host", b"cookie")]
    if not any(n in (b"transfer-encoding", b"content-length") for n, _ in exp):
        # a translator may have to add HTTP/1 message framing for the body (that the framing is right is checked through the body)
        got_rest = [(n, v) for n, v in got_rest if n not in (b"transfer-encoding", b"content-length")]
    X.check(got_rest == exp, "C06/h2-to-h1/field-list-changed", f"{what}: fields {got_rest} != {exp}")
    got_cookie = [v for n, v in got if n == b"cookie"]
    X.check(got_cookie == ([b"; ".join(cookies)] if cookies else []), "C06/h2-to-h1/cookies-not-joined", f"{what}: cookie fields upstream {got_cookie}, sent {cookies}")
    if len(cookies) > 1:
        X.reach("cookies-joined")
    X.check(m.body == (body or b""), "C06/h2-to-h1/body-changed", f"{what}: body {m.body!r}")
    X.check(len(flows) == 1, "C06/h2-to-h1/flow-count", f"{len(flows)} flows")
    # 2. the HTTP/1 answer, translated back to HTTP/2
    server = d.opened[0]
    rname = X.choose("response", list(H1_RESPONSES))
    raw, status, rfields, rbody = H1_RESPONSES[rname]
    d.data(server, raw)
    if rname == "close-delimited":
        d.close(server)
    try:
        evs = cli.receive_data(d.sent_to(ctx.client)[seen:])
    except h2.exceptions.ProtocolError as e:
        X.fail("C06/h1-to-h2-response/invalid-h2", f"response {rname}: the h2 client rejects what mitmproxy sent: {e!r}")
    r = _collect(evs)
    what = f"h1 response {raw!r} -> h2 client saw {r}"
    X.check(r["headers"] is not None and r["ended"] and r["reset"] is None, "C06/h1-to-h2-response/not-delivered", what)
    hs = r["headers"]
    X.check(hs[0] == (b":status", b"%d" % status) and sum(1 for n, _ in hs if n.startswith(b":")) == 1, "C06/h1-to-h2-response/status", what)
    rest_h = [(n, v) for n, v in hs[1:]]
    X.check(rest_h == rfields, "C06/h1-to-h2-response/field-list-changed", f"{what}: fields {rest_h} != {rfields}")
    X.check(r["data"] == (b"" if method == b"HEAD" else rbody), "C06/h1-to-h2-response/body-changed", what)
    X.reach("answered")


def _classify(wire):
    line = wire.split(b"\r\n", 1)[0]
    if len(line.split(b" ")) != 3:
        return "request-line-with-extra-space"
    if any(c in line for c in b"\r\n\0\t"):
        return "request-line-control-char"
    return "head"


# ------------------------------------------------------------------------------------------------
# h1 -> h2

H1_LINES = [
    (b"X-Mixed-Case", b"v"), (b"x-lower", b"a b"), (b"X-Pad", b"  padded\t"), (b"Cookie", b"a=1; b=2"), (b"Connection", b"keep-alive"),
    (b"Keep-Alive", b"timeout=5"), (b"Proxy-Connection", b"keep-alive"), (b"Accept", b"*/*"), (b"Accept", b"text/html"), (b"X-Empty", b""),
    (b"TE", b"trailers"), (b"Upgrade", b"foo"), (b"X-Utf8", b"caf\xc3\xa9"), (b"x-colon", b"a:b"),
]
H1_REQ_SHAPES = ["get", "post-cl", "post-chunked", "head", "host-port"]

H2_RESPONSES = {
    "plain": ([(b":status", b"200"), (b"x-resp", b"v")], b"resp", None),
    "with-cl": ([(b":status", b"200"), (b"content-length", b"4")], b"resp", None),
    "empty-204": ([(b":status", b"204")], None, None),
    "404": ([(b":status", b"404"), (b"set-cookie", b"a=1"), (b"set-cookie", b"b=2")], b"nf", None),
    "trailers": ([(b":status", b"200"), (b"x-resp", b"v")], b"resp", [(b"x-rt", b"t")]),
}


def h_h1_to_h2(X, nfields):
    shape = X.choose("shape", H1_REQ_SHAPES)
    k = X.choose("nfields", nfields + 1)
    fields = [X.choose("field", H1_LINES) for _ in range(k)]
    host = b"example.com:8080" if shape == "host-port" else b"example.com"
    method = {"get": b"GET", "head": b"HEAD", "host-port": b"GET"}.get(shape, b"POST")
    body = b"hello" if shape.startswith("post") else b""
    head = [method + b" http://" + host + b"/p?q=1 HTTP/1.1", b"Host: " + host]
    head += [n + b": " + v for n, v in fields]
    if shape == "post-cl":
        head.append(b"Content-Length: 5")
        payload = body
    elif shape == "post-chunked":
        head.append(b"Transfer-Encoding: chunked")
        payload = b"5\r\nhello\r\n0\r\n\r\n"
    else:
        payload = b""
    raw = b"\r\n".join(head) + b"\r\n\r\n" + payload

    ctx = sansio.make_context(OPTS)
    d = sansio.Driver(http.HttpLayer(ctx, HTTPMode.regular), ctx)

    def on_open(cmd):
        cmd.connection.alpn = b"h2"
        return None

    d.on_open = on_open
    d.start()
    d.data(ctx.client, raw)
    X.check(len(d.opened) == 1, "C06/h1-to-h2/not-forwarded", f"{raw!r}: {len(d.opened)} upstream connections; client got {d.sent_to(ctx.client)!r}")
    server = d.opened[0]
    srv = h2.connection.H2Connection(h2.config.H2Configuration(client_side=False, header_encoding=False, validate_inbound_headers=True,
                                                                normalize_inbound_headers=False))
    srv.initiate_connection()
    try:
        evs = srv.receive_data(d.sent_to(server))
    except h2.exceptions.ProtocolError as e:
        X.fail("C06/h1-to-h2/invalid-h2", f"{raw!r}: the h2 server rejects what mitmproxy sent: {e!r}")
    off = len(d.sent_to(server))
    r = _collect(evs)
    what = f"h1 request {raw!r} -> h2 server saw {r}"
    X.check(r["headers"] is not None and r["ended"] and r["nheaders"] == 1, "C06/h1-to-h2/not-delivered", what)
    hs = r["headers"]
    pseudo = [(n, v) for n, v in hs if n.startswith(b":")]
    X.check(sorted(pseudo) == sorted([(b":method", method), (b":scheme", b"http"), (b":path", b"/p?q=1"), (b":authority", host)]),
            "C06/h1-to-h2/pseudo-headers", f"{what}: pseudo headers {pseudo}")
    X.check(hs[:len(pseudo)] == pseudo, "C06/h1-to-h2/pseudo-not-first", what)
    exp = [(n.lower(), v.strip(b" \t")) for n, v in fields if n.lower() not in CONNECTION_SPECIFIC]
    if shape == "post-cl":
        exp.append((b"content-length", b"5"))
    got = [(n, v) for n, v in hs[len(pseudo):] if n != b"host"]
    X.check(got == exp, "C06/h1-to-h2/field-list-changed", f"{what}: fields {got} != {exp}")
    X.check([v for n, v in hs if n == b"host"] in ([], [host]), "C06/h1-to-h2/host", what)
    X.check(r["data"] == body, "C06/h1-to-h2/body-changed", what)
    # translating the message for the next hop must not alter the message mitmproxy holds (and shows / saves / replays):
    # the flow still carries the Host and the other fields the client sent
    fl = [dat for nm, dat in d.hooks if nm == "request"]
    if fl:
        rec = [(n.lower(), v) for n, v in fl[-1].request.headers.fields]
        want = [(b"host", host)] + [(n.lower(), v.strip(b" \t")) for n, v in fields]
        missing = [f for f in want if f not in rec]
        X.check(not missing, "C06/h1-to-h2/recorded-request-altered", f"{what}: after forwarding, the flow's request lost {missing} (recorded fields {rec})")
    X.reach("forwarded")
    # the h2 answer back to the HTTP/1 client
    rname = X.choose("response", list(H2_RESPONSES))
    rh, rbody, rtr = H2_RESPONSES[rname]
    if method == b"HEAD":
        rbody = rtr = None  # a response to HEAD has no content
    d.data(server, srv.data_to_send())
    srv.send_headers(1, rh, end_stream=rbody is None)
    if rbody is not None:
        srv.send_data(1, rbody, end_stream=rtr is None)
        if rtr is not None:
            srv.send_headers(1, rtr, end_stream=True)
    try:
        d.data(server, srv.data_to_send())
    except AssertionError as e:
        X.fail("C06/h2-to-h1-response/crash-on-response-trailers" if rtr else "C06/h2-to-h1-response/crash", f"response {rname}: AssertionError: {e}")
    closed = any(c is ctx.client for c, _ in d.closed)
    out = d.sent_to(ctx.client)
    msgs, rest, err = http1ref.parse_stream(out, "response", [method], eof=closed)
    what = f"h2 response {rname} -> h1 client bytes {out!r} (connection closed: {closed})"
    X.check(err is None and rest == b"" and len(msgs) == 1, "C06/h2-to-h1-response/not-exactly-one-response", f"{what}: {len(msgs)} message(s), leftover {rest!r}, {err}")
    m = msgs[0]
    X.check(m.status == int(dict(rh)[b":status"]), "C06/h2-to-h1-response/status", what)
    got = [(n, v) for n, v in m.header_list() if n not in (b"transfer-encoding", b"connection")]
    X.check(got == rh[1:], "C06/h2-to-h1-response/field-list-changed", f"{what}: fields {got} != {rh[1:]}")
    X.check(m.body == (b"" if method == b"HEAD" else (rbody or b"")), "C06/h2-to-h1-response/body-changed", f"{what}: body {m.body!r}")
    X.reach("answered")


H2H2_REQUESTS = {"get": (None, None), "post": (b"abc", None), "post-trailers": (b"abc", [(b"x-qt", b"q")]), "empty-body-trailers": (b"", [(b"x-qt", b"q")])}
H2H2_RESPONSES = dict(H2_RESPONSES, **{
    # gRPC-style: HEADERS, then a trailers block, no DATA at all / only empty DATA
    "trailers-only": ([(b":status", b"200"), (b"content-type", b"application/grpc")], b"", [(b"grpc-status", b"5")]),
    "body-and-2-trailers": ([(b":status", b"200")], b"resp", [(b"x-rt", b"t"), (b"x-rt2", b"u")]),
})


def h_h2_to_h2(X):
    """same version on both hops (h2 client, h2 server): nothing needs translating, so everything must arrive:
    pseudo-headers, fields, body, and trailers in both directions"""
    qname = X.choose("request", list(H2H2_REQUESTS))
    qbody, qtr = H2H2_REQUESTS[qname]
    stream = X.boolean("stream_bodies")
    ctx = sansio.make_context(OPTS)
    ctx.client.alpn = b"h2"
    d = sansio.Driver(http.HttpLayer(ctx, HTTPMode.regular), ctx)

    def on_open(cmd):
        cmd.connection.alpn = b"h2"
        return None

    def on_hook(h):
        if stream and h.name == "requestheaders":
            h.args()[0].request.stream = True
        if stream and h.name == "responseheaders":
            h.args()[0].response.stream = True
        return True

    d.on_open, d.on_hook = on_open, on_hook
    d.start()
    cli = _mk_client_peer()
    cli.initiate_connection()
    d.data(ctx.client, cli.data_to_send())
    cli.receive_data(d.sent_to(ctx.client))
    seen = len(d.sent_to(ctx.client))
    block = [(b":method", b"GET" if qbody is None else b"POST"), (b":scheme", b"http"), (b":path", b"/p"), (b":authority", b"example.com"), (b"x-q", b"v")]
    cli.send_headers(1, block, end_stream=qbody is None)
    if qbody is not None:
        cli.send_data(1, qbody, end_stream=qtr is None)
        if qtr is not None:
            cli.send_headers(1, qtr, end_stream=True)
    d.data(ctx.client, cli.data_to_send())
    X.check(len(d.opened) == 1, "C06/h2-to-h2/not-forwarded", f"request {qname}: {len(d.opened)} upstream connections")
    server = d.opened[0]
    srv = h2.connection.H2Connection(h2.config.H2Configuration(client_side=False, header_encoding=False, validate_inbound_headers=True, normalize_inbound_headers=False))
    srv.initiate_connection()
    try:
        r = _collect(srv.receive_data(d.sent_to(server)))
    except h2.exceptions.ProtocolError as e:
        X.fail("C06/h2-to-h2/invalid-h2", f"request {qname}: the h2 server rejects what mitmproxy sent: {e!r}")
    what = f"h2 request {qname} (stream={stream}) -> h2 server saw {r}"
    X.check(r["headers"] is not None and r["ended"], "C06/h2-to-h2/request-not-delivered", what)
    X.check([(n, v) for n, v in r["headers"] if n != b"host"] == block, "C06/h2-to-h2/request-fields-changed", what)
    X.check(r["data"] == (qbody or b""), "C06/h2-to-h2/request-body-changed", what)
    X.check(r["trailers"] == qtr, "C06/h2-to-h2/request-trailers-lost", f"{what}: trailers sent {qtr}")
    X.reach("forwarded")
    if qtr:
        X.reach("request-trailers")
    rname = X.choose("response", list(H2H2_RESPONSES))
    rh, rbody, rtr = H2H2_RESPONSES[rname]
    d.data(server, srv.data_to_send())
    srv.send_headers(1, rh, end_stream=rbody is None)
    if rbody is not None:
        if rbody or rtr is None:
            srv.send_data(1, rbody, end_stream=rtr is None)
        if rtr is not None:
            srv.send_headers(1, rtr, end_stream=True)
    d.data(server, srv.data_to_send())
    try:
        g = _collect(cli.receive_data(d.sent_to(ctx.client)[seen:]))
    except h2.exceptions.ProtocolError as e:
        X.fail("C06/h2-to-h2/invalid-h2-response", f"response {rname}: the h2 client rejects what mitmproxy sent: {e!r}")
    what = f"h2 response {rname} (stream={stream}) after request {qname} -> h2 client saw {g}"
    X.check(g["headers"] is not None and g["ended"] and g["reset"] is None, "C06/h2-to-h2/response-not-delivered", what)
    X.check(g["headers"] == rh, "C06/h2-to-h2/response-fields-changed", f"{what}: sent {rh}")
    X.check(g["data"] == (rbody or b""), "C06/h2-to-h2/response-body-changed", what)
    X.check(g["trailers"] == rtr, "C06/h2-to-h2/response-trailers-lost", f"{what}: trailers sent {rtr}")
    if rtr:
        X.reach("response-trailers")
    X.reach("answered")


def obligations(tier):
    n = 2 if tier == "quick" else 3
    n1 = 2 if tier == "quick" else 3
    return [
        Symx("h2-charclass", h_charclass, bounds="field name of 1..3 and value of 0..3 fully symbolic bytes (all 256 values each) through the real h2 inbound character check",
             encoded=["h2.utilities:_reject_illegal_characters"], must_reach=["accepted", "rejected"], stubs=["bytes -> vf.symbytes.SymBytes for the field"]),
        Smt("name-regex", _build_regex_queries, bounds="all byte strings; `_valid_header_name` lifted from the current source, `$` interpreted as re.match does",
            encoded=["mitmproxy.net.http.validate:validate_headers"]),
        Symx("h2-to-h1", lambda X: h_h2_to_h1(X, n),
             bounds=f"{len(PSEUDO)} pseudo-header sets x <= {n} fields from a {len(FIELDS)}-entry alphabet-partition menu (<= 2 for the GET / explicit-port variants, <= 1 field when the "
                    f"pseudo-header set is itself a malformed variant) x body/no body (x trailers for the plain block) x "
                    f"{{no addon, addon adds a `Cookie` field in the request hook (when the block has a cookie field)}} x {len(H1_RESPONSES)} HTTP/1 answers",
             encoded=ENCODED, must_reach=["forwarded", "rejected", "answered", "cookies-joined", "addon-cookie"], parallel_depth=3),
        Symx("h1-to-h2", lambda X: h_h1_to_h2(X, n1),
             bounds=f"{len(H1_REQ_SHAPES)} HTTP/1 request shapes x <= {n1} fields from a {len(H1_LINES)}-entry menu x {len(H2_RESPONSES)} h2 answers (incl. trailers)",
             encoded=ENCODED, must_reach=["forwarded", "answered"], parallel_depth=3),
        Symx("h2-to-h2", h_h2_to_h2,
             bounds=f"h2 client and h2 server: request in {list(H2H2_REQUESTS)} x response in {list(H2H2_RESPONSES)} x bodies buffered / streamed",
             encoded=ENCODED, must_reach=["forwarded", "answered", "request-trailers", "response-trailers"]),
    ]
