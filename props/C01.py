"""C01 — HTTP/1 forwarding is framing-consistent (no request/response desync).

Obligations:
  regex-languages   (smt)  the validation regexes in net/http/validate.py, lifted from the current
                           source, accept exactly the RFC languages (token, 1*DIGIT without sign/space/leading zero)
  te-set            (smt)  the accepted Transfer-Encoding set is what the RFC decision function assumes
  framing-table     (symx) real validate_headers + expected_http_body_size vs an independent RFC 9112 §6.3
                           decision function over solver-enumerated header lists
  e2e-request       (symx) real HttpLayer(regular, validate_inbound_headers=True): a solver-built client stream
                           (head lines, body encoding, chunk split, pipelining, addon edit in the request hook);
                           the bytes written to the server parse (reference parser) to exactly the flows seen in
                           the `request` hook, nothing left over; ambiguous heads are rejected and nothing after
                           them is processed; where the reference reads the input, mitmproxy read the same messages
  e2e-response      (symx) same for a solver-built server reply relayed to the client, judged in the context of
                           the request method (HEAD) and status (1xx/204/304), addon edit in the response hook
"""
import re

import z3

from vf import smt, symx, sansio
from vf.ob import Smt, Symx
from vf.refs import http1ref

LEVEL = "model_checking"
ASSUMPTIONS = [
    "regex obligations: header names/values reaching the validator never END in LF (h11 splits lines at LF and read._read_headers strips values); "
    "values may contain CR LF SP inside (kept obs-fold) - the end-to-end obligations feed such values through the real parser",
    "e2e: the server answers every forwarded request (fixed 200); a reply that is not self-delimiting is terminated by the server closing; hooks complete immediately",
    "e2e: addon edits are the documented ones (message.content = ..., headers.add, del headers[...]); a violation that only appears with an edit is keyed after-edit/<edit>",
    "oracle = vf/refs/http1ref.py, an independent RFC 9112 parser / framing decision function",
]
OUTSIDE = ["obs-fold and bare-LF handling inside h11 beyond the menu entries", "HTTP/0.9", "header lists longer than the bound",
           "e2e: bodies other than the menu's (<= 11 bytes), CONNECT/upgrade, upstream/transparent/reverse modes, segmentation (C02), HTTP/2-3 translation (C06)"]
ENCODED = [
    "mitmproxy.net.http.validate:validate_headers", "mitmproxy.net.http.validate:parse_content_length",
    "mitmproxy.net.http.validate:parse_transfer_encoding", "mitmproxy.net.http.http1.read:expected_http_body_size",
    "mitmproxy.net.http.http1.read:_read_headers", "mitmproxy.net.http.http1.assemble:assemble_request_head",
    "mitmproxy.proxy.layers.http._http1:Http1Server.read_headers", "mitmproxy.proxy.layers.http._http1:Http1Connection.read_body",
    "mitmproxy.proxy.layers.http._http1:Http1Client.send",
]

ENCODED_E2E = ENCODED[4:] + [
    "mitmproxy.net.http.http1.read:read_request_head", "mitmproxy.net.http.http1.read:read_response_head",
    "mitmproxy.net.http.http1.assemble:assemble_response_head", "mitmproxy.proxy.layers.http._http1:Http1Server.send",
    "mitmproxy.proxy.layers.http._http1:Http1Client.read_headers", "mitmproxy.proxy.layers.http._http1:Http1Connection.mark_done",
    "mitmproxy.proxy.layers.http._http1:make_body_reader", "mitmproxy.proxy.layers.http:HttpStream.check_invalid",
    "mitmproxy.proxy.layers.http:HttpStream.state_consume_request_body", "mitmproxy.proxy.layers.http:HttpStream.send_response",
    "mitmproxy.http:Message.set_content",
]

VAL = "mitmproxy/net/http/validate.py"
TCHAR = "!#$%&'*+-.^_`|~"


def _build_regex_queries():
    from mitmproxy.net.http import validate

    qs = []
    s = z3.String("s")
    nocrlf = smt.no_chars("\r\n")
    token = z3.Plus(z3.Union(smt.chars(TCHAR), z3.Range("0", "9"), z3.Range("a", "z"), z3.Range("A", "Z")))
    pat, flags = smt.source_regex(VAL, "_valid_header_name")
    rn = smt.regex_to_z3(pat)
    real = re.compile(pat)

    def rp_name(w):
        v = w["s"].encode("latin-1", "replace")
        ok = bool(real.match(v))
        return ok, f"_valid_header_name matches {v!r} which is not an RFC 9110 token" if ok else "not reproduced"

    qs.append(smt.lang_subset("header-name ⊆ token", rn, token, key="C01/regex/header-name-too-wide", replay=rp_name, within=nocrlf))

    def rp_name2(w):
        v = w["s"].encode("latin-1", "replace")
        ok = not real.match(v)
        return ok, f"_valid_header_name rejects the valid token {v!r}"

    qs.append(smt.lang_subset("token ⊆ header-name", token, rn, key="C01/regex/header-name-too-narrow", replay=rp_name2))
    digits = z3.Union(z3.Re(z3.StringVal("0")), z3.Concat(z3.Range("1", "9"), z3.Star(z3.Range("0", "9"))))
    for nm in ("_valid_content_length", "_valid_content_length_str"):
        pat, flags = smt.source_regex(VAL, nm)
        r = smt.regex_to_z3(pat)
        realr = re.compile(pat)
        isb = isinstance(pat, bytes)

        def rp_cl(w, realr=realr, isb=isb, nm=nm):
            v = w["s"].encode("latin-1", "replace") if isb else w["s"]
            ok = bool(realr.match(v))
            if ok:
                try:
                    validate.parse_content_length(v)
                except ValueError:
                    ok = False
            return ok, f"{nm}/parse_content_length accepts {v!r}, not of the form 0|[1-9][0-9]*"

        qs.append(smt.lang_subset(f"{nm} ⊆ 0|[1-9][0-9]*", r, digits, key=f"C01/regex/{nm}-too-wide", replay=rp_cl, within=nocrlf))

        def rp_cl2(w, realr=realr, isb=isb, nm=nm):
            v = w["s"].encode("latin-1", "replace") if isb else w["s"]
            return (not realr.match(v)), f"{nm} rejects the valid length {v!r}"

        qs.append(smt.lang_subset(f"0|[1-9][0-9]* ⊆ {nm}", digits, r, key=f"C01/regex/{nm}-too-narrow", replay=rp_cl2))
    # transfer-encoding: the normalising regex only removes OWS around commas
    fn = smt.find_function(VAL, "parse_transfer_encoding")
    lits = [l for l in smt.regex_literals_in(fn) if l[0] == "sub"]
    if not lits:
        raise smt.AnchorNotFound("re.sub in parse_transfer_encoding")
    sep = smt.regex_to_z3(lits[0][1])
    ows_comma = z3.Concat(z3.Star(smt.chars("\t ")), z3.Re(z3.StringVal(",")), z3.Star(smt.chars("\t ")))

    def rp_sep(w):
        return True, f"separator regex {lits[0][1]!r} differs from OWS \",\" OWS on {w['s']!r}"

    qs.append(smt.lang_subset("TE separator ⊆ OWS , OWS", sep, ows_comma, key="C01/regex/te-separator", replay=rp_sep))
    qs.append(smt.lang_subset("OWS , OWS ⊆ TE separator", ows_comma, sep, key="C01/regex/te-separator-narrow", replay=rp_sep))
    return qs


def _build_te_queries():
    """finite set algebra over the frozenset literal, decided by z3 over an enumerated-sort encoding"""
    from mitmproxy.net.http import validate

    node = smt.find_assign(VAL, "TransferEncoding")
    import ast

    members = [c.value for c in ast.walk(node) if isinstance(c, ast.Constant) and isinstance(c.value, str)]
    if not members:
        raise smt.AnchorNotFound("TransferEncoding literal members")
    qs = []
    s = z3.String("s")
    accepted = z3.Union(*[z3.Re(z3.StringVal(m)) for m in members]) if len(members) > 1 else z3.Re(z3.StringVal(members[0]))
    coding = z3.Union(*[z3.Re(z3.StringVal(c)) for c in ("compress", "deflate", "gzip", "identity")])
    # reference: final coding chunked (optionally preceded by ONE known coding), or a single known coding (response only)
    ref = z3.Union(z3.Re(z3.StringVal("chunked")), z3.Concat(coding, z3.Re(z3.StringVal(",chunked"))), coding)

    def rp(w):
        v = w["s"]
        try:
            validate.parse_transfer_encoding(v)
            acc = True
        except ValueError:
            acc = False
        return acc, f"parse_transfer_encoding accepts {v!r}, outside the reference set (chunked not final / applied twice / unknown coding)"

    qs.append(smt.lang_subset("accepted TE ⊆ reference", accepted, ref, key="C01/te/accepted-too-wide", replay=rp))
    # no accepted value applies chunked twice or has chunked non-final
    bad = z3.Concat(smt.any_string(), z3.Re(z3.StringVal("chunked,")), smt.any_string())
    qs.append(smt.Query("no accepted TE has non-final chunked", [z3.InRe(s, accepted), z3.InRe(s, bad)], key="C01/te/chunked-not-final", witness_vars=[s], replay=rp))
    return qs


# ------------------------------------------------------------------------------------------
# framing decision table

CL_VALUES = ["{n}", "0{n}", "+{n}", "{n}, {n}", "{n} ", "", "-{n}", "{n}_0", "0x{n}"]
TE_VALUES = [b"chunked", b"Chunked", b"gzip, chunked", b"gzip,chunked", b"deflate ,\tchunked", b"gzip", b"identity", b"chunked, gzip",
             b"chunked, chunked", b"xchunked", b"chunked\xc2\xa0", b"", b"compress,chunked", b"chun\xc5\xbfed"]
FIELDS = ([(b"Content-Length", v) for v in CL_VALUES] + [(b"content-length", "{n}")]
          + [(b"Transfer-Encoding", v) for v in TE_VALUES] + [(b"transfer-encoding", b"chunked")]
          + [(b"X-Other", b"v"), (b"Bad Name", b"v"), (b"Content-Length ", "{n}")])


def h_table(X, K):
    from mitmproxy import http
    from mitmproxy.net.http import validate
    from mitmproxy.net.http.http1 import read

    kind = X.choose("kind", ["request", "response"])
    version = X.choose("version", [b"HTTP/1.1", b"HTTP/1.0"])
    fields = []
    k = X.choose("nfields", K + 1)
    n = 7
    for i in range(k):
        name, v = X.choose("field", FIELDS)
        if isinstance(v, str):
            v = v.format(n=n).encode()
        fields.append((name, v))
    if kind == "request":
        method = X.choose("method", [b"GET", b"POST"])
        msg = http.Request(b"example.com", 80, method, b"http", b"example.com", b"/", version, http.Headers(fields), b"", None, 0, 0)
        req, resp = msg, None
        status = None
    else:
        method = X.choose("method", [b"GET", b"HEAD", b"CONNECT"])
        status = X.choose("status", [100, 200, 204, 304])
        req = http.Request(b"example.com", 80, method, b"http", b"example.com", b"/", b"HTTP/1.1", http.Headers(), b"", None, 0, 0)
        msg = http.Response(version, status, b"x", http.Headers(fields), b"", None, 0, 0)
        resp = msg
    # mitmproxy's verdict
    try:
        validate.validate_headers(msg)
        size = read.expected_http_body_size(req, resp)
        got = ("chunked",) if size is None else (("until-close",) if size == -1 else ("length", size))
    except ValueError as e:
        got = ("reject",)
    exp = http1ref.framing(kind, version, method, status, fields)
    X.reach("decided")
    if got != ("reject",):
        X.reach("accepted")
    if exp[0] == "reject":
        X.check(got == ("reject",), f"C01/table/accepts-ambiguous/{exp[1]}", f"{kind} {version} {method} {status} {fields}: mitmproxy frames as {got}, reference rejects ({exp[1]})")
    elif got != ("reject",):
        X.check(got == exp, f"C01/table/framing-differs/{exp[0]}", f"{kind} {version} {method} {status} {fields}: mitmproxy {got} vs reference {exp}")


# ------------------------------------------------------------------------------------------
# end-to-end differential through the real HttpLayer (DESIGN "A-obligation 2")
#
# Every varying element (header lines, method, version, status, body encoding, chunk split, addon
# edit, pipelining) is a solver-enumerated selector; the real layer stack runs natively on the
# realised stream.  Oracle: vf/refs/http1ref.py parses (a) the peer's input, to know what an RFC 9112
# recipient would have read / had to reject, and (b) everything mitmproxy wrote to the other peer.

_E2E_OPTS = None


def _opts():
    global _E2E_OPTS
    if _E2E_OPTS is None:
        _E2E_OPTS = sansio.make_options(validate_inbound_headers=True)
    return _E2E_OPTS


# raw header lines (no terminating CRLF).  The quick tier uses a prefix of each menu, so that selector
# values mean the same in both tiers (replay files do not record the tier).
REQ_LINES = [
    b"Content-Length: 3", b"content-length: 3", b"Content-Length: 3, 3", b"Content-Length: 5", b"Content-Length : 3",
    b"Transfer-Encoding: chunked", b"Transfer-Encoding: gzip, Chunked", b"Transfer-Encoding: chunked, gzip", b"Transfer-Encoding:\r\n chunked",
    b"X-Fold: a\r\n b", b"X-Cr: a\rTransfer-Encoding: chunked", b"Connection: close", b"Expect: 100-continue",
    # thorough only:
    b"Content-Length: 03", b"Content-Length: +3", b"Content-Length:\r\n 3", b"Transfer-Encoding: identity", b"Transfer-Encoding: xchunked",
    b"X-Other: v", b"X-Nul: a\x00b",
]
N_REQ_LINES_QUICK = 13

RESP_LINES = [
    b"Content-Length: 3", b"Content-Length: 5", b"Transfer-Encoding: chunked", b"Transfer-Encoding: gzip",
    b"X-Fold: a\r\n b", b"X-Cr: a\rContent-Length: 0", b"Connection: close", b"Transfer-Encoding: Chunked",  # coding names are case-insensitive
    # thorough only:
    b"Content-Length: 03", b"Content-Length: 3, 3", b"Content-Length : 3", b"Transfer-Encoding: gzip, chunked", b"Transfer-Encoding: chunked, gzip",
    b"Transfer-Encoding: xchunked", b"X-Other: v",
]
N_RESP_LINES_QUICK = 8

BODY_KINDS_QUICK = ["none", "raw3", "chunk1", "chunk-split", "chunk-trailer", "raw5"]
BODY_KINDS = BODY_KINDS_QUICK + ["chunk-ext", "chunk-hex", "chunk-barelf", "chunk-badterm", "chunk-lead0", "chunk3"]


def _chunked(parts, ext=b"", trailer=b"", eol=b"\r\n"):
    return b"".join(b"%x%s%s%s%s" % (len(p), ext, eol, p, eol) for p in parts) + b"0" + eol + trailer + eol


def _body_bytes(X, tier):
    """bytes following the head, chosen independently of the header fields (so that raw bytes after a
    chunked head, chunked bytes after a Content-Length head etc. are all covered)"""
    k = X.choose("body", BODY_KINDS_QUICK if tier == "quick" else BODY_KINDS)
    if k == "none":
        return k, b""
    if k == "raw3":
        return k, b"abc"
    if k == "raw5":
        return k, b"abcde"
    if k == "chunk1":
        return k, _chunked([b"abc"])
    if k == "chunk-split":
        i = 1 + X.choose("chunk_cut", 4)  # solver-chosen chunk split of a 5-byte body
        return k, _chunked([b"abcde"[:i], b"abcde"[i:]])
    if k == "chunk3":
        i = 1 + X.choose("chunk_cut", 3)
        j = i + 1 + X.choose("chunk_cut2", 4 - i)
        return k, _chunked([b"abcde"[:i], b"abcde"[i:j], b"abcde"[j:]])
    if k == "chunk-ext":
        return k, _chunked([b"abc"], ext=b";x=y")
    if k == "chunk-trailer":
        return k, _chunked([b"abc"], trailer=b"X-T: 1\r\n")
    if k == "chunk-hex":
        return k, _chunked([b"hello world"]).replace(b"b\r\n", b"B\r\n", 1)  # size 0xB: hex vs decimal
    if k == "chunk-barelf":
        return k, _chunked([b"abc"], eol=b"\n")
    if k == "chunk-badterm":
        return k, b"3\r\nabcXY0\r\n\r\n"
    if k == "chunk-lead0":
        return k, b"003\r\nabc\r\n0\r\n\r\n"
    raise AssertionError(k)


def _errcat(err):
    """stable category of a reference-parser verdict (used in violation keys)"""
    if err is None:
        return "ok"
    if err == "incomplete":
        return "incomplete"
    for pat, cat in (("CR/LF/NUL", "ctl-in-line"), ("obs-fold", "obs-fold"), ("bare LF", "bare-lf"), ("framing: ", "framing"),
                     ("bad field line", "bad-field-line"), ("bad request line", "bad-request-line"), ("bad status line", "bad-status-line"),
                     ("chunk", "bad-chunk")):
        if pat in err:
            return cat + (":" + err.split("framing: ")[1] if cat == "framing" else "")
    return "other"


def _strip(v):
    return v.strip(b" \t")


def _same_fields(parsed, recorded):
    return [(n, _strip(v)) for n, v in parsed] == [(bytes(n), _strip(bytes(v))) for n, v in recorded]


class _Run:
    """one exchange through a fresh HttpLayer(regular); the harness supplies the hook callback"""

    def __init__(self, on_hook):
        from mitmproxy.proxy.layers import http as mhttp

        self.ctx = sansio.make_context(_opts())
        self.layer = mhttp.HttpLayer(self.ctx, mhttp.HTTPMode.regular)
        self.d = sansio.Driver(self.layer, self.ctx)
        self.d.on_hook = on_hook
        self.d.start()

    def server_bytes(self):
        return [(s, self.d.sent_to(s)) for s in self.d.opened]


def _req_snapshot(f):
    r = f.request
    return {"flow": f, "method": bytes(r.data.method), "path": bytes(r.data.path), "authority": bytes(r.data.authority),
            "scheme": bytes(r.data.scheme), "fields": tuple(r.headers.fields), "body": r.raw_content}


def _resp_snapshot(f):
    r = f.response
    return {"flow": f, "status": r.status_code, "fields": tuple(r.headers.fields), "body": r.raw_content,
            "method": bytes(f.request.data.method)}


REQ_EDITS = ["none", "content", "add-header", "delete-cl"]
RESP_EDITS = ["none", "content", "add-header", "delete-cl", "delete-te"]


def _apply_edit(msg, edit):
    if edit == "content":
        msg.content = b"edited-body!"  # the documented way to replace a body; length differs from every menu body
    elif edit == "add-header":
        msg.headers.add("X-Added", "1")
    elif edit == "delete-cl":
        msg.headers.pop("content-length", None)
    elif edit == "delete-te":
        msg.headers.pop("transfer-encoding", None)


OK200 = b"HTTP/1.1 200 OK\r\nContent-Length: 2\r\n\r\nok"
MARK = b"GET http://example.com/marker HTTP/1.1\r\nHost: example.com\r\n\r\n"


class _Fail(Exception):
    def __init__(self, check, msg):
        super().__init__(check)
        self.check, self.msg = check, msg


def _req_exchange(stream, head, edit_of, labels):
    """runs one client stream through the real layer; raises _Fail(check-class, text) on the first failed comparison"""
    ref_in, _, ref_err = http1ref.parse_stream(stream, "request", eof=True)
    ref_cat = _errcat(ref_err)
    seen, pre = [], []  # snapshots taken in the `request` hook after / before the addon edit

    def on_hook(hook):
        if hook.name == "request":
            f = hook.args()[0]
            pre.append(_req_snapshot(f))
            if f.request.data.path == b"/first":
                _apply_edit(f.request, edit_of())
            seen.append(_req_snapshot(f))
        return True

    run = _Run(on_hook)
    d = run.d
    answered = 0
    try:
        d.data(run.ctx.client, stream)
        while answered < len(seen):  # the server answers every forwarded request
            srv = seen[answered]["flow"].server_conn
            answered += 1
            if srv.connected:
                d.data(srv, OK200)
        d.close(run.ctx.client)
        for s in list(d.opened):
            d.close(s)
    except NotImplementedError as e:
        labels.add("crash-notimplemented")
        raise _Fail("layer-raises-NotImplementedError", f"client bytes {stream!r} make the HTTP layer raise NotImplementedError: {e}")
    labels.add("ran")
    rec_txt = [(s_["method"], s_["path"], s_["fields"], s_["body"]) for s_ in seen]

    # (1) ambiguous framing must be rejected, and nothing after the rejected message may be processed
    if ref_cat.startswith("framing") and not ref_in:
        labels.add("ref-rejects")
        if seen:
            raise _Fail("ambiguous-forwarded/" + ref_cat, f"reference rejects {head!r} ({ref_err}) but mitmproxy processed {rec_txt}")
    # (2) where the reference reads the input successfully, mitmproxy (possibly stricter = a shorter prefix)
    #     must have read the same messages
    if ref_err is None:
        if len(pre) > len(ref_in):
            raise _Fail("input-desync/extra-message", f"{stream!r}: mitmproxy read {len(pre)} requests, reference {len(ref_in)}")
        for got, exp in zip(pre, ref_in):
            # (mitmproxy answers "Expect: 100-continue" itself and removes the field: not part of the message any more)
            exp_fields = [(n, v) for n, v in exp.fields if n.lower() != b"expect"]
            got_fields = [(n, v) for n, v in got["fields"] if n.lower() != b"expect"]
            if not (got["method"] == exp.method and got["body"] == exp.body and _same_fields(exp_fields, got_fields)):
                raise _Fail("input-desync/message-differs", f"{stream!r}: mitmproxy read {got['method']!r} {got['fields']} body={got['body']!r}; reference {exp!r}")
        if len(pre) == len(ref_in) and pre:
            labels.add("input-agrees")

    # (3) the property: bytes forwarded upstream parse to exactly the recorded flows
    out = []
    for s, data in run.server_bytes():
        msgs, left, err = http1ref.parse_stream(data, "request", eof=True)
        if err is not None:
            raise _Fail("forwarded-unparseable/" + _errcat(err), f"client sent {stream!r}; forwarded bytes {data!r} do not parse: {err}; parsed so far {msgs}, recorded flows {rec_txt}")
        out += msgs
    if len(out) != len(seen):
        raise _Fail("count", f"client sent {stream!r}; upstream parser reads {len(out)} requests {out}, mitmproxy recorded {len(seen)}: {rec_txt}")
    for m, s in zip(out, seen):
        tgt_ok = m.target == s["path"] or (s["authority"] and m.target == s["scheme"] + b"://" + s["authority"] + s["path"])
        if not (m.method == s["method"] and tgt_ok):
            raise _Fail("line", f"forwarded {m.method!r} {m.target!r} vs recorded {s['method']!r} {s['path']!r}")
        if not _same_fields(m.fields, s["fields"]):
            raise _Fail("fields", f"forwarded fields {m.fields} vs recorded {list(s['fields'])}")
        if m.body != (s["body"] or b""):
            raise _Fail("body", f"forwarded body {m.body!r} (framing {m.framing}) vs recorded {s['body']!r}; forwarded bytes {run.server_bytes()[0][1]!r}")
        if m.trailers:
            raise _Fail("trailers", f"forwarded trailers {m.trailers}")
    if seen:
        labels.add("forwarded")
    else:
        labels.add("rejected")
    if len(seen) == 2:
        labels.add("forwarded-pipelined")
    # (4) what the client got back is well-framed too (a mitmproxy error page that ends the connection is
    #     accepted without looking at what follows it)
    raw = d.sent_to(run.ctx.client)
    cm, cleft, cerr = http1ref.parse_stream(raw, "response", [s["method"] for s in seen] + [b"GET"] * 2, eof=True)
    if cerr is not None and not (cm and _is_error_page(cm[-1])):
        raise _Fail("client-side-unparseable/" + _errcat(cerr), f"client sent {stream!r}; bytes returned to the client {raw!r}: {cerr}")
    return seen


def _is_error_page(m):
    hl = m.header_list()
    return m.status >= 400 and any(n == b"server" and v.startswith(b"mitmproxy") for n, v in hl) and (b"connection", b"close") in hl


def _judge(X, side, exchange, choose_edit, ctx_tag="", suffix=""):
    """run the exchange with the solver-chosen edit; if it fails after an edit, re-run the same exchange
    without the edit to class the violation (key) by its cause: the input alone, or the addon edit"""
    labels = set()
    chosen = []

    def edit_of():
        chosen.append(choose_edit())
        return chosen[-1]

    try:
        exchange(edit_of, labels)
        fail = None
    except _Fail as f:
        fail = f
    for l in labels:
        X.reach(l)
    edited = [e for e in chosen if e != "none"]
    if edited and "forwarded" in labels or "relayed" in labels and edited:
        X.reach("edited")
    if fail is None:
        return
    # violation class (key).  Header-syntax pass-through is one class whatever else happens on the path;
    # a failure that only appears with an addon edit is classed by the edit; else by the failed comparison.
    if "ctl-in-line" in fail.check or "obs-fold" in fail.check:
        key = f"C01/e2e/{side}/forwards-{fail.check.rsplit('/', 1)[-1]}"
    else:
        by_edit = False
        if edited:
            try:
                exchange(lambda: "none", set())
                by_edit = True
            except _Fail as f0:
                by_edit = f0.check != fail.check
        if by_edit:
            key = f"C01/e2e/{side}/after-edit/{edited[0]}{suffix}"
        elif ctx_tag:
            key = f"C01/e2e/{side}/{ctx_tag}"
        else:
            key = f"C01/e2e/{side}/{fail.check}{suffix}"
    X.fail(key, fail.msg)


def h_e2e_request(X, K, tier):
    """client stream = solver-built request [+ pipelined marker request]; server answers every forwarded
    request with a fixed 200.  Everything written to the server must parse (reference) to exactly the
    flows seen in the `request` hook, after addon edits."""
    menu = REQ_LINES if tier != "quick" else REQ_LINES[:N_REQ_LINES_QUICK]
    method = X.choose("method", [b"POST", b"GET"] if tier != "quick" else [b"POST"])
    version = X.choose("version", [b"HTTP/1.1", b"HTTP/1.0"])
    lines = [b"Host: example.com"]
    for _ in range(X.choose("nfields", K + 1)):
        lines.append(X.choose("line", menu))
    bkind, body = _body_bytes(X, tier)
    head = method + b" http://example.com/first " + version + b"\r\n" + b"".join(l + b"\r\n" for l in lines) + b"\r\n"
    stream = head + body + (MARK if X.boolean("pipelined") else b"")
    _judge(X, "request", lambda edit_of, labels: _req_exchange(stream, head, edit_of, labels), lambda: X.choose("edit", REQ_EDITS))


def _resp_exchange(method, status, resp1, head, pipelined, edit_of, labels):
    req1 = method + b" http://example.com/first HTTP/1.1\r\nHost: example.com\r\n\r\n"
    stream = req1 + (MARK if pipelined else b"")
    reqs, seen, pre, errors = [], [], [], []

    def on_hook(hook):
        f = hook.args()[0]
        if hook.name == "request":
            reqs.append(f)
        elif hook.name == "response":
            pre.append(_resp_snapshot(f))
            if f.request.data.path == b"/first":
                _apply_edit(f.response, edit_of())
            seen.append(_resp_snapshot(f))
        elif hook.name == "error":
            errors.append(f)
        return True

    run = _Run(on_hook)
    d = run.d
    answered = 0
    closed_after = False
    try:
        d.data(run.ctx.client, stream)
        while answered < len(reqs):
            f = reqs[answered]
            srv = f.server_conn
            answered += 1
            if srv.connected:
                if f.request.data.path == b"/first":
                    d.data(srv, resp1)
                    if not (f.response and f.response.timestamp_end) and not f.error:
                        # server model: a reply that is not complete by itself is terminated by closing the connection
                        closed_after = True
                        d.close(srv)
                else:
                    d.data(srv, OK200)
        d.close(run.ctx.client)
        for s in list(d.opened):
            d.close(s)
    except NotImplementedError as e:
        labels.add("crash-notimplemented")
        raise _Fail("layer-raises-NotImplementedError", f"server bytes {resp1!r} make the HTTP layer raise NotImplementedError: {e}")
    labels.add("ran")
    ref_in, _, ref_err = http1ref.parse_stream(resp1, "response", [method], eof=closed_after)
    ref_cat = _errcat(ref_err)
    first_seen = [s for s in seen if s["flow"].request.data.path == b"/first"]
    rec_txt = [(s["status"], s["fields"], s["body"]) for s in seen]

    if ref_cat.startswith("framing") and not ref_in:
        labels.add("ref-rejects")
        if first_seen:
            raise _Fail("ambiguous-relayed/" + ref_cat, f"reference rejects {head!r} ({ref_err}) but mitmproxy relayed it")
    if ref_err is None and first_seen and ref_in and not (100 <= status <= 199):
        got, exp = [p for p in pre if p["flow"] is first_seen[0]["flow"]][0], ref_in[0]
        if not (got["status"] == exp.status and (got["body"] or b"") == exp.body and _same_fields(exp.fields, got["fields"])):
            raise _Fail("input-desync/message-differs", f"server sent {resp1!r} (to {method!r}): mitmproxy read {got['status']} {got['fields']} body={got['body']!r}; reference {exp!r}")
        labels.add("input-agrees")

    raw = d.sent_to(run.ctx.client)
    cm, cleft, cerr = http1ref.parse_stream(raw, "response", [f.request.data.method for f in reqs] + [b"GET"] * 2, eof=True)
    ctx_txt = f"request {method!r}, server sent {resp1!r}{' then closed' if closed_after else ''}; relayed to client: {raw!r}"
    # a mitmproxy-generated error page that ends the connection is not a flow response; what follows its
    # head on the closing connection is not judged (weaker reading: HEAD + error page with a body)
    relayed = list(cm)
    if errors and relayed and _is_error_page(relayed[-1]):
        relayed.pop()
    elif cerr is not None:
        raise _Fail("relayed-unparseable/" + _errcat(cerr), f"{ctx_txt}: {cerr}; parsed so far {cm}; recorded {rec_txt}")
    if len(relayed) != len(seen):
        raise _Fail("count", f"{ctx_txt}: client parser reads {len(relayed)} responses {relayed}, mitmproxy recorded {rec_txt}")
    for m, s in zip(relayed, seen):
        if m.status != s["status"]:
            raise _Fail("status", f"{ctx_txt}: relayed status {m.status} vs recorded {s['status']}")
        if not _same_fields(m.fields, s["fields"]):
            raise _Fail("fields", f"{ctx_txt}: relayed fields {m.fields} vs recorded {list(s['fields'])}")
        no_body_ctx = s["method"] == b"HEAD" or s["status"] in (204, 304) or 100 <= s["status"] <= 199
        # (in a no-body context the recorded body cannot be represented on the wire at all: only framing is judged)
        if not no_body_ctx and m.body != (s["body"] or b""):
            raise _Fail("body", f"{ctx_txt}: relayed body {m.body!r} (framing {m.framing}) vs recorded {s['body']!r}")
        if m.trailers:
            raise _Fail("trailers", f"relayed trailers {m.trailers}")
    if first_seen:
        labels.add("relayed")
        if method == b"HEAD" or status in (204, 304):
            labels.add("relayed-nobody-context")
    if len(seen) == 2:
        labels.add("relayed-pipelined")
    if errors:
        labels.add("rejected")


def h_e2e_response(X, K, tier):
    """one or two fixed requests; the server's reply to the first is solver-built.  Everything relayed to
    the client must parse (reference, in the context of the request methods) to exactly the responses
    seen in the `response` hook after addon edits; ambiguous responses must not be relayed."""
    quick = tier == "quick"
    menu = RESP_LINES if not quick else RESP_LINES[:N_RESP_LINES_QUICK]
    method = X.choose("method", [b"GET", b"HEAD"])
    version = X.choose("version", [b"HTTP/1.1"] if quick else [b"HTTP/1.1", b"HTTP/1.0"])
    status = X.choose("status", [200, 204, 304, 100])
    lines = []
    for _ in range(X.choose("nfields", K + 1)):
        lines.append(X.choose("line", menu))
    bkind, body = _body_bytes(X, tier)
    head = version + b" %d Status\r\n" % status + b"".join(l + b"\r\n" for l in lines) + b"\r\n"
    pipelined = X.boolean("pipelined")
    edits = RESP_EDITS[:4] if quick else RESP_EDITS
    # an interim (1xx) status is a class of its own: mitmproxy records it as the flow's final response
    _judge(X, "response", lambda edit_of, labels: _resp_exchange(method, status, head + body, head, pipelined, edit_of, labels),
           lambda: X.choose("edit", edits), ctx_tag="interim-1xx-recorded-as-final" if 100 <= status <= 199 else "", suffix=f"/{method.decode()}-{status}")


def h_expect_continue(X):
    """`Expect: 100-continue`, buffered or streamed (addon sets request.stream in requestheaders): the head that reaches
    the server must carry exactly the fields of the recorded flow (mitmproxy answers the expectation itself), the body
    must arrive complete, and the flow's response is the server's final response, not an interim one"""
    framing = X.choose("framing", ["content-length", "chunked"])
    stream = X.boolean("addon_streams_request")
    body_with_head = X.boolean("body_in_same_segment")
    extra = X.choose("extra_field", [None, (b"X-Other", b"v"), (b"expect", b"100-Continue")])
    lines = [b"POST http://example.com/first HTTP/1.1", b"Host: example.com", b"Expect: 100-continue"]
    if extra:
        lines.append(extra[0] + b": " + extra[1])
    if framing == "content-length":
        lines.append(b"Content-Length: 5")
        body = b"hello"
    else:
        lines.append(b"Transfer-Encoding: chunked")
        body = b"5\r\nhello\r\n0\r\n\r\n"
    head = b"\r\n".join(lines) + b"\r\n\r\n"
    snaps = {}

    def on_hook(hook):
        f = hook.args()[0]
        if hook.name == "requestheaders":
            if stream:
                f.request.stream = True
            snaps["after-requestheaders"] = tuple(f.request.headers.fields)
        elif hook.name == "response":
            snaps["response-status"] = f.response.status_code
        return True

    run = _Run(on_hook)
    d, ctx = run.d, run.ctx
    if body_with_head:
        d.data(ctx.client, head + body)
    else:
        d.data(ctx.client, head)
        d.data(ctx.client, body)
    X.check(len(d.opened) == 1, "C01/expect/not-forwarded", f"{head!r}: {len(d.opened)} upstream connections; client got {d.sent_to(ctx.client)!r}")
    srv = d.opened[0]
    fwd = d.sent_to(srv)
    msgs, left, err = http1ref.parse_stream(fwd, "request", eof=True)
    X.check(err is None and len(msgs) == 1 and not left, "C01/expect/forwarded-unparseable", f"forwarded bytes {fwd!r}: {err}, {len(msgs)} messages")
    m = msgs[0]
    X.check(m.body == b"hello", "C01/expect/body", f"forwarded body {m.body!r}")
    recorded = [(n.lower(), v) for n, v in d.hooks_named("requestheaders")[0].request.headers.fields]
    sent = [(n.lower(), v) for n, v in m.fields if n.lower() not in (b"content-length", b"transfer-encoding")]
    rec = [(n, v) for n, v in recorded if n not in (b"content-length", b"transfer-encoding")]
    X.check(sent == rec, "C01/expect/forwarded-head-differs-from-flow", f"stream={stream}: forwarded fields {sent} != recorded flow {rec}")
    d.data(srv, OK200)
    X.check(snaps.get("response-status") == 200, "C01/expect/interim-taken-as-final", f"flow's response status {snaps.get('response-status')}")
    raw = d.sent_to(ctx.client)
    cm, cleft, cerr = http1ref.parse_stream(raw, "response", [b"POST"], eof=False)
    finals = [x for x in cm if x.status >= 200]
    X.check(cerr is None and len(finals) == 1 and finals[0].status == 200 and finals[0].body == b"ok" and len(cm) <= 2, "C01/expect/client-side",
            f"client received {raw!r} ({cerr})")
    X.reach("streamed" if stream else "buffered")
    X.reach("end")


def obligations(tier):
    k = 2 if tier == "quick" else 3
    ke = 2  # header slots besides Host (the thorough tier widens menus, methods, versions and body encodings instead)
    nreq = N_REQ_LINES_QUICK if tier == "quick" else len(REQ_LINES)
    nresp = N_RESP_LINES_QUICK if tier == "quick" else len(RESP_LINES)
    return [
        Smt("regex-languages", _build_regex_queries, bounds="all strings (unbounded length) over bytes/unicode without CR/LF; z3 regex inclusion both directions",
            encoded=ENCODED[:3]),
        Smt("te-set", _build_te_queries, bounds="all strings; accepted set lifted from the TransferEncoding literal", encoded=ENCODED[2:3]),
        Symx("framing-table", lambda X: h_table(X, k), bounds=f"header lists of <= {k} fields from a {len(FIELDS)}-entry menu ({len(CL_VALUES)} Content-Length shapes, {len(TE_VALUES)} Transfer-Encoding values, case variants, invalid names), request/response, HTTP/1.0/1.1, methods GET/POST/HEAD/CONNECT, status 100/200/204/304",
             encoded=ENCODED[:4], must_reach=["decided", "accepted"], parallel_depth=4),
        Symx("expect-continue", h_expect_continue,
             bounds="POST with Expect: 100-continue x {Content-Length, chunked} x addon enables request streaming or not x body in the head's segment or its own x one extra field; server answers 200",
             encoded=ENCODED, must_reach=["end", "streamed", "buffered"]),
        Symx("e2e-request", lambda X: h_e2e_request(X, ke, tier),
             bounds=f"client stream = 1 request ({'POST' if tier == 'quick' else 'POST/GET'}, HTTP/1.1/1.0, Host + <= {ke} header lines from a {nreq}-line menu incl. CL/TE shapes, obs-fold, bare CR, NUL, "
                    f"Expect, Connection: close) followed by one of {8 if tier == 'quick' else 12} body encodings (raw, chunked with every chunk split of a 5-byte body, extension, trailer, hex size...) "
                    "chosen independently of the head, optionally a pipelined second request; addon edit in the request hook from "
                    f"{REQ_EDITS}; server answers each forwarded request with a fixed 200; whole stream in one segment (segmentation is C02)",
             encoded=ENCODED_E2E, must_reach=["ran", "forwarded", "forwarded-pipelined", "edited", "rejected", "ref-rejects", "input-agrees"], parallel_depth=4),
        Symx("e2e-response", lambda X: h_e2e_response(X, ke, tier),
             bounds=f"request GET/HEAD [+ pipelined GET]; server reply to the first = {'HTTP/1.1' if tier == 'quick' else 'HTTP/1.1/1.0'}, status 200/204/304/100, <= {ke} header lines from a {nresp}-line menu, "
                    f"one of {len(BODY_KINDS_QUICK) if tier == 'quick' else len(BODY_KINDS)} body encodings; server closes after a reply that is not self-delimiting; addon edit in the response hook from {RESP_EDITS[:4] if tier == 'quick' else RESP_EDITS}",
             encoded=ENCODED_E2E, must_reach=["ran", "relayed", "relayed-nobody-context", "relayed-pipelined", "edited", "rejected", "ref-rejects", "input-agrees"], parallel_depth=4),
    ]
