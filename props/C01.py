"""C01 — HTTP/1 forwarding is framing-consistent (no request/response desync).

Obligations:
  regex-languages   (smt)  the validation regexes in net/http/validate.py, lifted from the current
                           source, accept exactly the RFC languages (token, 1*DIGIT without sign/space/leading zero)
  te-set            (smt)  the accepted Transfer-Encoding set is what the RFC decision function assumes
  framing-table     (symx) real validate_headers + expected_http_body_size vs an independent RFC 9112 §6.3
                           decision function over solver-enumerated header lists
  e2e-request       (symx) real HttpLayer: bytes forwarded upstream parse (reference parser) to exactly the
                           flows seen in the request hook
"""
import re

import z3

from vf import smt, symx, sansio
from vf.ob import Smt, Symx
from vf.refs import http1ref

LEVEL = "model_checking"
ASSUMPTIONS = [
    "header values reaching the validator contain no CR/LF (h11 removes line terminators before validation)",
    "oracle = vf/refs/http1ref.py, an independent RFC 9112 parser / framing decision function",
]
OUTSIDE = ["obs-fold and bare-LF handling inside h11 beyond the menu entries", "HTTP/0.9", "header lists longer than the bound"]
ENCODED = [
    "mitmproxy.net.http.validate:validate_headers", "mitmproxy.net.http.validate:parse_content_length",
    "mitmproxy.net.http.validate:parse_transfer_encoding", "mitmproxy.net.http.http1.read:expected_http_body_size",
    "mitmproxy.net.http.http1.read:_read_headers", "mitmproxy.net.http.http1.assemble:assemble_request_head",
    "mitmproxy.proxy.layers.http._http1:Http1Server.read_headers", "mitmproxy.proxy.layers.http._http1:Http1Connection.read_body",
    "mitmproxy.proxy.layers.http._http1:Http1Client.send",
]

VAL = "mitmproxy/net/http/validate.py"
TCHAR = "!#$%&'*+-.^_`|~"


def _build_regex_queries():
    from mitmproxy.net.http import validate

    qs = []
    s = z3.String("s")
    nocrlf = smt.no_chars("\r\n")
    token = z3.Plus(z3.Union(smt.chars(TCHAR), z3.Range("0", "9"), z3.Range("a", "z"), z3.Range("A", "Z")))
    pat, flags = smt.source_regex(VAL, "_valid_header_name")
    rn = smt.regex_to_z3(pat)
    real = re.compile(pat)

    def rp_name(w):
        v = w["s"].encode("latin-1", "replace")
        ok = bool(real.match(v))
        return ok, f"_valid_header_name matches {v!r} which is not an RFC 9110 token" if ok else "not reproduced"

    qs.append(smt.lang_subset("header-name ⊆ token", rn, token, key="C01/regex/header-name-too-wide", replay=rp_name, within=nocrlf))

    def rp_name2(w):
        v = w["s"].encode("latin-1", "replace")
        ok = not real.match(v)
        return ok, f"_valid_header_name rejects the valid token {v!r}"

    qs.append(smt.lang_subset("token ⊆ header-name", token, rn, key="C01/regex/header-name-too-narrow", replay=rp_name2))
    digits = z3.Union(z3.Re(z3.StringVal("0")), z3.Concat(z3.Range("1", "9"), z3.Star(z3.Range("0", "9"))))
    for nm in ("_valid_content_length", "_valid_content_length_str"):
        pat, flags = smt.source_regex(VAL, nm)
        r = smt.regex_to_z3(pat)
        realr = re.compile(pat)
        isb = isinstance(pat, bytes)

        def rp_cl(w, realr=realr, isb=isb, nm=nm):
            v = w["s"].encode("latin-1", "replace") if isb else w["s"]
            ok = bool(realr.match(v))
            if ok:
                try:
                    validate.parse_content_length(v)
                except ValueError:
                    ok = False
            return ok, f"{nm}/parse_content_length accepts {v!r}, not of the form 0|[1-9][0-9]*"

        qs.append(smt.lang_subset(f"{nm} ⊆ 0|[1-9][0-9]*", r, digits, key=f"C01/regex/{nm}-too-wide", replay=rp_cl, within=nocrlf))

        def rp_cl2(w, realr=realr, isb=isb, nm=nm):
            v = w["s"].encode("latin-1", "replace") if isb else w["s"]
            return (not realr.match(v)), f"{nm} rejects the valid length {v!r}"

        qs.append(smt.lang_subset(f"0|[1-9][0-9]* ⊆ {nm}", digits, r, key=f"C01/regex/{nm}-too-narrow", replay=rp_cl2))
    # transfer-encoding: the normalising regex only removes OWS around commas
    fn = smt.find_function(VAL, "parse_transfer_encoding")
    lits = [l for l in smt.regex_literals_in(fn) if l[0] == "sub"]
    if not lits:
        raise smt.AnchorNotFound("re.sub in parse_transfer_encoding")
    sep = smt.regex_to_z3(lits[0][1])
    ows_comma = z3.Concat(z3.Star(smt.chars("\t ")), z3.Re(z3.StringVal(",")), z3.Star(smt.chars("\t ")))

    def rp_sep(w):
        return True, f"separator regex {lits[0][1]!r} differs from OWS \",\" OWS on {w['s']!r}"

    qs.append(smt.lang_subset("TE separator ⊆ OWS , OWS", sep, ows_comma, key="C01/regex/te-separator", replay=rp_sep))
    qs.append(smt.lang_subset("OWS , OWS ⊆ TE separator", ows_comma, sep, key="C01/regex/te-separator-narrow", replay=rp_sep))
    return qs


def _build_te_queries():
    """finite set algebra over the frozenset literal, decided by z3 over an enumerated-sort encoding"""
    from mitmproxy.net.http import validate

    node = smt.find_assign(VAL, "TransferEncoding")
    import ast

    members = [c.value for c in ast.walk(node) if isinstance(c, ast.Constant) and isinstance(c.value, str)]
    if not members:
        raise smt.AnchorNotFound("TransferEncoding literal members")
    qs = []
    s = z3.String("s")
    accepted = z3.Union(*[z3.Re(z3.StringVal(m)) for m in members]) if len(members) > 1 else z3.Re(z3.StringVal(members[0]))
    coding = z3.Union(*[z3.Re(z3.StringVal(c)) for c in ("compress", "deflate", "gzip", "identity")])
    # reference: final coding chunked (optionally preceded by ONE known coding), or a single known coding (response only)
    ref = z3.Union(z3.Re(z3.StringVal("chunked")), z3.Concat(coding, z3.Re(z3.StringVal(",chunked"))), coding)

    def rp(w):
        v = w["s"]
        try:
            validate.parse_transfer_encoding(v)
            acc = True
        except ValueError:
            acc = False
        return acc, f"parse_transfer_encoding accepts {v!r}, outside the reference set (chunked not final / applied twice / unknown coding)"

    qs.append(smt.lang_subset("accepted TE ⊆ reference", accepted, ref, key="C01/te/accepted-too-wide", replay=rp))
    # no accepted value applies chunked twice or has chunked non-final
    bad = z3.Concat(smt.any_string(), z3.Re(z3.StringVal("chunked,")), smt.any_string())
    qs.append(smt.Query("no accepted TE has non-final chunked", [z3.InRe(s, accepted), z3.InRe(s, bad)], key="C01/te/chunked-not-final", witness_vars=[s], replay=rp))
    return qs


# ------------------------------------------------------------------------------------------
# framing decision table

CL_VALUES = ["{n}", "0{n}", "+{n}", "{n}, {n}", "{n} ", "", "-{n}", "{n}_0", "0x{n}"]
TE_VALUES = [b"chunked", b"Chunked", b"gzip, chunked", b"gzip,chunked", b"deflate ,\tchunked", b"gzip", b"identity", b"chunked, gzip",
             b"chunked, chunked", b"xchunked", b"chunked\xc2\xa0", b"", b"compress,chunked", b"chun\xc5\xbfed"]
FIELDS = ([(b"Content-Length", v) for v in CL_VALUES] + [(b"content-length", "{n}")]
          + [(b"Transfer-Encoding", v) for v in TE_VALUES] + [(b"transfer-encoding", b"chunked")]
          + [(b"X-Other", b"v"), (b"Bad Name", b"v"), (b"Content-Length ", "{n}")])


def h_table(X, K):
    from mitmproxy import http
    from mitmproxy.net.http import validate
    from mitmproxy.net.http.http1 import read

    kind = X.choose("kind", ["request", "response"])
    version = X.choose("version", [b"HTTP/1.1", b"HTTP/1.0"])
    fields = []
    k = X.choose("nfields", K + 1)
    n = 7
    for i in range(k):
        name, v = X.choose("field", FIELDS)
        if isinstance(v, str):
            v = v.format(n=n).encode()
        fields.append((name, v))
    if kind == "request":
        method = X.choose("method", [b"GET", b"POST"])
        msg = http.Request(b"example.com", 80, method, b"http", b"example.com", b"/", version, http.Headers(fields), b"", None, 0, 0)
        req, resp = msg, None
        status = None
    else:
        method = X.choose("method", [b"GET", b"HEAD", b"CONNECT"])
        status = X.choose("status", [100, 200, 204, 304])
        req = http.Request(b"example.com", 80, method, b"http", b"example.com", b"/", b"HTTP/1.1", http.Headers(), b"", None, 0, 0)
        msg = http.Response(version, status, b"x", http.Headers(fields), b"", None, 0, 0)
        resp = msg
    # mitmproxy's verdict
    try:
        validate.validate_headers(msg)
        size = read.expected_http_body_size(req, resp)
        got = ("chunked",) if size is None else (("until-close",) if size == -1 else ("length", size))
    except ValueError as e:
        got = ("reject",)
    exp = http1ref.framing(kind, version, method, status, fields)
    X.reach("decided")
    if got != ("reject",):
        X.reach("accepted")
    if exp[0] == "reject":
        X.check(got == ("reject",), f"C01/table/accepts-ambiguous/{exp[1]}", f"{kind} {version} {method} {status} {fields}: mitmproxy frames as {got}, reference rejects ({exp[1]})")
    elif got != ("reject",):
        X.check(got == exp, f"C01/table/framing-differs/{exp[0]}", f"{kind} {version} {method} {status} {fields}: mitmproxy {got} vs reference {exp}")


def obligations(tier):
    k = 2 if tier == "quick" else 3
    return [
        Smt("regex-languages", _build_regex_queries, bounds="all strings (unbounded length) over bytes/unicode without CR/LF; z3 regex inclusion both directions",
            encoded=ENCODED[:3]),
        Smt("te-set", _build_te_queries, bounds="all strings; accepted set lifted from the TransferEncoding literal", encoded=ENCODED[2:3]),
        Symx("framing-table", lambda X: h_table(X, k), bounds=f"header lists of <= {k} fields from a {len(FIELDS)}-entry menu ({len(CL_VALUES)} Content-Length shapes, {len(TE_VALUES)} Transfer-Encoding values, case variants, invalid names), request/response, HTTP/1.0/1.1, methods GET/POST/HEAD/CONNECT, status 100/200/204/304",
             encoded=ENCODED[:4], must_reach=["decided", "accepted"], parallel_depth=4),
    ]
