"""C12 — error pages never reflect unescaped input.

  escape-codepoint / embedded-codepoint / pair-homomorphic / encode-codepoint   (crosshair, props/chx/c12_kernel.py)
        html.escape and the final .encode("utf8","replace") decided per symbolic code point: the escaped form of every
        one of the 1 114 112 code points is free of < > " ' and bare &, stays so between neighbours, escaping is a
        per-character substitution (so the per-code-point result lifts to whole messages), and encoding a harmless
        code point never yields a markup byte
  template-interpolations   (smt/AST, lifted from the current source of _base.format_error) every interpolation in the
        HTML template is the int status code, a value of status_codes.RESPONSES, or wrapped in html.escape, and the
        template is only post-processed by dedent/strip/encode
  reason-phrases            (smt) no value of status_codes.RESPONSES (lifted from source) contains < > &
  error-response-callsite   (smt/AST) _http1.make_error_response frames format_error's page with Content-Type text/html
  e2e-h1 / e2e-h2           (symx) the real HttpLayer (HTTP/1 server side, and HTTP/2 against an in-memory h2 peer) is
        driven into every error-page path with a token whose two middle characters are solver-chosen markup characters
        placed in the request line / authority / header line / header name / Content-Length value / upstream error
        text / upstream status line / upstream header name / upstream chunk size.  Oracle: the page sent to the client
        is, around the template obtained for a benign message, only text in which < > " ' never occur and every &
        starts one of the five entities; it declares text/html; HTTP/1: the client bytes parse (vf/refs/http1ref.py)
        as exactly one complete response with a single correct Content-Length.
"""
import ast
import html
import re

import z3

from vf import sansio, smt
from vf.ob import Chx, Smt, Symx
from vf.refs import http1ref

LEVEL = "model_checking"
ASSUMPTIONS = [
    "CrossHair's models of str.replace (html.escape) and str.encode are faithful for a single symbolic code point (counterexamples are replayed natively; confirmations rest on CrossHair)",
    "template-interpolations is a syntactic obligation over the current AST of format_error: it shows that nothing but int / RESPONSES value / html.escape(...) is interpolated",
    "the template around the message is obtained from format_error itself with a benign message (non-interference style baseline); line-leading whitespace is not compared",
    "upstream error text (the OpenConnection error string) is environment-supplied; the harness puts the token into it",
    "oracle for HTTP/1 framing = vf/refs/http1ref.py",
]
OUTSIDE = ["HTTP/3 error pages", "the plain-text body of the 502 answer to a CONNECT whose upstream is unreachable (declares no HTML content type; noted by label connect-error-not-html)", "bodies supplied by addons (flow.response set in a hook)", "HTTP/2 connection-level errors (GOAWAY carries no page)",
           "tokens longer than the stated bound (lifted by the pair-homomorphic kernel, not enumerated)"]
ENCODED = [
    "mitmproxy.proxy.layers.http._base:format_error",
    "mitmproxy.proxy.layers.http._http1:make_error_response",
    "mitmproxy.proxy.layers.http._http1:Http1Server.read_headers",
    "mitmproxy.proxy.layers.http._http1:Http1Server.send",
    "mitmproxy.proxy.layers.http._http1:Http1Client.read_headers",
    "mitmproxy.proxy.layers.http._http1:Http1Connection.read_body",
    "mitmproxy.proxy.layers.http._http2:Http2Connection._handle_event",
    "mitmproxy.proxy.layers.http._events:ErrorCode.http_status_code",
    "mitmproxy.proxy.layers.http:HttpStream.check_invalid",
    "mitmproxy.proxy.layers.http:HttpStream.check_body_size",
    "mitmproxy.proxy.layers.http:HttpStream.handle_protocol_error",
    "mitmproxy.proxy.layers.http:HttpStream.make_server_connection",
    "mitmproxy.proxy.layers.http:validate_request",
]
BASE = "mitmproxy/proxy/layers/http/_base.py"
H1 = "mitmproxy/proxy/layers/http/_http1.py"
SC = "mitmproxy/net/http/status_codes.py"

# ------------------------------------------------------------------------------------------
# smt / AST obligations


class _Syntactic(smt.Query):
    """a finite syntactic obligation: one Bool per classified AST item, asserted to its classification;
    the query asks z3 for an item that is not in a safe class (unsat = all safe)"""

    def __init__(self, name, items, *, key):
        # items: [(label, safe: bool, why)]
        self.items = items
        bs = [z3.Bool(f"safe[{i}]") for i in range(len(items))]
        asserts = [b == z3.BoolVal(bool(s)) for b, (_, s, _) in zip(bs, items)]
        asserts.append(z3.Not(z3.And(*bs)) if bs else z3.BoolVal(True))
        super().__init__(name, asserts, key=key, witness_vars=bs, replay=self._replay)

    def _replay(self, w):
        bad = [f"{lab}: {why}" for lab, s, why in self.items if not s]
        return bool(bad), "; ".join(bad) or "not reproduced"


def _classify_interpolation(fv, params, assigns):
    e = fv.value
    src = ast.unparse(e)
    plain = fv.conversion == -1 and fv.format_spec is None
    if isinstance(e, ast.Name) and params.get(e.id) == "int":
        return True, f"{{{src}}} is the int parameter"
    if not plain:
        return False, f"{{{src}}} uses a conversion / format spec"
    if isinstance(e, ast.Name) and e.id in assigns:
        v = assigns[e.id]
        if (isinstance(v, ast.Call) and ast.unparse(v.func).endswith("status_codes.RESPONSES.get") and len(v.args) == 2
                and isinstance(v.args[1], ast.Constant) and isinstance(v.args[1].value, str) and not set(v.args[1].value) & set("<>&\"'")):
            return True, f"{{{src}}} is a value of status_codes.RESPONSES (default {v.args[1].value!r})"
        return False, f"{{{src}}} = {ast.unparse(v)} is not a RESPONSES lookup"
    if isinstance(e, ast.Call) and ast.unparse(e.func) == "html.escape" and len(e.args) >= 1:
        quote_off = any(k.arg == "quote" and not (isinstance(k.value, ast.Constant) and k.value.value is True) for k in e.keywords) or \
            (len(e.args) > 1 and not (isinstance(e.args[1], ast.Constant) and e.args[1].value is True))
        if quote_off:
            return False, f"{{{src}}}: html.escape with quote disabled"
        return True, f"{{{src}}} is wrapped in html.escape"
    return False, f"{{{src}}} is interpolated without html.escape"


def _build_template_queries():
    fn = smt.find_function(BASE, "format_error")
    tree = ast.parse(smt.read_source(BASE))
    params = {a.arg: (ast.unparse(a.annotation) if a.annotation else None) for a in fn.args.args}
    assigns = {}
    for n in ast.walk(fn):
        if isinstance(n, ast.Assign):
            for t in n.targets:
                if isinstance(t, ast.Name):
                    if t.id in assigns or t.id in params:
                        raise smt.AnchorNotFound(f"format_error: {t.id} assigned more than once (classifier assumes single assignment)")
                    assigns[t.id] = n.value
    joined = [n for n in ast.walk(fn) if isinstance(n, ast.JoinedStr)]
    if not joined:
        raise smt.AnchorNotFound("format_error: no f-string template")
    items = []
    for j in joined:
        for part in j.values:
            if isinstance(part, ast.FormattedValue):
                ok, why = _classify_interpolation(part, params, assigns)
                items.append((ast.unparse(part.value), ok, why))
    msg_param = fn.args.args[1].arg if len(fn.args.args) >= 2 else None
    if msg_param is None or not any(isinstance(n, ast.Name) and n.id == msg_param for j in joined for n in ast.walk(j)):
        raise smt.AnchorNotFound("format_error: the message parameter is not interpolated at all (template changed)")
    # `html` is the stdlib module, never rebound
    imp = any(isinstance(n, ast.Import) and any(a.name == "html" and a.asname is None for a in n.names) for n in tree.body)
    rebound = any(isinstance(n, (ast.Assign, ast.FunctionDef, ast.ClassDef)) and ("html" in [getattr(t, "id", None) for t in getattr(n, "targets", [])] or getattr(n, "name", None) == "html")
                  for n in ast.walk(tree))
    items.append(("html", imp and not rebound, "name `html` must be the stdlib module (import html, never rebound)"))
    # post-processing: return <template>.dedent/strip/encode only, and every other string building construct is absent
    rets = [n for n in ast.walk(fn) if isinstance(n, ast.Return)]
    ok_chain = len(rets) == 1
    if ok_chain:
        e = rets[0].value
        while True:
            if isinstance(e, ast.Call) and isinstance(e.func, ast.Attribute) and e.func.attr in ("strip", "lstrip", "rstrip", "encode") and not isinstance(e.func.value, ast.Name):
                e = e.func.value
            elif isinstance(e, ast.Call) and ast.unparse(e.func) == "textwrap.dedent" and len(e.args) == 1:
                e = e.args[0]
            else:
                break
        ok_chain = isinstance(e, ast.JoinedStr) and len(joined) == 1 and e is joined[0]
    items.append(("return", ok_chain, "the returned page must be the f-string template passed only through textwrap.dedent / strip / encode"))
    return [_Syntactic("every interpolation of the HTML template is int | RESPONSES value | html.escape(...)", items, key="C12/template/unescaped-interpolation")]


def _build_reason_queries():
    node = smt.find_assign(SC, "RESPONSES")
    if not isinstance(node, ast.Dict):
        raise smt.AnchorNotFound("status_codes.RESPONSES is not a dict literal")
    vals = []
    for v in node.values:
        if not (isinstance(v, ast.Constant) and isinstance(v.value, str)):
            raise smt.AnchorNotFound(f"status_codes.RESPONSES value {ast.unparse(v)} is not a string literal")
        vals.append(v.value)
    s = z3.String("s")
    lang = z3.Union(*[z3.Re(z3.StringVal(v)) for v in vals])
    # element content: < > & are the significant characters (quotes are harmless outside attribute values)
    bad = z3.Concat(smt.any_string(), smt.chars("<>&"), smt.any_string())

    def rp(w):
        from mitmproxy.net.http import status_codes

        hit = [v for v in status_codes.RESPONSES.values() if set(v) & set("<>&")]
        return bool(hit), f"reason phrase(s) with markup: {hit}"

    return [smt.Query(f"no reason phrase ({len(vals)} literals) contains < > &", [z3.InRe(s, z3.Intersect(lang, bad))], key="C12/template/reason-phrase-markup", witness_vars=[s], replay=rp)]


def _build_callsite_queries():
    fn = smt.find_function(H1, "make_error_response")
    calls = [n for n in ast.walk(fn) if isinstance(n, ast.Call)]
    make = [c for c in calls if ast.unparse(c.func).endswith("Response.make")]
    items = []
    if len(make) != 1:
        raise smt.AnchorNotFound("make_error_response: exactly one Response.make call expected")
    m = make[0]
    body_ok = len(m.args) >= 2 and isinstance(m.args[1], ast.Call) and ast.unparse(m.args[1].func) == "format_error" and \
        [ast.unparse(a) for a in m.args[1].args] == [a.arg for a in fn.args.args]
    items.append(("body", body_ok, "the body must be format_error(status_code, message)"))
    ct = [k.value for c in calls if ast.unparse(c.func).endswith("Headers") for k in c.keywords if k.arg and k.arg.lower().replace("_", "-") == "content-type"]
    ct_ok = len(ct) == 1 and isinstance(ct[0], ast.Constant) and str(ct[0].value).lower().startswith("text/html")
    items.append(("content-type", ct_ok, "Content-Type must be the literal text/html"))
    rets = [n for n in ast.walk(fn) if isinstance(n, ast.Return)]
    items.append(("return", len(rets) == 1 and ast.unparse(rets[0].value.func).endswith("assemble_response"), "the response must be serialised by http1.assemble_response"))
    return [_Syntactic("make_error_response = assemble_response(Response.make(code, format_error(code, message), text/html))", items, key="C12/callsite/make-error-response")]


# ------------------------------------------------------------------------------------------
# e2e

MARKS = ["<", ">", "&", '"', "'", "x"]
_ENTITIES = ("&amp;", "&lt;", "&gt;", "&quot;", "&#x27;")
BENIGN = "C12benignC12"


def _safe(fragment: str):
    for i, ch in enumerate(fragment):
        if ch in "<>\"'":
            return False, i
        if ch == "&" and not any(fragment.startswith(e, i) for e in _ENTITIES):
            return False, i
    return True, -1


def _norm(s: str) -> str:
    return re.sub(r"\n[ \t]*", "\n", s)


def _check_page(X, body: bytes, status: int, token: str, where: str):
    """page = template(status) with the message slot(s) filled by safe text only"""
    from mitmproxy.proxy.layers.http._base import format_error

    try:
        page = body.decode("utf8")
    except UnicodeDecodeError as e:
        X.fail(f"C12/{where}/page-not-utf8", f"error page is not UTF-8: {e}: {body!r}")
    parts = _norm(format_error(status, BENIGN).decode("utf8")).split(BENIGN)
    X.check(len(parts) >= 2, f"C12/{where}/message-not-shown", "baseline page does not contain the message at all")
    rx = "(.*?)".join(re.escape(p) for p in parts)
    m = re.fullmatch(rx, _norm(page), re.S)
    X.check(m is not None, f"C12/{where}/template-broken", f"page does not have the shape of the template for status {status}: {page!r}")
    reflected = False
    for frag in m.groups():
        ok, at = _safe(frag)
        X.check(ok, f"C12/{where}/unescaped", f"message slot contains unescaped markup at offset {at}: {frag!r} (token {token!r})", fragment=frag)
        if token.lower() in html.unescape(frag).lower():
            reflected = True
    # the raw token (if it contains markup) must not occur anywhere in the page
    if set(token) & set("<>\"'&"):
        X.check(token.lower() not in page.lower(), f"C12/{where}/raw-token-in-page", f"raw token {token!r} occurs in the page: {page!r}")
    if reflected:
        X.reach("reflected")
        X.reach(f"reflected:{where}")
    return reflected


def _token(X, marks):
    a, b = X.choose("c1", marks), X.choose("c2", marks)
    # optionally a long tail: error messages of several kB must be escaped exactly like short ones
    pad = X.choose("padding", [0, 5000])
    if pad:
        X.reach("long-message")
    return "Zq" + a + b + "Qz" + "p" * pad


H1_SCENARIOS = ["bad-http-version", "bad-scheme", "bad-authority", "header-line-without-colon", "bad-content-length", "invalid-header-name", "no-host",
                "oversize-request", "oversize-response", "unreachable-upstream", "upstream-bad-status-line", "upstream-invalid-header-name",
                "upstream-bad-chunk-size", "upstream-closes", "connect-unreachable"]


def h_e2e_h1(X, marks):
    from mitmproxy.proxy.layers import http as H

    sc = X.choose("scenario", H1_SCENARIOS)
    tok = _token(X, marks)
    tb = tok.encode()
    opts = sansio.make_options(body_size_limit="3") if sc.startswith("oversize") else _opts()
    ctx = sansio.make_context(opts)
    layer = H.HttpLayer(ctx, H.HTTPMode.regular)
    d = sansio.Driver(layer, ctx)
    d.on_open = lambda cmd: (f"[Errno -2] Name or service not known: {tok}" if sc in ("unreachable-upstream", "connect-unreachable") else None)
    d.start()
    ok_head = b"GET http://a.test/p?" + tb + b" HTTP/1.1\r\nHost: a.test\r\nX-T: " + tb + b"\r\n\r\n"
    method = b"GET"
    if sc == "bad-http-version":
        d.data(ctx.client, b"GET /" + tb + b" HTXP/1.1\r\nHost: a.test\r\n\r\n")
    elif sc == "bad-scheme":
        d.data(ctx.client, b"GET " + tb + b"://a.test:80/ HTTP/1.1\r\nHost: a.test\r\n\r\n")
    elif sc == "bad-authority":
        d.data(ctx.client, b"GET http://a" + tb + b".test/ HTTP/1.1\r\nHost: a.test\r\n\r\n")
    elif sc == "header-line-without-colon":
        d.data(ctx.client, b"GET http://a.test/ HTTP/1.1\r\nHost: a.test\r\n" + tb + b"\r\n\r\n")
    elif sc == "bad-content-length":
        method = b"POST"
        d.data(ctx.client, b"POST http://a.test/ HTTP/1.1\r\nHost: a.test\r\nContent-Length: " + tb + b"\r\n\r\n")
    elif sc == "invalid-header-name":
        d.data(ctx.client, b"GET http://a.test/ HTTP/1.1\r\nHost: a.test\r\nX " + tb + b": v\r\n\r\n")
    elif sc == "no-host":
        d.data(ctx.client, b"GET /" + tb + b" HTTP/1.1\r\nHost: " + tb + b"\r\n\r\n")
    elif sc == "connect-unreachable":
        method = b"CONNECT"
        d.data(ctx.client, b"CONNECT a.test:443 HTTP/1.1\r\nHost: a.test:443\r\nX-T: " + tb + b"\r\n\r\n")
    elif sc == "oversize-request":
        method = b"POST"
        d.data(ctx.client, b"POST http://a.test/" + tb + b" HTTP/1.1\r\nHost: a.test\r\nContent-Length: 8\r\n\r\n" + tb + b"!!")
    else:
        d.data(ctx.client, ok_head)
        if sc != "unreachable-upstream":
            X.check(len(d.opened) == 1, "C12/harness/no-upstream", "request was not forwarded")
            srv = d.opened[0]
            if sc == "oversize-response":
                d.data(srv, b"HTTP/1.1 200 OK\r\nContent-Length: 8\r\nX-T: " + tb + b"\r\n\r\n" + tb + b"!!")
            elif sc == "upstream-bad-status-line":
                d.data(srv, b"HTTP/1.1 " + tb + b" OK\r\nContent-Length: 0\r\n\r\n")
            elif sc == "upstream-invalid-header-name":
                d.data(srv, b"HTTP/1.1 200 OK\r\nX " + tb + b": v\r\nContent-Length: 0\r\n\r\n")
            elif sc == "upstream-bad-chunk-size":
                d.data(srv, b"HTTP/1.1 200 OK\r\nTransfer-Encoding: chunked\r\n\r\n" + tb + b"\r\nabc\r\n")
            elif sc == "upstream-closes":
                d.close(srv)
    out = d.sent_to(ctx.client)
    if not out:
        # this token does not make mitmproxy answer with an error page here (e.g. a harmless token is a valid host name)
        X.reach(f"no-page:{sc}")
        return
    X.reach(f"page:{sc}")
    msgs, rest, err = http1ref.parse_stream(out, "response", [method], eof=False)
    X.check(err is None and len(msgs) == 1 and rest == b"", f"C12/h1/{sc}/not-one-complete-response",
            f"client bytes do not parse as exactly one complete response ({err}; {len(msgs)} messages; leftover {rest[:60]!r}): {out[:300]!r}")
    m = msgs[0]
    X.check(400 <= m.status <= 599, f"C12/h1/{sc}/not-an-error-status", f"status {m.status}")
    if sc == "connect-unreachable" and not any(n == b"content-type" and b"html" in v.lower() for n, v in m.header_list()):
        # the body of a refused CONNECT is plain text without an HTML content type: not an HTML error page (outside the sentence)
        X.reach("connect-error-not-html")
        return
    cl = [v for n, v in m.header_list() if n == b"content-length"]
    X.check(len(cl) == 1 and cl[0].isdigit() and int(cl[0]) == len(m.body), f"C12/h1/{sc}/content-length",
            f"Content-Length {cl} vs body of {len(m.body)} bytes")
    ct = [v for n, v in m.header_list() if n == b"content-type"]
    X.check(len(ct) == 1 and ct[0].lower().split(b";")[0].strip() == b"text/html", f"C12/h1/{sc}/content-type", f"Content-Type {ct}")
    _check_page(X, m.body, m.status, tok, f"h1/{sc}")


H2_SCENARIOS = ["invalid-header-name", "bad-scheme", "no-host", "oversize-request", "oversize-response", "unreachable-upstream", "upstream-bad-status-line",
                "upstream-invalid-header-name", "upstream-bad-chunk-size", "upstream-closes"]


def h_e2e_h2(X, marks):
    from mitmproxy.proxy.layers import http as H
    from vf.refs.h2peer import H2Peer

    sc = X.choose("scenario", H2_SCENARIOS)
    tok = _token(X, marks)
    tb = tok.encode()
    opts = sansio.make_options(body_size_limit="3") if sc.startswith("oversize") else _opts()
    ctx = sansio.make_context(opts)
    ctx.client.alpn = b"h2"
    ctx.client.tls = True
    layer = H.HttpLayer(ctx, H.HTTPMode.regular)
    d = sansio.Driver(layer, ctx)
    d.on_open = lambda cmd: (f"[Errno -2] Name or service not known: {tok}" if sc == "unreachable-upstream" else None)
    cp = H2Peer(client_side=True)
    d.start()
    d.data(ctx.client, cp.start())
    base = [(":method", "GET"), (":scheme", "http"), (":authority", "a.test"), (":path", "/p?" + tok), ("x-t", tok)]
    if sc == "invalid-header-name":
        d.data(ctx.client, cp.request(1, base + [("x" + tok.lower(), "v")]))  # hyper-h2 itself rejects upper case / blanks with a GOAWAY
    elif sc == "bad-scheme":
        d.data(ctx.client, cp.request(1, [(":method", "GET"), (":scheme", tok), (":authority", "a.test"), (":path", "/")]))
    elif sc == "no-host":
        d.data(ctx.client, cp.request(1, [(":method", "GET"), (":scheme", "http"), (":path", "/" + tok), ("host", tok), ("x-t", tok)]))
    elif sc == "oversize-request":
        d.data(ctx.client, cp.request(1, [(":method", "POST")] + base[1:] + [("content-length", "8")], body=tb + b"!!", end_stream=True))
    else:
        d.data(ctx.client, cp.request(1, base))
        if sc != "unreachable-upstream":
            X.check(len(d.opened) == 1, "C12/harness/no-upstream", "request was not forwarded")
            srv = d.opened[0]
            if sc == "oversize-response":
                d.data(srv, b"HTTP/1.1 200 OK\r\nContent-Length: 8\r\nX-T: " + tb + b"\r\n\r\n" + tb + b"!!")
            elif sc == "upstream-bad-status-line":
                d.data(srv, b"HTTP/1.1 " + tb + b" OK\r\nContent-Length: 0\r\n\r\n")
            elif sc == "upstream-invalid-header-name":
                d.data(srv, b"HTTP/1.1 200 OK\r\nX " + tb + b": v\r\nContent-Length: 0\r\n\r\n")
            elif sc == "upstream-bad-chunk-size":
                d.data(srv, b"HTTP/1.1 200 OK\r\nTransfer-Encoding: chunked\r\n\r\n" + tb + b"\r\nabc\r\n")
            elif sc == "upstream-closes":
                d.close(srv)
    cp.feed(d.sent_to(ctx.client))
    X.check(cp.error is None, f"C12/h2/{sc}/client-protocol-error", f"mitmproxy's HTTP/2 output is rejected by the h2 peer: {cp.error}")
    r = cp.responses().get(1)
    if r is None or r["headers"] is None:
        # connection-level error (GOAWAY, raised by hyper-h2's own header validation) or request forwarded: no page to judge
        X.reach(f"no-page:{sc}")
        return
    X.reach(f"page:{sc}")
    hs = dict(r["headers"])
    status = int(hs[b":status"])
    X.check(r["ended"] and r["reset"] is None, f"C12/h2/{sc}/stream-not-ended", f"error response not ended cleanly: {r}")
    X.check(400 <= status <= 599, f"C12/h2/{sc}/not-an-error-status", f"status {status}")
    ct = [v for n, v in r["headers"] if n.lower() == b"content-type"]
    X.check(len(ct) == 1 and ct[0].lower().split(b";")[0].strip() == b"text/html", f"C12/h2/{sc}/content-type", f"content-type {ct}")
    _check_page(X, r["body"], status, tok, f"h2/{sc}")


_OPTS = None


def _opts():
    global _OPTS
    if _OPTS is None:
        _OPTS = sansio.make_options()
    return _OPTS


def obligations(tier):
    marks = MARKS if tier == "quick" else MARKS + [";", "#", "/", "="]
    K = "props/chx/c12_kernel.py"
    allcp = "all 1 114 112 code points (symbolic code point, CrossHair 'Confirmed over all paths')"
    return [
        Chx("escape-codepoint", K, "check_escape_codepoint", twin="twin_escape_codepoint", bounds=allcp, encoded=["html:escape"], timeout=30),
        Chx("embedded-codepoint", K, "check_embedded_codepoint", twin="twin_embedded_codepoint", bounds=allcp + " between fixed neighbours", encoded=["html:escape"], timeout=30),
        Chx("pair-homomorphic", K, "check_pair_homomorphic", twin="twin_pair_homomorphic", bounds="all pairs of code points", encoded=["html:escape"], timeout=60),
        Chx("encode-codepoint", K, "check_encode_codepoint", twin="twin_encode_codepoint", bounds=allcp, encoded=["mitmproxy.proxy.layers.http._base:format_error"], timeout=30),
        Smt("template-interpolations", _build_template_queries, bounds="every FormattedValue of the f-string template in the current source of format_error (syntactic)", encoded=ENCODED[:1]),
        Smt("reason-phrases", _build_reason_queries, bounds="every value of the status_codes.RESPONSES dict literal", encoded=["mitmproxy.proxy.layers.http._base:format_error"]),
        Smt("error-response-callsite", _build_callsite_queries, bounds="the AST of _http1.make_error_response (syntactic)", encoded=ENCODED[1:2]),
        Symx("e2e-h1", lambda X: h_e2e_h1(X, marks), bounds=f"{len(H1_SCENARIOS)} error-page paths x token 'Zq'+c1+c2+'Qz' with c1,c2 from {marks}; HTTP/1 client, regular mode",
             encoded=ENCODED, must_reach=["reflected", "connect-error-not-html"] + [f"page:{s}" for s in H1_SCENARIOS] +
             [f"reflected:h1/{s}" for s in ("bad-http-version", "bad-scheme", "bad-authority", "header-line-without-colon", "bad-content-length", "invalid-header-name",
                                            "unreachable-upstream", "upstream-bad-status-line", "upstream-invalid-header-name")], parallel_depth=2),
        Symx("e2e-h2", lambda X: h_e2e_h2(X, marks), bounds=f"{len(H2_SCENARIOS)} error-page paths x the same tokens; HTTP/2 client (in-memory h2 peer), HTTP/1 upstream",
             encoded=ENCODED, must_reach=["reflected"] + [f"page:{s}" for s in H2_SCENARIOS] +
             [f"reflected:h2/{s}" for s in ("invalid-header-name", "bad-scheme", "unreachable-upstream", "upstream-bad-status-line", "upstream-invalid-header-name")], parallel_depth=2),
    ]
