"""C30 — QUIC streams are demultiplexed onto correctly paired streams.

(i) id kernel, ALL values: the real `RawQuicLayer.get_next_available_stream_id` is executed on a
    `next_stream_id` table whose four entries are symbolic (entry i = 4*k_i + i, k_i any value below 2^60,
    i.e. every state that satisfies the representation invariant); three calls with solver-chosen
    (is_client, is_unidirectional).  Asserted: aioquic's own `stream_is_client_initiated` /
    `stream_is_unidirectional` (real functions, run on the symbolic id) agree with the request, the
    invariant `next_stream_id[i] == i (mod 4)` is kept, ids of one class strictly increase, all returned
    ids are pairwise distinct and none is below the table entry it was taken from.
(ii) schedules through the real `RawQuicLayer(force_raw=True)` with its real per-stream `QuicStreamLayer` +
    `TCPLayer` children and the `UDPLayer` datagram child (native execution; every step a solver-enumerated
    selector): data / data+FIN / empty FIN / reset on a client-side or server-side stream (new stream of a
    solver-chosen class, or an existing one on a direction that is still open), connection close from
    either side.  Oracle (written from the property sentence + RFC 9000 §2.1/§3 stream states):
      * pairing: all stream commands emitted while handling an event on stream P go to P's own pair
        (client-side id on the client connection, partner id on the server connection); the partner id is a
        function of the pair, injective, same initiator bit and same directionality bit;
      * relay: data -> exactly one SendQuicStreamData(partner, same bytes) on the other connection;
        FIN -> the partner's send direction is finished exactly once (end_stream=True); reset ->
        ResetQuicStream(partner, same error code); nothing to any other stream;
      * direction legality: no SendQuicStreamData/ResetQuicStream on a receive-only stream (unidirectional,
        initiated by the peer of that connection), no StopSendingQuicStream on a send-only one; nothing sent on a
        stream after its FIN/RESET was sent;
      * state invariant: `client_stream_ids` / `server_stream_ids` map distinct ids to distinct stream layers
        and each layer's two ids agree in their two low bits.
"""
from aioquic.quic.connection import stream_is_client_initiated, stream_is_unidirectional

from mitmproxy import connection
from mitmproxy.connection import ConnectionState
from mitmproxy.proxy import commands
from mitmproxy.proxy.layers.quic import _raw_layers
from mitmproxy.proxy.layers.quic._commands import (CloseQuicConnection, QuicStreamCommand, ResetQuicStream, SendQuicStreamData,
                                                   StopSendingQuicStream)
from mitmproxy.proxy.layers.quic._events import QuicConnectionClosed, QuicStreamDataReceived, QuicStreamReset

from vf import sansio
from vf.ob import Symx

LEVEL = "model_checking"
ASSUMPTIONS = [
    "the QUIC stack below (aioquic via QuicLayer) only delivers events RFC 9000 allows: stream data/reset only on streams the peer may send on "
    "(its own streams, or bidirectional streams opened towards it), nothing on a stream direction after its FIN/RESET, nothing from a connection "
    "after its close; after mitmproxy issues CloseQuicConnection for a connection the only further event from it is its QuicConnectionClosed",
    "hooks complete immediately and do not edit (relay exactness under edits is C29)",
    "id kernel: table entries below 2^62 (QUIC's stream id space), entry i = i (mod 4)",
]
OUTSIDE = ["QuicStreamStopSending events (RawQuicLayer has no handler for them: it raises AssertionError — noted in the report, outside this property's quantifier)",
           "force_raw=False (protocol detection per stream via next_layer)", "schedules longer than the stated bound / more concurrent streams than the bound",
           "aioquic itself"]
ENCODED = ["mitmproxy.proxy.layers.quic._raw_layers:RawQuicLayer._handle_event", "mitmproxy.proxy.layers.quic._raw_layers:RawQuicLayer.event_to_child",
           "mitmproxy.proxy.layers.quic._raw_layers:RawQuicLayer.close_stream_layer", "mitmproxy.proxy.layers.quic._raw_layers:RawQuicLayer.get_next_available_stream_id",
           "mitmproxy.proxy.layers.quic._raw_layers:QuicStreamLayer.__init__", "mitmproxy.proxy.layers.quic._raw_layers:QuicStreamLayer.open_server_stream",
           "mitmproxy.proxy.layers.tcp:TCPLayer.relay_messages"]

_OPTS = sansio.make_options()


# ---------------------------------------------------------------------------------------------
# (i) id kernel


def h_ids(X, ncalls=3):
    ctx = sansio.make_context(_OPTS, transport="udp")
    ctx.server = connection.Server(address=("203.0.113.5", 443), transport_protocol="udp")
    lay = _raw_layers.RawQuicLayer(ctx, force_raw=True)
    table = [4 * X.int(f"k{i}", 0, (1 << 60) - 1) + i for i in range(4)]
    lay.next_stream_id = list(table)
    got = []  # (class index, id)
    for n in range(ncalls):
        is_client = X.boolean("is_client")
        is_uni = X.boolean("is_unidirectional")
        before = list(lay.next_stream_id)
        sid = lay.get_next_available_stream_id(is_client, is_uni)
        # aioquic's own predicates, executed on the symbolic id
        X.check(bool(stream_is_client_initiated(sid)) == is_client, "C30/ids/initiator-bit",
                f"id allocated for is_client={is_client} has the wrong initiator bit")
        X.check(bool(stream_is_unidirectional(sid)) == is_uni, "C30/ids/direction-bit",
                f"id allocated for is_unidirectional={is_uni} has the wrong direction bit")
        # independent reading of RFC 9000 §2.1: bit 0 = initiator (0 client), bit 1 = directionality (1 uni)
        cls = (0 if is_client else 1) | (2 if is_uni else 0)
        X.check(bool((sid & 3) == cls), "C30/ids/low-bits", f"id & 3 != {cls}")
        for i in range(4):
            X.check(bool(lay.next_stream_id[i] % 4 == i), "C30/ids/invariant-broken", f"next_stream_id[{i}] is no longer = {i} mod 4")
            if i == cls:
                X.check(bool(lay.next_stream_id[i] > sid), "C30/ids/not-advancing", "table entry of the used class did not move past the returned id")
            else:
                X.check(bool(lay.next_stream_id[i] == before[i]), "C30/ids/other-class-touched", f"table entry {i} of another class changed")
        X.check(bool(sid >= table[cls]), "C30/ids/below-table", "returned id is below the table entry it came from")
        for c0, s0 in got:
            X.check(bool(s0 != sid), "C30/ids/duplicate", "the same stream id was handed out twice")
            if c0 == cls:
                X.check(bool(s0 < sid), "C30/ids/not-increasing", "ids of one class are not strictly increasing")
                X.reach("same-class-twice")
        got.append((cls, sid))
    X.reach("end")


# ---------------------------------------------------------------------------------------------
# (ii) schedules


class _QDriver(sansio.Driver):
    def __init__(self, *a):
        super().__init__(*a)
        self.qcmds = []  # QUIC stream commands in order

    def other(self, cmd):
        if isinstance(cmd, QuicStreamCommand):
            self.qcmds.append(cmd)
        else:
            raise RuntimeError(f"unexpected command {cmd!r}")


class _Pair:
    """one relayed stream as the reference sees it"""

    def __init__(self, cls, first_side, first_id):
        self.cls = cls  # id & 3
        self.ids = {first_side: first_id, _other(first_side): None}
        uni = bool(cls & 2)
        initiator = "client" if not (cls & 1) else "server"
        # side -> may the peer on that side still send us something on this stream
        self.recv_open = {side: (not uni) or side == initiator for side in ("client", "server")}
        # what arrived from / what we sent to each side: payload list + final signal None | ("fin",) | ("reset", code)
        self.recv = {"client": {"data": [], "final": None}, "server": {"data": [], "final": None}}
        self.sent = {"client": {"data": [], "final": None}, "server": {"data": [], "final": None}}

    def uni(self):
        return bool(self.cls & 2)

    def initiator(self):
        return "client" if not (self.cls & 1) else "server"


def _other(side):
    return "server" if side == "client" else "client"


def h_streams(X, K, max_streams, kinds, async_hooks=False):
    ctx = sansio.make_context(_OPTS, transport="udp")
    ctx.server = connection.Server(address=("203.0.113.5", 443), transport_protocol="udp")
    lay = _raw_layers.RawQuicLayer(ctx, force_raw=True)
    d = _QDriver(lay, ctx)
    conns = {"client": ctx.client, "server": ctx.server}
    side_of = lambda conn: "client" if conn is ctx.client else ("server" if conn is ctx.server else None)  # noqa
    # hooks: completed right after the event that raised them (sync) or withheld until a later, solver-chosen step (async:
    # what server.py's hook_task does — the completion always arrives as a separate, later event)
    d.on_hook = lambda hook: not (async_hooks and hook.name.startswith("tcp_"))
    d.start()
    X.check(ctx.server in d.opened, "C30/raw/not-opened", "upstream QUIC connection was never opened")
    pairs = []
    conn_open = {"client": True, "server": True}  # peer on that side may still send events; "closing" = only its close echo is left
    any_conn_closed = False
    marker = 0
    # ids the peers use for the streams they initiate: second stream first, so that mitmproxy's own numbering
    # (0,4,.. per class) differs from the peer's and a mix-up of the two id spaces cannot go unnoticed
    own_ids = {cls: [cls + 4, cls, cls + 8, cls + 12] for cls in range(4)}

    def check_state_invariant(where):
        seen = {}
        for sid, sl in lay.client_stream_ids.items():
            X.check(sl.stream_id(True) == sid, "C30/raw/state-client-id", f"{where}: client_stream_ids[{sid}] holds a layer with client id {sl.stream_id(True)}")
            X.check(id(sl) not in seen, "C30/raw/state-layer-twice", f"{where}: one stream layer registered under two client ids")
            seen[id(sl)] = sid
        sseen = set()
        for sid, sl in lay.server_stream_ids.items():
            X.check(sl.stream_id(False) == sid, "C30/raw/state-server-id", f"{where}: server_stream_ids[{sid}] holds a layer with server id {sl.stream_id(False)}")
            X.check(id(sl) in seen, "C30/raw/state-unpaired", f"{where}: server stream {sid} has no client-side stream")
            X.check(id(sl) not in sseen, "C30/raw/state-layer-twice", f"{where}: one stream layer registered under two server ids")
            sseen.add(id(sl))
            cid = seen.get(id(sl))
            if cid is not None:
                X.check((cid & 3) == (sid & 3), "C30/raw/pair-bits", f"{where}: client stream {cid} paired with server stream {sid}: initiator/direction bits differ")

    def owner_of(side, sid, where, c):
        for p in pairs:
            if p.ids[side] == sid:
                return p
        # an id seen for the first time on this side: identify the pair through the layer's registration tables
        table = lay.server_stream_ids if side == "server" else lay.client_stream_ids
        sl = table.get(sid)
        X.check(sl is not None, "C30/raw/unpaired-target", f"{where}: {c!r} targets stream {sid} on the {side} connection, which belongs to no stream pair")
        oid = sl.stream_id(side == "server")  # the id on the other side (stream_id(client=True) = client-side id)
        for p in pairs:
            if p.ids[_other(side)] == oid and p.ids[side] is None:
                X.check((sid & 3) == p.cls, "C30/raw/pair-bits", f"{where}: stream {oid} (class {p.cls}) paired with {side}-side stream {sid} (class {sid & 3})")
                p.ids[side] = sid
                X.reach("partner-learned")
                return p
        X.fail("C30/raw/unpaired-target", f"{where}: {c!r} targets stream {sid} on the {side} connection, which belongs to no stream pair")

    def judge_commands(new, cause, where):
        """pairing, direction legality and prefix-exact relaying for the stream commands `new`;
        cause = the _Pair whose event / hook completion was handled (None: connection close)"""
        for c in new:
            side = side_of(c.connection)
            X.check(side is not None, "C30/raw/foreign-connection", f"{where}: {c!r} targets a connection that is neither the client's nor the server's QUIC connection")
            sid = c.stream_id
            owner = owner_of(side, sid, where, c)
            if cause is not None:
                X.check(owner is cause, "C30/raw/wrong-stream", f"{where}: {c!r} belongs to pair {owner.ids}, but the event was on pair {cause.ids}")
            # direction legality on `side`: mitmproxy initiated the stream there iff (side == server) == (client-initiated bit)
            we_initiated = (side == "server") == (not (sid & 1))
            if owner.uni():
                if isinstance(c, (SendQuicStreamData, ResetQuicStream)):
                    X.check(we_initiated, "C30/raw/send-on-receive-only", f"{where}: {c!r} on a unidirectional stream that only the {side} peer may send on")
                if isinstance(c, StopSendingQuicStream):
                    X.check(not we_initiated, "C30/raw/stop-sending-on-send-only", f"{where}: {c!r} on a unidirectional stream that only mitmproxy sends on")
            if isinstance(c, (SendQuicStreamData, ResetQuicStream)):
                snt, src = owner.sent[side], owner.recv[_other(side)]
                X.check(snt["final"] is None, "C30/raw/send-after-final", f"{where}: {c!r} after {snt['final']} was already sent on that stream")
                if isinstance(c, SendQuicStreamData) and c.data:
                    snt["data"].append(bytes(c.data))
                    X.check(snt["data"] == src["data"][:len(snt["data"])], "C30/raw/data-not-relayed",
                            f"{where}: stream {sid} on the {side} connection was sent {snt['data']}, but its partner received {src['data']}")
                if isinstance(c, ResetQuicStream):
                    snt["final"] = ("reset", c.error_code)
                elif c.end_stream:
                    snt["final"] = ("fin",)
                if snt["final"] is not None and not any_conn_closed:
                    # "preserve stream resets": an abort must not reach the partner as a clean end of stream (FIN = "the data is complete")
                    X.check(not (snt["final"] == ("fin",) and src["final"] is not None and src["final"][0] == "reset"), "C30/raw/reset-relayed-as-fin",
                            f"{where}: the peer's RESET_STREAM{src['final'][1:] if src['final'] else ''} reached the partner stream {sid} as a clean FIN instead of ResetQuicStream")
                    X.check(snt["final"] == src["final"], "C30/raw/spurious-end",
                            f"{where}: {snt['final']} sent on stream {sid} ({side}), but its partner received final signal {src['final']}")
                    X.check(snt["data"] == src["data"], "C30/raw/end-before-data",
                            f"{where}: final signal sent on stream {sid} ({side}) after {snt['data']} although the partner received {src['data']}")

    def pair_of_hook(hook):
        md = hook.args()[0].metadata
        for p in pairs:
            if p.ids["client"] is not None and md.get("quic_stream_id_client") == p.ids["client"]:
                return p
            if p.ids["server"] is not None and md.get("quic_stream_id_server") == p.ids["server"]:
                return p
        X.fail("C30/raw/hook-without-stream", f"hook {hook.name} carries stream ids {md} that belong to no stream the peers opened")

    def check_quiescent(where):
        """a pair with no hook in flight has processed everything it received: relayed == received, exactly"""
        if any_conn_closed:
            return
        busy = [pair_of_hook(h) for h in d.pending_hooks]
        for p in pairs:
            if any(b is p for b in busy):
                continue
            for side in ("client", "server"):
                src, snt = p.recv[side], p.sent[_other(side)]
                X.check(snt["data"] == src["data"], "C30/raw/data-not-relayed",
                        f"{where}: pair {p.ids}: {side} sent {src['data']} but the partner stream was sent {snt['data']}")
                if src["final"] is not None and src["final"][0] == "reset":
                    X.check(snt["final"] != ("fin",), "C30/raw/reset-relayed-as-fin",
                            f"{where}: pair {p.ids}: the {side} peer's RESET_STREAM({src['final'][1]}) reached the partner as a clean FIN instead of ResetQuicStream")
                    X.check(snt["final"] == src["final"], "C30/raw/reset-not-relayed", f"{where}: pair {p.ids}: {side} reset {src['final']}, partner was sent {snt['final']}")
                    X.reach("reset-relayed")
                elif src["final"] is not None:
                    X.check(snt["final"] == src["final"], "C30/raw/fin-not-relayed", f"{where}: pair {p.ids}: {side} finished its stream, partner was sent {snt['final']}")
                    X.reach("fin-relayed")
                else:
                    X.check(snt["final"] is None, "C30/raw/spurious-end", f"{where}: pair {p.ids}: {side} still open but partner was sent {snt['final']}")
                if src["data"]:
                    X.reach("data-relayed")
            if p.recv["client"]["data"] or p.recv["client"]["final"] or p.recv["server"]["data"] or p.recv["server"]["final"]:
                X.check(p.ids["client"] is not None and p.ids["server"] is not None, "C30/raw/no-partner", f"{where}: pair {p.ids}: no partner stream became visible")
            if p.ids["client"] is not None and p.ids["server"] is not None and p.ids["client"] != p.ids["server"]:
                X.reach("ids-differ")

    for step in range(K):
        menu = []
        for side in ("client", "server"):
            if not conn_open[side]:
                continue
            if conn_open[side] == "closing":
                menu.append((side, None, "conn-close"))  # the echo of our own close command
                continue
            for p in pairs:
                if p.ids[side] is not None and p.recv_open[side]:
                    for k in kinds:
                        menu.append((side, pairs.index(p), k))
            if len(pairs) < max_streams:
                for uni in (0, 2):
                    cls = uni | (0 if side == "client" else 1)
                    for k in kinds:
                        menu.append((side, ("new", cls), k))
            menu.append((side, None, "conn-close"))
        for i in range(len(d.pending_hooks)):
            menu.append(("hook", i, "complete"))
        if not menu:
            X.reach("nothing-enabled")
            break
        side, target, kind = X.choose("step", menu)
        n0 = len(d.qcmds)
        t0 = len(d.trace)
        where = f"step {step} {side} {target} {kind}"
        if kind == "complete":
            hook = d.pending_hooks[target]
            cause = pair_of_hook(hook)
            d.complete_hook(hook)
            X.reach("hook-completed-later")
            judge_commands(d.qcmds[n0:], cause, where)
            check_state_invariant(where)
            check_quiescent(where)
            continue
        conn = conns[side]
        if kind == "conn-close":
            conn.state = ConnectionState.CLOSED
            conn_open[side] = False
            any_conn_closed = True
            unopened = [q.ids for q in pairs if q.ids["client"] is not None and lay.client_stream_ids[q.ids["client"]].stream_id(False) is None]
            try:
                d.feed(QuicConnectionClosed(conn, 0x42, None, "bye"))
            except AssertionError as e:
                import traceback
                frame = traceback.extract_tb(e.__traceback__)[-1]
                X.check(not (frame.name == "close_stream_layer" and unopened), "C30/raw/conn-close-asserts-on-unopened-stream",
                        f"{where}: QuicConnectionClosed while stream(s) {unopened} still wait for their start hook (partner stream not opened yet): "
                        f"AssertionError in {frame.name} line {frame.lineno}: {frame.line}")
                raise
            other = conns[_other(side)]
            closes = [c for c in d.trace[t0:] if isinstance(c, commands.CloseConnection) and c.connection is other]
            if conn_open[_other(side)] is True:
                X.check(len(closes) == 1 and isinstance(closes[0], CloseQuicConnection) and closes[0].error_code == 0x42 and closes[0].reason_phrase == "bye",
                        "C30/raw/conn-close-not-propagated", f"{where}: other connection got {closes}")
                # after our close command the only further event from that side is its own QuicConnectionClosed
                conn_open[_other(side)] = "closing"
                X.reach("conn-close-propagated")
            judge_commands(d.qcmds[n0:], None, where)
            for p in pairs:
                p.recv_open[side] = False
            check_state_invariant(where)
            X.reach("conn-close")
            continue
        # ---- stream event
        if isinstance(target, tuple):
            cls = target[1]
            used = {p.ids[side] for p in pairs}
            sid = [i for i in own_ids[cls] if i not in used][0]
            p = _Pair(cls, side, sid)
            pairs.append(p)
            X.reach("new-stream")
            if cls & 2:
                X.reach("uni-stream")
            if side == "server":
                X.reach("server-initiated")
        else:
            p = pairs[target]
            if p.initiator() != side:
                X.reach("reply-direction")
        sid = p.ids[side]
        payload = b""
        if kind in ("data", "data+fin"):
            payload = b"<%d>" % marker
            marker += 1
            p.recv[side]["data"].append(payload)
        if kind == "reset":
            ev = QuicStreamReset(conn, sid, 0x100 + step)
            p.recv[side]["final"] = ("reset", ev.error_code)
            p.recv_open[side] = False
        else:
            ev = QuicStreamDataReceived(conn, sid, payload, kind in ("fin", "data+fin"))
            if ev.end_stream:
                p.recv[side]["final"] = ("fin",)
                p.recv_open[side] = False
        d.feed(ev)
        new = d.qcmds[n0:]
        judge_commands(new, p, where)
        back = [c for c in new if side_of(c.connection) == side and isinstance(c, (SendQuicStreamData, ResetQuicStream)) and (isinstance(c, ResetQuicStream) or c.data)]
        X.check(not back, "C30/raw/echoed-to-sender", f"{where}: payload/reset sent back on the connection it came from: {back}")
        check_state_invariant(where)
        check_quiescent(where)
    # drain: complete every withheld hook, then everything received must have been relayed
    for _ in range(4 * (K + 1)):
        if not d.pending_hooks:
            break
        hook = d.pending_hooks[0]
        cause = pair_of_hook(hook)
        n0 = len(d.qcmds)
        d.complete_hook(hook)
        judge_commands(d.qcmds[n0:], cause, "drain")
    X.check(not d.pending_hooks, "C30/raw/hooks-never-end", "hooks keep coming after the schedule ended")
    check_state_invariant("end")
    check_quiescent("end")
    X.reach("end")


def obligations(tier):
    if tier == "quick":
        ka, sa, kb, sb, kc, sc = 4, 2, 5, 4, 4, 2
    else:
        ka, sa, kb, sb, kc, sc = 5, 2, 6, 4, 5, 2
    full = ("data", "fin", "data+fin", "reset")
    must = ["end", "new-stream", "uni-stream", "server-initiated", "reply-direction", "partner-learned", "data-relayed", "fin-relayed", "reset-relayed",
            "conn-close", "conn-close-propagated", "ids-differ"]
    alpha = "{client side, server side} x {new stream of class bidi/uni, existing stream with that direction open} + connection close from either side"
    return [
        Symx("stream-id-kernel", h_ids,
             bounds="all next_stream_id tables with entry i = 4*k_i + i, k_i < 2^60 (symbolic), 3 calls with every (is_client, is_unidirectional)",
             encoded=ENCODED[3:4] + ["aioquic.quic.connection:stream_is_client_initiated", "aioquic.quic.connection:stream_is_unidirectional"],
             must_reach=["end", "same-class-twice"]),
        Symx("stream-lifecycle-schedule", lambda X: h_streams(X, ka, sa, full),
             bounds=f"every schedule of {ka} enabled steps over {{data, empty FIN, data+FIN, reset}} x {alpha}; <= {sa} streams; hooks complete right after the event",
             encoded=ENCODED, must_reach=must, parallel_depth=2),
        Symx("stream-mapping-schedule", lambda X: h_streams(X, kb, sb, ("data",)),
             bounds=f"every schedule of {kb} enabled steps over {{data}} x {alpha}; <= {sb} streams opened in any order; hooks complete right after the event",
             encoded=ENCODED, must_reach=[m for m in must if m not in ("reset-relayed", "fin-relayed")], parallel_depth=2),
        Symx("stream-async-hooks-schedule", lambda X: h_streams(X, kc, sc, ("data", "fin", "reset"), async_hooks=True),
             bounds=f"every schedule of {kc} enabled steps over {{data, empty FIN, reset}} x {alpha} + {{complete a pending tcp_* hook}}; <= {sc} streams; "
                    f"hook completions withheld until a solver-chosen later step (as server.py's hook_task does), all completed at the end",
             encoded=ENCODED, must_reach=must + ["hook-completed-later"], parallel_depth=2),
    ]
