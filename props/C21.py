"""C21 — SOCKS5 handshakes are parsed exactly and subsequent data is relayed.

The real `Socks5Proxy` layer (state_greet / state_auth / state_connect, buf accumulation, socks_err,
finish_start) is executed on *fully symbolic* client byte buffers (every byte an 8-bit solver variable,
so one run of the decision tree covers all 256^N inputs of that length).  Oracles:
  (i)   differential against vf/refs/socks5ref.py, an independent RFC 1928/1929 server-side parser:
        replies, destination (family, address bytes, port), bytes handed to the next layer, closed?
  (ii)  segmentation independence: run([b]) == run([b[:k], b[k:]]) (and 3-way cuts) for solver-chosen k
  (iii) extension lemma: what was decided after a prefix (replies sent, rejection, destination, bytes
        relayed) is never changed by later bytes; bytes after the request reach the child exactly once,
        in order.
"""
import socket as _socket
import traceback
from typing import Optional

import z3

from mitmproxy.proxy import commands, events, layer
from mitmproxy.proxy.layers import modes

from vf import sansio, symbytes, symx
from vf.ob import Symx
from vf.refs import socks5ref as ref
from vf.symbytes import SymBytes

LEVEL = "model_checking"
ASSUMPTIONS = [
    "struct.unpack('!H') and socket.inet_ntop inside mitmproxy.proxy.layers.modes are replaced by the big-endian / opaque-address "
    "models of vf.symbytes (validated against the C functions by symbytes.selfcheck)",
    "bytes.decode(codec, errors) on a symbolic slice (domain name, user, password) is an opaque deterministic function of the bytes "
    "(token carrying the byte items); the codec tables themselves are not examined symbolically — obligation 'domain-text' runs the "
    "real decode on selector-built names",
    "bytes.isupper() on a symbolic slice is modelled exactly (some A-Z present and no a-z present)",
    "the credential validator behind Socks5AuthHook is an arbitrary predicate: one solver-chosen boolean per path (the real ProxyAuth addon is bound in C20)",
    "oracle = vf/refs/socks5ref.py (RFC 1928 sections 3-6, RFC 1929 section 2). Where the RFCs do not say what a server does "
    "(RSV != 0, RFC 1929 VER != 1, empty domain name) refusing and carrying on are both accepted; where no reply code is defined "
    "(wrong VER) no reply or any well-formed failure reply is accepted; a refusal may be postponed until the shortest complete "
    "message of the stage (3 / 5 / 7 bytes) could have arrived",
    "for 'no acceptable methods' only the leading X'05' X'FF' of the answer is compared (mitmproxy appends 8 surplus bytes before closing; "
    "weaker reading of 'replying with the RFC 1928 error code')",
]
OUTSIDE = ["greeting version bytes other than {5, 4, 'G', 'g', 0x16, 0} on buffers longer than 4 bytes (the %x formatting of the wrong version forks per value; all 256 values are covered on 4-byte buffers)", "UDP ASSOCIATE / BIND beyond 'refused with X'07''", "domain names with bytes >= 0x80 (mapped to U+FFFD by mitmproxy: such a name cannot be resolved, the connect fails)",
           "inputs longer than the stated number of symbolic bytes", "GSSAPI and other methods"]
ENCODED = [
    "mitmproxy.proxy.layers.modes:Socks5Proxy._handle_event", "mitmproxy.proxy.layers.modes:Socks5Proxy.state_greet",
    "mitmproxy.proxy.layers.modes:Socks5Proxy.state_auth", "mitmproxy.proxy.layers.modes:Socks5Proxy.state_connect",
    "mitmproxy.proxy.layers.modes:Socks5Proxy.socks_err", "mitmproxy.proxy.layers.modes:DestinationKnown.finish_start",
    "mitmproxy.proxy.layer:NextLayer._handle_event",
]
STUBS = ["modes.struct -> vf.symbytes.struct_module", "modes.socket.inet_ntop -> vf.symbytes.inet_ntop (opaque address token)",
         "SymBytes.decode -> opaque text token", "SymBytes.isupper -> symbolic model"]


# ------------------------------------------------------------------------------------------
# stubs (installed per path, restored afterwards)


class SymText(str):
    """text produced by decoding symbolic bytes: opaque, carries the byte items"""

    def __new__(cls, items, codec, errors):
        s = super().__new__(cls, "<symtext>")
        s.text_items = tuple(items)
        s.codec = (codec, errors)
        return s


def _decode(self, encoding="utf-8", errors="strict"):
    c = self.concrete()
    if c is not None:
        return c.decode(encoding, errors)
    if errors == "strict":
        raise symx.Unsupported("strict decode of symbolic bytes")
    return SymText(self.items, encoding, errors)


def _isupper(self):
    up = low = False
    for x in self.items:
        up = up | ((x >= 65) & (x <= 90))
        low = low | ((x >= 97) & (x <= 122))
    return bool(up & symx.lnot(low))


class _SocketShim:
    AF_INET = _socket.AF_INET
    AF_INET6 = _socket.AF_INET6
    inet_ntop = staticmethod(symbytes.inet_ntop)

    def __getattr__(self, n):
        return getattr(_socket, n)


class _Stubs:
    def __enter__(self):
        self.saved = (modes.struct, modes.socket, SymBytes.decode, SymBytes.isupper)
        modes.struct = symbytes.struct_module
        modes.socket = _SocketShim()
        SymBytes.decode = _decode
        SymBytes.isupper = _isupper

    def __exit__(self, *a):
        modes.struct, modes.socket, SymBytes.decode, SymBytes.isupper = self.saved
        return False


_OPTS = {}


def _options(auth, strategy):
    k = (auth, strategy)
    if k not in _OPTS:
        o = sansio.make_options(connection_strategy=strategy)
        o.add_option("proxyauth", Optional[str], None, "")
        if auth:
            o.update(proxyauth="any")
        _OPTS[k] = o
    return _OPTS[k]


# ------------------------------------------------------------------------------------------
# running the real layer


class Recorder(layer.Layer):
    """stands for whatever protocol layer comes after SOCKS: records what it is handed"""

    def __init__(self, context):
        super().__init__(context)
        self.chunks = []
        self.started = 0

    def _handle_event(self, event):
        if isinstance(event, events.Start):
            self.started += 1
        elif isinstance(event, events.DataReceived):
            self.chunks.append(event.data)
        yield from ()


class Out:
    def __init__(self, replies, closed, address, child, auths, opened, child_started):
        self.replies, self.closed, self.address, self.child = replies, closed, address, child
        self.auths, self.opened, self.child_started = auths, opened, child_started

    def __repr__(self):
        return f"<Out replies={[r.hex() for r in self.replies]} closed={self.closed} address={self.address!r} child={len(self.child)}B>"


class Run:
    def __init__(self, X, auth, validator, strategy="lazy", open_error=None):
        self.ctx = sansio.make_context(_options(auth, strategy), mode="socks5")
        self.layer = modes.Socks5Proxy(self.ctx)
        self.d = sansio.Driver(self.layer, self.ctx)
        self.recs = []
        self.auths = []
        self.X = X
        self.buflen = 0
        ctx = self.ctx

        def on_hook(hook):
            if isinstance(hook, layer.NextLayerHook):
                if hook.data.layer is None:
                    r = Recorder(ctx)
                    self.recs.append(r)
                    hook.data.layer = r
            elif isinstance(hook, modes.Socks5AuthHook):
                self.auths.append((hook.data.username, hook.data.password))
                hook.data.valid = validator(hook.data.username, hook.data.password)
            return True

        self.d.on_hook = on_hook
        if open_error is not None:
            self.d.on_open = open_error
        self.d.start()

    def feed(self, seg):
        if not len(seg):
            return
        try:
            self.d.data(self.ctx.client, seg)
        except (symx.Violation, symx.Unsupported, z3.Z3Exception):
            raise
        except Exception as e:  # noqa
            # the property allows no exception at all: every input is either refused or served.  (Judged here rather than by the
            # engine's crash rule because an IndexError raised by the SymBytes model on behalf of /repo code has its innermost
            # frame in vf/symbytes.py and would be reported as a harness error.)
            tb = traceback.extract_tb(e.__traceback__)
            where = next((f"{f.name}:{f.line}" for f in reversed(tb) if "/mitmproxy/" in f.filename), "?")
            if not any("/mitmproxy/" in f.filename for f in tb):
                raise
            self.X.fail(f"C21/layer-crash/{type(e).__name__}", f"Socks5Proxy raised {type(e).__name__}: {e} at {where} while handling a {len(seg)}-byte segment "
                        f"(buffer before: {self.buflen} bytes)")
        finally:
            self.buflen = len(getattr(self.layer, "buf", b"") or b"")

    def out(self):
        d = self.d
        replies = [data for conn, data in d.sent_log if conn is self.ctx.client]
        closed = any(c is self.ctx.client for c, half in d.closed)
        child = []
        for r in self.recs:
            for ch in r.chunks:
                child += list(ch)
        return Out(replies, closed, self.ctx.server.address, child, list(self.auths), list(d.opened), sum(r.started for r in self.recs))


def run(X, segs, auth, validator, **kw):
    r = Run(X, auth, validator, **kw)
    outs = []
    for s in segs:
        r.feed(s)
        outs.append(r.out())
    return outs


# ------------------------------------------------------------------------------------------
# comparisons on possibly symbolic values


def eq_seq(a, b):
    a, b = list(a), list(b)
    if len(a) != len(b):
        return False
    acc = True
    for x, y in zip(a, b):
        acc = acc & (x == y)
    return bool(acc)


def _text_items(t):
    return list(t.text_items) if isinstance(t, SymText) else list(t.encode("utf-8", "backslashreplace")) if isinstance(t, str) else list(t)


def _host_matches(X, host, atyp, addr):
    """does mitmproxy's destination host denote exactly the requested address bytes?"""
    if isinstance(host, symbytes.SymAddr):
        fam = ref.ATYP_V4 if host.af == _socket.AF_INET else ref.ATYP_V6
        return fam == atyp and eq_seq(host.addr_items, addr)
    if isinstance(host, SymText):
        return atyp == ref.ATYP_DOMAIN and eq_seq(host.text_items, addr)
    raw = bytes(int(x) for x in addr)
    if atyp == ref.ATYP_V4:
        return host == _socket.inet_ntop(_socket.AF_INET, raw)
    if atyp == ref.ATYP_V6:
        return host == _socket.inet_ntop(_socket.AF_INET6, raw)
    if any(c >= 0x80 for c in raw):
        X.note("non_ascii_domain", raw.hex())
        return True  # outside the claim (see OUTSIDE)
    return host == raw.decode("ascii")


def _same_address(a, b):
    if a is None or b is None:
        return a is None and b is None
    (ha, pa), (hb, pb) = a, b
    if not bool(pa == pb):
        return False
    if isinstance(ha, symbytes.SymAddr) and isinstance(hb, symbytes.SymAddr):
        return ha.af == hb.af and eq_seq(ha.addr_items, hb.addr_items)
    if isinstance(ha, SymText) and isinstance(hb, SymText):
        return eq_seq(ha.text_items, hb.text_items)
    if isinstance(ha, (SymText, symbytes.SymAddr)) or isinstance(hb, (SymText, symbytes.SymAddr)):
        return False
    return ha == hb


def _final_ok(rep, msgs):
    """do the reply messages after the negotiated ones satisfy the reference's constraint on the final reply?"""
    flat = [c for m in msgs for c in m]
    if rep is None:
        return not msgs
    if rep == "method":
        return flat[:2] == [ref.VER, ref.M_NONE]
    if rep == "auth":
        return len(flat) == 2 and flat[0] == 1 and flat[1] != 0
    if rep == "any":
        return not msgs or (len(msgs) == 1 and ref.wellformed_reply(msgs[0]) not in (None, 0))
    return len(msgs) == 1 and ref.wellformed_reply(msgs[0]) == rep


class _Mismatch(Exception):
    def __init__(self, key, msg):
        super().__init__(key)
        self.key, self.msg = key, msg


class _Chk:
    """X-like facade for _judge: a failed check raises _Mismatch so that the lenient cases can try the other reading"""

    def __init__(self, X):
        self.X = X
        self.reach, self.note = X.reach, X.note

    def check(self, cond, key, msg=""):
        if not cond:
            raise _Mismatch(key, msg)


def _eval(X, out, r, tag):
    """-> None if `out` satisfies reference outcome `r` (either reading where the RFC is silent), else the _Mismatch"""
    try:
        _judge(_Chk(X), out, r, tag)
        return None
    except _Mismatch as m:
        if not r.lenient:
            return m
    X.reach("lenient-case")
    return _eval(X, out, r.alt, tag)


def judge(X, out, r, tag):
    """compare mitmproxy's outcome with the reference outcome for the same complete input"""
    m = _eval(X, out, r, tag)
    if m is not None:
        X.fail(m.key, m.msg)


def _judge(X, out, r, tag):
    n = len(r.replies)
    got = [list(m) for m in out.replies]
    head_ok = got[:n] == r.replies
    stage = r.stage
    if r.status == "pending":
        X.reach("pending")
        X.check(not out.closed, f"C21/{tag}/{stage}/closed-on-incomplete-message", f"reference: more bytes needed, mitmproxy closed: {out}")
        X.check(out.address is None and not out.child, f"C21/{tag}/{stage}/decided-on-incomplete-message", f"reference: more bytes needed, mitmproxy: {out}")
        X.check(got == r.replies, f"C21/{tag}/{stage}/replies-on-incomplete-message", f"replies {got} expected {r.replies}")
        return
    if r.status == "reject":
        X.reach("reject")
        X.check(out.address is None and not out.opened and not out.child and not out.child_started,
                f"C21/{tag}/{stage}/connects-despite-{_slug(r.why)}", f"reference refuses ({r.why}); mitmproxy: {out}")
        if not out.closed:
            # refusal may be postponed until the shortest complete message of the stage could have arrived
            late = r.stage_len is None or r.stage_len >= r.decide_by
            X.check(not late, f"C21/{tag}/{stage}/not-refused-{_slug(r.why)}", f"reference refuses ({r.why}) with {r.stage_len} bytes of the message present; mitmproxy still waiting: {out}")
            X.check(got == r.replies, f"C21/{tag}/{stage}/replies-before-refusal", f"replies {got} expected {r.replies}")
            X.reach("refusal-postponed")
            return
        X.check(head_ok, f"C21/{tag}/{stage}/negotiation-replies", f"replies {got} do not start with {r.replies} ({r.why})")
        X.check(_final_ok(r.rep, got[n:]), f"C21/{tag}/{stage}/refusal-reply-{_slug(r.why)}", f"refusal ({r.why}) answered with {got[n:]}, reference wants {r.rep!r}")
        return
    X.reach("connect")
    X.check(not out.closed, f"C21/{tag}/request/closed-valid-request", f"valid CONNECT refused: {out}")
    X.check(out.address is not None, f"C21/{tag}/request/valid-request-not-accepted", f"complete valid request, mitmproxy has no destination: {out}")
    host, port = out.address
    X.check(_host_matches(X, host, r.atyp, r.addr), f"C21/{tag}/request/destination-host", f"destination host {host!r} is not the requested address (atyp {r.atyp})")
    X.check(bool(port == r.port), f"C21/{tag}/request/destination-port", "destination port differs from DST.PORT")
    X.check(head_ok and _final_ok(0, got[n:]), f"C21/{tag}/request/success-reply", f"replies {got}; expected {r.replies} + a well-formed succeeded reply")
    X.check(eq_seq(out.child, r.rest), f"C21/{tag}/relay/bytes-after-request", f"child layer got {len(out.child)} bytes, reference {len(r.rest)}: not the bytes after the request, once, in order")
    X.check(out.child_started == (1 if (out.child or out.child_started) else 0), f"C21/{tag}/relay/child-started-twice", "next layer started more than once")
    if r.user is not None:
        X.check(len(out.auths) == 1, f"C21/{tag}/auth/validator-calls", f"validator consulted {len(out.auths)} times")
        u, p = out.auths[0]
        X.check(eq_seq(_text_items(u), r.user) and eq_seq(_text_items(p), r.password), f"C21/{tag}/auth/credentials-passed", "validator saw other bytes than UNAME/PASSWD")


def _slug(s):
    return "".join(c if c.isalnum() else "-" for c in s.lower()).strip("-")


def same(X, a, b, tag):
    X.check(a.replies == b.replies, f"C21/{tag}/replies-differ", f"{a} vs {b}")
    X.check(a.closed == b.closed, f"C21/{tag}/closed-differs", f"{a} vs {b}")
    X.check(_same_address(a.address, b.address), f"C21/{tag}/destination-differs", f"{a} vs {b}")
    X.check(eq_seq(a.child, b.child), f"C21/{tag}/relayed-bytes-differ", f"{a} vs {b}")
    X.check(len(a.auths) == len(b.auths) and all(eq_seq(_text_items(x), _text_items(y)) for p, q in zip(a.auths, b.auths) for x, y in zip(p, q)),
            f"C21/{tag}/credentials-differ", f"{a.auths} vs {b.auths}")


def monotone(X, early, late, appended, tag):
    """extension lemma: `late` = `early` + more bytes"""
    X.check(late.replies[: len(early.replies)] == early.replies, f"C21/{tag}/reply-retracted", f"{early} then {late}")
    if early.closed:
        X.reach("extended-after-refusal")
        X.check(late.closed and late.replies == early.replies and late.address is None and not late.child and not late.opened,
                f"C21/{tag}/refusal-changed-by-later-bytes", f"{early} then {late}")
    if early.address is not None:
        X.reach("extended-after-connect")
        X.check(_same_address(early.address, late.address), f"C21/{tag}/destination-changed-by-later-bytes", f"{early} then {late}")
        X.check(late.replies == early.replies and not late.closed, f"C21/{tag}/reply-after-connect", f"{early} then {late}")
        X.check(eq_seq(late.child, list(early.child) + list(appended)), f"C21/{tag}/relay/later-bytes", "bytes sent after the request are not relayed exactly once in order")


# ------------------------------------------------------------------------------------------
# harnesses

GREET = {False: b"\x05\x01\x00", True: b"\x05\x02\x00\x02"}
AUTHMSG = b"\x01\x01u\x01p"


def _validator(X):
    memo = {}

    def validate(user, password):
        if "v" not in memo:
            memo["v"] = X.boolean("cred_valid")
            X.reach("validator-consulted")
        return memo["v"]

    return validate


VER_MENU = [5, 4, 0x47, 0x67, 0x16, 0x00]


def _limit_version(X, b, state, all_versions):
    """The wrong-version branch formats the byte with %x (a C-level consumer: one path per value).  The large
    obligations therefore take the first byte from a menu {5, 4, 'G', 'g', 0x16, 0}; obligation
    'greeting-version' covers all 256 values on 4-byte buffers."""
    if state != "greet" or all_versions:
        return
    c = False
    for v in VER_MENU:
        c = c | (b[0] == v)
    X.assume(c)


def _preamble(state, auth):
    if state == "greet":
        return b""
    if state == "auth":
        return GREET[True]
    return GREET[auth] + (AUTHMSG if auth else b"")


def h_diff(X, N, auth, state="greet", all_versions=False):
    """(i) whole buffer: preamble (concrete, to enter `state`) + N symbolic bytes, delivered at once"""
    with _Stubs():
        X.opaque_str(True)
        b = X.bytes("b", N)
        _limit_version(X, b, state, all_versions)
        pre = _preamble(state, auth)
        validate = _validator(X) if state != "connect" else (lambda u, p: True)
        whole = SymBytes(list(pre)) + b if X.symbolic else pre + b
        (out,) = run(X, [whole], auth, validate)
        r = ref.parse(whole, auth, validate)
        judge(X, out, r, f"diff-{state}")
        X.reach("judged")


def h_seg(X, N, auth, state="greet", cuts=1, all_versions=False):
    """(ii)+(iii): the same bytes delivered in cuts+1 segments at solver-chosen cut points"""
    with _Stubs():
        X.opaque_str(True)
        b = X.bytes("b", N)
        _limit_version(X, b, state, all_versions)
        pre = _preamble(state, auth)
        validate = _validator(X) if state != "connect" else (lambda u, p: True)
        ks = []
        lo = 1
        for i in range(cuts):
            k = lo + X.choose(f"cut{i}", N - lo - (cuts - 1 - i))
            ks.append(k)
            lo = k + 1
        bounds = [0] + ks + [N]
        parts = [b[bounds[i]:bounds[i + 1]] for i in range(len(bounds) - 1)]
        first = (SymBytes(list(pre)) + parts[0]) if X.symbolic else pre + parts[0]
        whole = (SymBytes(list(pre)) + b) if X.symbolic else pre + b
        (o_whole,) = run(X, [whole], auth, validate)
        outs = run(X, [first] + parts[1:], auth, validate)
        tag = f"seg-{state}"
        same(X, o_whole, outs[-1], tag)
        for i in range(len(outs) - 1):
            monotone(X, outs[i], outs[i + 1], parts[i + 1], tag)
        # the outcome after the first segment alone is the outcome for that (shorter) complete input
        judge(X, outs[0], ref.parse(first, auth, validate), f"seg-{state}-prefix")
        judge(X, outs[-1], ref.parse(whole, auth, validate), f"seg-{state}-whole")
        X.reach("judged")


DOM_BYTES = [0x00, 0x2E, 0x41, 0x61, 0x7F, 0x80, 0xFF]


def h_domain_text(X):
    """no stubs: selector-built domain names through the real decode / struct / inet_ntop"""
    n = X.choose("len", 4)
    name = bytes(X.choose("c", DOM_BYTES) for _ in range(n))
    port = X.choose("port", [0, 80, 65535])
    strategy = X.choose("strategy", ["lazy", "eager"])
    fail = X.boolean("open_fails") if strategy == "eager" else False
    msg = GREET[False] + b"\x05\x01\x00\x03" + bytes([n]) + name + port.to_bytes(2, "big") + b"tail"
    (out,) = run(X, [msg], False, None, strategy=strategy, open_error=(lambda cmd: "boom" if fail else None))
    r = ref.parse(msg, False)
    got = [list(m) for m in out.replies]
    if fail:
        X.reach("open-failed")
        X.check(out.closed and not out.child, "C21/connect-failed/not-closed", f"{out}")
        X.check(got[:1] == [[5, 0]] and _final_ok("any", got[1:]) and len(got) == 2, "C21/connect-failed/reply", f"server unreachable answered with {got}")
        return
    judge(X, out, r, "domain-text")
    if out.address is not None:
        host = out.address[0]
        if all(c < 0x80 for c in name):
            X.check(host == name.decode("ascii"), "C21/domain-text/ascii-name-changed", f"{name!r} -> {host!r}")
        else:
            X.reach("non-ascii")
            # weaker reading: a name with octets >= 0x80 must not turn into a *different resolvable* name
            X.check(all((ch == "�") == (c >= 0x80) for ch, c in zip(host, name)) and len(host) == len(name),
                    "C21/domain-text/non-ascii-aliases", f"{name!r} -> {host!r}")
        X.check(out.address[1] == port, "C21/domain-text/port", f"{out.address}")
        if strategy == "eager":
            X.check(len(out.opened) == 1, "C21/domain-text/eager-open", f"{out.opened}")
    X.reach("judged")


CRED_MENU = [b"u", b"\xc3\xbcser", b"p\xc3\xa4ss", b"\xe5\x90\x8d", b"\xff", b"\xc3", b""]


def h_auth_text(X):
    """no stubs: RFC 1929 credentials from a menu of ASCII, multi-byte UTF-8 and invalid UTF-8 byte strings through the
    real decode; the bytes after the authentication message (CONNECT request + payload) must be consumed exactly at the
    wire lengths, whatever the credentials decode to, and independently of where the stream is cut"""
    user = X.choose("user", CRED_MENU)
    pw = X.choose("password", CRED_MENU)
    valid = X.boolean("cred_valid")
    msg = GREET[True] + b"\x01" + bytes([len(user)]) + user + bytes([len(pw)]) + pw + b"\x05\x01\x00\x03\x07example\x00\x50" + b"payload"
    cut = X.choose("cut", [0, 4, 4 + 2 + len(user), 4 + 3 + len(user) + len(pw), 4 + 3 + len(user) + len(pw) + 4, len(msg) - 3])
    segs = [msg] if cut == 0 else [msg[:cut], msg[cut:]]
    outs = run(X, segs, True, lambda u, p: valid)
    out = outs[-1]
    # (the generic judge compares what the validator saw octet by octet; invalid UTF-8 is decoded lossily by design, so
    # this obligation judges the outcome directly)
    got = [list(m) for m in out.replies]
    X.check(got[:1] == [[5, 2]], "C21/auth-text/method-reply", f"replies {got}")
    if not valid:
        X.reach("refused")
        X.check(got[1:2] == [[1, 1]] and out.closed and out.address is None and not out.child, "C21/auth-text/not-refused", f"{user!r}/{pw!r} cut={cut}: {out}")
    if valid:
        X.reach("accepted")
        X.check(out.address is not None and out.address[0] == "example" and out.address[1] == 80, "C21/auth-text/destination", f"{user!r}/{pw!r}: destination {out.address}")
        X.check(bytes(out.child) == b"payload", "C21/auth-text/relayed-bytes", f"{user!r}/{pw!r} cut={cut}: next layer got {bytes(out.child)!r}")
    if any(c >= 0x80 for c in user + pw):
        X.reach("non-ascii-credentials")
    X.reach("judged")


def obligations(tier):
    q = tier == "quick"
    n_diff, n_auth, n_seg, n_conn, n_segconn = (12, 12, 10, 24, 12) if q else (14, 14, 12, 30, 24)
    n_segauth = 11 if q else 12
    obs = [
        Symx("differential-noauth", lambda X: h_diff(X, n_diff, False), bounds=f"all 256^{n_diff} client byte strings of length {n_diff} (greeting+request+trailing data), no proxyauth",
             encoded=ENCODED, must_reach=["judged", "connect", "reject", "pending", "lenient-case"], stubs=STUBS, parallel_depth=3),
        Symx("differential-auth", lambda X: h_diff(X, n_auth, True), bounds=f"all 256^{n_auth} byte strings of length {n_auth}, proxyauth set, validator = arbitrary predicate (solver-chosen outcome)",
             encoded=ENCODED, must_reach=["judged", "reject", "pending", "validator-consulted"], stubs=STUBS, parallel_depth=3),
        Symx("state-connect", lambda X: h_diff(X, n_conn, False, "connect"), bounds=f"after a concrete greeting: all 256^{n_conn} request byte strings (IPv4, IPv6, domain length 0..{n_conn - 7} symbolic, port symbolic, trailing data)",
             encoded=ENCODED, must_reach=["judged", "connect", "reject", "pending"], stubs=STUBS),
        Symx("state-auth", lambda X: h_diff(X, n_auth, True, "auth"), bounds=f"after a concrete greeting: all 256^{n_auth} byte strings (RFC 1929 message with symbolic ULEN/PLEN + request)",
             encoded=ENCODED, must_reach=["judged", "connect", "reject", "pending", "validator-consulted"], stubs=STUBS, parallel_depth=3),
        Symx("segmentation-2way", lambda X: h_seg(X, n_seg, False), bounds=f"all 256^{n_seg} byte strings x every cut point 1..{n_seg - 1}: whole vs split, prefix outcome vs reference, extension lemma",
             encoded=ENCODED, must_reach=["judged", "extended-after-refusal"] + (["extended-after-connect"] if n_seg >= 11 else []), stubs=STUBS, parallel_depth=3),
        Symx("segmentation-2way-auth", lambda X: h_seg(X, n_segauth, True, "auth"), bounds=f"proxyauth, after a concrete greeting: all 256^{n_segauth} byte strings x every cut point",
             encoded=ENCODED, must_reach=["judged", "extended-after-refusal", "extended-after-connect"], stubs=STUBS, parallel_depth=3),
        Symx("segmentation-connect", lambda X: h_seg(X, n_segconn, False, "connect"), bounds=f"after a concrete greeting: all 256^{n_segconn} request byte strings x every cut point",
             encoded=ENCODED, must_reach=["judged", "extended-after-refusal", "extended-after-connect"], stubs=STUBS, parallel_depth=0 if q else 3),
        Symx("domain-text", h_domain_text, bounds=f"domain names of length 0..3 over {len(DOM_BYTES)} byte classes (NUL, '.', letters, DEL, 0x80, 0xFF) x 3 ports x lazy/eager x connect ok/fails; no stubs",
             encoded=ENCODED, must_reach=["judged", "non-ascii", "open-failed"], parallel_depth=2),
    ]
    obs.append(Symx("auth-credential-text", h_auth_text, bounds=f"RFC 1929 user/password from {len(CRED_MENU)} byte strings (ASCII, 2-/3-byte UTF-8, invalid UTF-8, empty) x validator outcome x 6 cut points, followed by a CONNECT request and payload; no stubs",
                    encoded=ENCODED, must_reach=["judged", "accepted", "refused", "non-ascii-credentials"], parallel_depth=2))
    obs.append(Symx("greeting-version", lambda X: h_seg(X, 4, False, all_versions=True), bounds="all 256^4 byte strings of length 4 (every version byte, no menu) x every cut point",
                    encoded=ENCODED, must_reach=["judged", "extended-after-refusal"], stubs=STUBS, parallel_depth=2))
    if not q:
        obs.append(Symx("segmentation-3way", lambda X: h_seg(X, 10, False, "greet", cuts=2), bounds="all 256^10 byte strings x every pair of cut points",
                        encoded=ENCODED, must_reach=["judged", "extended-after-refusal"], stubs=STUBS, parallel_depth=3))
        obs.append(Symx("segmentation-3way-connect", lambda X: h_seg(X, 14, False, "connect", cuts=2), bounds="after a concrete greeting: all 256^14 request byte strings x every pair of cut points",
                        encoded=ENCODED, must_reach=["judged", "extended-after-connect"], stubs=STUBS, parallel_depth=3))
    return obs
