"""C48 — exported commands reproduce the request and are shell-safe.

The real `export.curl_command` / `httpie_command` / `raw_request` (with the stdlib `shlex.quote` they call)
run on requests whose method / header name / header value / URL path / body is a solver-chosen string
of 0..3 characters over a class-representative alphabet of shell-significant characters.  The exported
command line is evaluated by an independent POSIX-sh word model (vf/refs/shmodel.py: bare words, single
quotes, "$(printf '<fmt>')" with printf's % / backslash processing and $(...) newline stripping, bash
here-strings) that is validated against the real /bin/sh and /bin/bash + stub `curl` / `http` programs on
a fixed corpus when the check starts.  The argv the model yields is decoded with curl's documented meaning
of -X / -H / -d / --resolve / --compressed and compared with the request that was exported.  Every
counterexample is replayed by actually running the shell with the stub programs.  The raw export is
re-parsed with the independent HTTP/1 parser vf/refs/http1ref.py.
"""
import gzip
import os
import shutil

from vf.ob import Symx, Concrete
from vf.refs import shmodel, http1ref

LEVEL = "model_checking"
ASSUMPTIONS = [
    "oracle = vf/refs/shmodel.py (POSIX sh word model; bash dialect for printf \\xHH and <<<), validated against the real /bin/sh and /bin/bash on the corpus "
    "in shmodel.validate at check start; counterexamples are confirmed by running the real shell with stub curl/http programs that print their argv",
    "curl option meaning taken from curl(1): -X <method>, -H <line> (a line with empty value is not sent; a leading @ reads a file), -d <data> (a leading @ reads a file), "
    "--compressed requests an Accept-Encoding header, --resolve host:port:addr; the URL argument is compared literally",
    "the command line reaches the shell UTF-8 encoded (export.file writes UTF-8)",
    "httpie: only argv is compared literally (http METHOD URL 'name: value'...); httpie's own item syntax is not modelled (httpie is not installed here)",
    "methods are compared case-insensitively (mitmproxy's Request.method is upper-cased by design)",
    "the primary verdict uses bash semantics (the property's observation point is 'under bash'); the POSIX-only differences are a separate obligation",
]
OUTSIDE = ["strings longer than 3 characters per field / two hostile fields at once (each field is quoted independently by shlex.quote)",
           "NUL bytes (cannot be passed in argv at all)", "curl URL parsing (fragment stripping, space / control characters in URLs)", "CONNECT / authority-form requests",
           "raw export of requests that have no HTTP/1 serialisation (CR/LF in header values, non-token names, blanks in the target) and of HTTP/2 flows"]
ENCODED = ["mitmproxy.addons.export:curl_command", "mitmproxy.addons.export:httpie_command", "mitmproxy.addons.export:request_content_for_console",
           "mitmproxy.addons.export:pop_headers", "mitmproxy.addons.export:cleanup_request", "mitmproxy.addons.export:raw_request",
           "mitmproxy.net.http.http1.assemble:assemble_request", "shlex:quote"]

# class representatives: letters (incl. the ones printf gives a meaning after a backslash), digit, blank, every shell metacharacter of the property text,
# newline / tab / other C0 controls, non-ASCII (Latin-1, C1, BMP), brace
ALPHA = ["a", "n", "x", "Z", "1", " ", "'", '"', "\\", "$", "`", ";", "&", "|", "<", ">", "(", ")", "%", "@", "!", "*", "?", "~", "#", "\n", "\t", "\x01", "\x1b",
         "é", "\u0085", "€", "{", "-", "="]
ALPHA_SMALL = ["a", "n", "'", '"', "\\", "%", "\n", "\x01", "@", " ", "$"]
FIELDS = ["method", "header_name", "header_value", "path", "body"]
HOST, PORT = "example.com", 8080

_TCTX = []


def _ctx():
    if not _TCTX:
        from mitmproxy.addons import export
        from mitmproxy.test import taddons

        t = taddons.context()
        t.configure(export.Export())
        _TCTX.append(t)
    return _TCTX[0]


def _string(X, alpha, maxlen, tag="s"):
    n = X.choose(f"{tag}_len", maxlen + 1)
    return "".join(X.choose(f"{tag}_ch", alpha) for _ in range(n))


def _mkflow(method, headers, path, content, peer=("192.168.0.1", 22), authority=b"", http_version=b"HTTP/1.1"):
    from mitmproxy import http
    from mitmproxy.test import tflow, tutils

    req = tutils.treq(host=HOST, port=PORT, method=method, scheme=b"http", authority=authority, path=path, http_version=http_version,
                      headers=http.Headers(headers), content=content)
    f = tflow.tflow(req=req)
    f.server_conn.peername = peer
    return f


# ------------------------------------------------------------------------------------------
# shell evaluation: model while exploring, the real shell when a counterexample is replayed

_STUB = []


def _stubdir():
    if not _STUB:
        _STUB.append(shmodel.make_stub_dir())
        import atexit

        atexit.register(shutil.rmtree, _STUB[0], True)
    return _STUB[0]


def _real_shell(dialect):
    for sh in ("/bin/bash", "/bin/sh") if dialect == "bash" else ("/bin/sh", "/bin/dash"):
        if os.path.exists(sh) and shmodel.detect_dialect(sh) == dialect:
            return sh
    return None


def shell_eval(X, cmd, dialect):
    """-> ("ok", argv [Word], herestring) | ("unmodelled", cls, detail) ; in replay mode the verdict comes from the real shell"""
    try:
        cmds = shmodel.evaluate(cmd, dialect)
        model = ("ok", cmds)
    except shmodel.Unmodelled as u:
        model = ("unmodelled", u.cls, u.detail)
    if X.symbolic:
        return model
    sh = _real_shell(dialect)
    if sh is None:
        return model
    inv, rc, err = shmodel.run_real(cmd, sh, _stubdir())
    X.note("real_shell", {"shell": sh, "rc": rc, "stderr": err[:300], "invocations": [[a.decode("utf-8", "replace") for a in argv] for argv, _ in inv]})
    if model[0] == "unmodelled":
        if len(inv) == 1 and rc == 0:
            raise AssertionError(f"model refuses {cmd!r} ({model[1]}: {model[2]}) but the real shell ran exactly one stub: {inv}")
        return model
    cmds = model[1]
    exact = all(not w.inexact for c in cmds for w in c.argv)
    if exact:
        # only the stub programs report back; other command names the model sees ("command not found" in the real shell) are compared by count only
        margv = [[shmodel.to_bytes(w) for w in c.argv] for c in cmds if c.argv and c.argv[0] in ("curl", "http")]
        rargv = [a for a, _ in inv]
        if margv != rargv:
            raise AssertionError(f"shell model disagrees with {sh} on {cmd!r}: model {margv} real {rargv} ({err!r})")
        return model
    # inexact model words (printf % directives): take the real argv, keep the model's notes
    if len(inv) != len(cmds):
        return model
    out = []
    for c, (argv, stdin) in zip(cmds, inv):
        c2 = shmodel.Command()
        for i, a in enumerate(argv):
            w = shmodel._mk(a.decode("utf-8", "surrogateescape"), False, c.argv[i].notes if i < len(c.argv) else ())
            c2.argv.append(w)
        c2.herestring = c.herestring
        out.append(c2)
    return ("ok", out)


# ------------------------------------------------------------------------------------------
# the judge


def _single_command(X, ev, prog, fmt, cmd):
    if ev[0] == "unmodelled":
        cls = ev[1]
        key = {"operator": "second-command", "expansion": "unquoted-expansion", "glob": "unquoted-glob"}.get(cls, cls)
        X.fail(f"C48/{fmt}/shell/{key}", f"{fmt} export {cmd!r}: {ev[1]}: {ev[2]}", command=cmd)
    cmds = ev[1]
    X.check(len(cmds) == 1, f"C48/{fmt}/shell/second-command", f"{fmt} export {cmd!r} runs {len(cmds)} commands: {cmds}", command=cmd)
    c = cmds[0]
    X.check(len(c.argv) > 0 and c.argv[0] == prog, f"C48/{fmt}/shell/wrong-program", f"{fmt} export {cmd!r} runs {c.argv[:1]}", command=cmd)
    return c


def _body_key(word, want: bytes, got: bytes):
    notes = set(word.notes)
    if not word.inexact and any(b >= 0x80 for b in want):
        re_enc = want.decode("latin-1").encode("utf-8")
        # exactly the latin-1 -> UTF-8 re-encoding of the body, whatever escapes the command uses besides -- also when the
        # (separately recorded) loss of trailing newlines in $(...) applies to the same body: keyed under the re-encoding
        if got == re_enc or ("trailing-newline-stripped" in notes and got == re_enc.rstrip(b"\n")):
            return "non-utf8-charset-reencoded"
    if not word.inexact and "trailing-newline-stripped" in notes and want.rstrip(b"\n") == got:
        return "trailing-newline-stripped"
    if word.inexact or "percent-directive" in notes or "percent-percent" in notes:
        return "printf-percent"
    if notes & {"backslash-escape", "octal-escape", "bad-hex-escape", "unicode-escape"} or (b"\\" in want and "command-substitution" in notes):
        return "printf-backslash"
    if "command-substitution" in notes and b"\\x" in got:
        return "printf-hex-escape-not-interpreted"
    if any(b >= 0x80 for b in want):
        return "non-utf8-charset-reencoded"
    return "other"


def judge_curl(X, cmd, ev, exp):
    """exp: dict(method, url, headers [(k, v) str], content bytes, resolve str|None)"""
    c = _single_command(X, ev, "curl", "curl", cmd)
    args = list(c.argv[1:])
    hdrs, method, data, urls, resolve, compressed, data_raw = [], None, None, [], None, False, False
    i = 0
    while i < len(args):
        a = args[i]
        if a in ("-H", "-X", "-d", "--data-raw", "--resolve"):
            X.check(i + 1 < len(args), "C48/curl/option-without-value", f"{cmd!r}: {a} is the last argument", command=cmd)
            v = args[i + 1]
            if a == "-H":
                hdrs.append(v)
            elif a == "-X":
                method = v
            elif a in ("-d", "--data-raw"):
                data = v
                data_raw = a == "--data-raw"  # curl(1): like -d, but a leading @ has no special meaning
            else:
                resolve = v
            i += 2
        elif a == "--compressed":
            compressed = True
            i += 1
        elif a.startswith("-"):
            X.fail("C48/curl/unexpected-option", f"{cmd!r}: argument {a!r} is read by curl as an option", command=cmd)
        else:
            urls.append(a)
            i += 1
    X.reach("curl-decoded")
    # method
    eff_method = method if method is not None else ("POST" if data is not None else "GET")
    # Request.method is documented as upper-cased; the comparison ignores case (see ASSUMPTIONS)
    mkey = "C48/curl/get-with-body-sent-as-post" if (method is None and data is not None and exp["method"].upper() == "GET") else "C48/curl/method"
    X.check(eff_method.upper() == exp["method"].upper(), mkey, f"{cmd!r}: curl uses method {eff_method!r}, request has {exp['method']!r}", command=cmd)
    # URL
    X.check(urls == [exp["url"]], "C48/curl/url", f"{cmd!r}: URL arguments {urls!r}, request URL {exp['url']!r}", command=cmd)
    X.check(resolve == exp["resolve"], "C48/curl/resolve", f"{cmd!r}: --resolve {resolve!r}, expected {exp['resolve']!r}", command=cmd)
    # header set: content-length is computed by curl; --compressed stands for the accept-encoding header
    # curl(1): "-H 'name: value'" sends that line; "-H 'name;'" sends the header with an empty value; "-H 'name:'" (nothing but blanks after the colon) sends
    # nothing; a leading @ reads header lines from a file.  Both sides are compared as (name, value without surrounding blanks) — what an HTTP recipient sees.
    want = [(k, v.strip(" \t")) for k, v in exp["headers"] if k.lower() not in ("content-length", "accept-encoding")]
    got = []
    for h in hdrs:
        if h.lower().startswith("content-length:"):
            continue
        if h.startswith("@"):
            X.fail("C48/curl/header-name-at-reads-file", f"{cmd!r}: curl reads -H {str(h)!r} as a file name (curl(1): -H @filename)", command=cmd)
        name, sep, val = h.partition(":")
        if not sep and h.endswith(";"):
            got.append((h[:-1], ""))
            continue
        if sep and val.strip(" \t") == "":
            X.fail("C48/curl/empty-header-value-dropped", f"{cmd!r}: curl does not send a header given as {str(h)!r} (curl(1): a header without value needs 'name;')", command=cmd)
        got.append((name, val.strip(" \t")))
    X.check(got == want, "C48/curl/header-set", f"{cmd!r}: -H arguments decode to {got!r}, request headers {want!r}", command=cmd)
    X.check(compressed == any(k.lower() == "accept-encoding" for k, _ in exp["headers"]), "C48/curl/compressed", f"{cmd!r}: --compressed={compressed}", command=cmd)
    # body
    if exp["content"]:
        X.check(data is not None, "C48/body/missing", f"{cmd!r}: no -d although the request has a body", command=cmd)
        if data.startswith("@") and not data_raw:
            X.fail("C48/body/leading-at-reads-file", f"{cmd!r}: curl reads -d {str(data)!r} from the file {str(data)[1:]!r} instead of sending it (curl(1): -d @filename)",
                   command=cmd)
        gotb = shmodel.to_bytes(data)
        if data.inexact or gotb != exp["content"]:
            X.fail(f"C48/body/{_body_key(data, exp['content'], gotb)}",
                   f"{cmd!r}: curl sends body {'<printf directive output>' if data.inexact else gotb!r}, request body is {exp['content']!r} (model notes {list(data.notes)})", command=cmd)
        X.reach("body-exact")
    else:
        X.check(data is None, "C48/body/unexpected", f"{cmd!r}: -d {data!r} although the request has no body", command=cmd)


def judge_httpie(X, cmd, ev, exp):
    c = _single_command(X, ev, "http", "httpie", cmd)
    want = ["http", exp["method"].upper(), exp["url"]] + [f"{k}: {v}" for k, v in exp["headers"] if k.lower() != "content-length"]
    X.reach("httpie-decoded")
    got = [str(a) for a in c.argv]
    if len(got) > 1:
        got[1] = got[1].upper()
    X.check(got == want, "C48/httpie/argv", f"{cmd!r}: argv {[str(a) for a in c.argv]!r}, expected {want!r}", command=cmd)
    X.check((c.herestring is not None) == bool(exp["content"]), "C48/httpie/here-string", f"{cmd!r}: here-string {c.herestring!r}", command=cmd)


# ------------------------------------------------------------------------------------------
# harnesses


def _request_from_selectors(X, alpha, maxlen, fields=FIELDS):
    field = X.choose("field", fields)
    s = _string(X, alpha, maxlen)
    method, hname, hval, path, body = "POST", "x-h", "v", "p", "b"
    charset = "utf-8"
    if field == "method":
        method = s
    elif field == "header_name":
        hname = s
    elif field == "header_value":
        hval = s
    elif field == "path":
        path = s
    else:
        body = s
        charset = X.choose("charset", ["utf-8", None])
    headers = []
    if charset:
        headers.append(("content-type", f"text/plain; charset={charset}"))
    headers.append((hname, hval))
    content = body.encode("utf-8")
    f = _mkflow(method.encode("utf-8"), [(k.encode("utf-8"), v.encode("utf-8")) for k, v in headers], ("/" + path).encode("utf-8"), content)
    exp = dict(method=method, url=f"http://{HOST}:{PORT}/{path}", headers=headers, content=content, resolve=None)
    return field, f, exp


def h_command(X, alpha, maxlen, dialect="bash", fields=FIELDS, formats=("curl", "httpie")):
    from mitmproxy import exceptions
    from mitmproxy.addons import export

    t = _ctx()
    t.options.export_preserve_original_ip = False
    fmt = X.choose("format", list(formats))
    field, f, exp = _request_from_selectors(X, alpha, maxlen, fields)
    try:
        cmd = (export.curl_command if fmt == "curl" else export.httpie_command)(f)
    except exceptions.CommandError as e:
        # allowed only for bodies that are not valid text
        try:
            exp["content"].decode("utf-8")
            valid = True
        except ValueError:
            valid = False
        X.check(not valid, f"C48/{fmt}/refuses-text-body", f"{fmt} export refuses the text body {exp['content']!r}: {e}")
        return
    X.reach("exported")
    ev = shell_eval(X, cmd, dialect)
    if fmt == "curl":
        judge_curl(X, cmd, ev, exp)
    else:
        judge_httpie(X, cmd, ev, exp)
    if "$(printf" in cmd:
        X.reach("printf-shape")
    if "'\"'\"'" in cmd:
        X.reach("embedded-single-quote")


def h_posix(X, alpha, maxlen):
    """same exports evaluated with the POSIX-only dialect (dash): printf has no \\xHH, there is no <<<"""
    from mitmproxy.addons import export

    t = _ctx()
    t.options.export_preserve_original_ip = False
    fmt = X.choose("format", ["curl", "httpie"])
    field, f, exp = _request_from_selectors(X, alpha, maxlen, fields=["body"])
    if not exp["content"]:
        return
    cmd = (export.curl_command if fmt == "curl" else export.httpie_command)(f)
    X.reach("exported")
    try:
        cmds = shmodel.evaluate(cmd, "dash")
        ev = ("ok", cmds)
    except shmodel.Unmodelled as u:
        ev = ("unmodelled", u.cls, u.detail)
    if not X.symbolic:
        sh = _real_shell("dash")
        if sh:
            inv, rc, err = shmodel.run_real(cmd, sh, _stubdir())
            X.note("real_shell", {"shell": sh, "rc": rc, "stderr": err[:300], "invocations": [[a.decode("utf-8", "replace") for a in argv] for argv, _ in inv]})
            if ev[0] == "unmodelled":
                if rc == 0 and len(inv) == 1:
                    raise AssertionError(f"dash model refuses {cmd!r} but {sh} ran it: {inv}")
            elif all(not w.inexact for w in ev[1][0].argv):
                if [[shmodel.to_bytes(w) for w in c.argv] for c in ev[1]] != [a for a, _ in inv]:
                    raise AssertionError(f"dash model disagrees with {sh} on {cmd!r}: {ev[1]} vs {inv} ({err!r})")
    if ev[0] == "unmodelled":
        if "<<<" in ev[2]:
            X.fail("C48/posix-sh/here-string", f"httpie export {cmd!r} uses the bash-only <<< operator; a POSIX sh (dash) reports a syntax error", command=cmd)
        X.fail(f"C48/posix-sh/{ev[1]}", f"{cmd!r}: {ev[2]}", command=cmd)
    c = ev[1][0]
    if fmt == "curl":
        data = c.argv[c.argv.index("-d") + 1] if "-d" in c.argv else None
        if data is not None and not data.startswith("@") and "command-substitution" in data.notes:
            X.reach("printf-shape")
            gotb = shmodel.to_bytes(data)
            if gotb != exp["content"] and "\\x" in data and not data.inexact:
                X.fail("C48/posix-sh/printf-hex-escape", f"{cmd!r}: POSIX printf has no \\xHH escape: dash passes {gotb!r} to curl, request body is {exp['content']!r}", command=cmd)


def h_resolve(X):
    from mitmproxy.addons import export

    t = _ctx()
    opt = X.boolean("export_preserve_original_ip")
    peer = X.choose("peername", [None, ("192.168.0.1", 22), (HOST, 22), ("::1", 22)])
    hosthdr = X.choose("host_header", [None, "other.example:81", HOST, "site.example"])  # last: differs from request.host, no port (transparent / reverse mode)
    method = X.choose("method", ["GET", "POST"])
    body = X.choose("body", ["", "b"])
    enc = X.boolean("accept_encoding")
    # the same field name may occur more than once (also in different case): the exported command must carry every field
    dup = X.choose("repeated_header", [None, [("x-dup", "1"), ("x-dup", "2")], [("cookie", "a=1"), ("Cookie", "b=2")], [("x-dup", "1"), ("x-h2", "w"), ("x-dup", "1")]])
    headers = ([("host", hosthdr)] if hosthdr else []) + ([("accept-encoding", "br")] if enc else []) + [("x-h", "v")] + (dup or [])
    if dup:
        X.reach("repeated-header")
    # httpie has no --resolve equivalent: the format dimension is crossed with the header shapes only
    fmt = "curl" if (opt or peer is not None) else X.choose("format", ["curl", "httpie"])
    f = _mkflow(method.encode(), [(k.encode(), v.encode()) for k, v in headers], b"/p", body.encode(), peer=peer)
    t.options.export_preserve_original_ip = opt
    try:
        cmd = (export.curl_command if fmt == "curl" else export.httpie_command)(f)
    finally:
        t.options.export_preserve_original_ip = False
    # independent expectation of host / port shown in the URL
    if hosthdr and hosthdr != HOST:
        h, _, p = hosthdr.partition(":")
        ph, pp = h, (int(p) if p else PORT)
    else:
        ph, pp = HOST, PORT
    addr = peer[0] if peer else None
    url_ = f"http://{ph}:{pp}/p"
    if hosthdr and hosthdr != HOST and ":" not in hosthdr:
        # the URL shown is the one the client asked for: a Host header without port names the scheme's default port
        url_ = f"http://{ph}/p"
    exp = dict(method=method, url=url_, content=body.encode(),
               headers=[(k, v) for k, v in headers if not (k == "host" and v == HOST)],
               resolve=f"{ph}:{PORT}:[{addr}]" if (opt and addr and ph != addr) else None)
    X.reach("exported")
    if exp["resolve"]:
        X.reach("resolve")
    if fmt == "httpie":
        X.reach("httpie-decoded-options")
        judge_httpie(X, cmd, shell_eval(X, cmd, "bash"), exp)
        return
    judge_curl(X, cmd, shell_eval(X, cmd, "bash"), exp)


RAW_METHODS = ["GET", "POST", "M-SEARCH", "a!#$%&'*+-.^_`|~"]
RAW_NAMES = ["x-h", "X-H", "a!#$%&'*+-.^_`|~"]
RAW_VALUE_ALPHA = [c for c in ALPHA if c not in ("\n",)]
RAW_PATH_ALPHA = [c for c in ALPHA if c not in ("\n", " ", "\t")]


def h_raw(X, maxlen, alpha_filter=None):
    from mitmproxy.addons import export

    field = X.choose("field", ["method", "header_name", "header_value", "path", "body"])
    method, hname, hval, path, body = "POST", "x-h", "v", "p", "b"
    if field == "method":
        method = X.choose("method", RAW_METHODS)
    elif field == "header_name":
        hname = X.choose("name", RAW_NAMES)
    elif field == "header_value":
        hval = _string(X, [c for c in RAW_VALUE_ALPHA if alpha_filter is None or c in alpha_filter], maxlen)
        # a field value has no leading / trailing blanks on the wire (RFC 9110 5.5)
        X.assume(hval == hval.strip(" \t"))
    elif field == "path":
        path = _string(X, [c for c in RAW_PATH_ALPHA if alpha_filter is None or c in alpha_filter], maxlen)
    else:
        body = _string(X, [c for c in ALPHA if alpha_filter is None or c in alpha_filter], maxlen)
        # a body longer than 15 bytes makes the chunk-size / Content-Length digits base-sensitive
        body += X.choose("body_tail", ["", "0123456789abcdefghijklmnop"])
    coding = X.choose("content_encoding", [None, "gzip", "gzip-invalid"])
    chunked = X.boolean("chunked")
    absolute = X.boolean("absolute_form")
    plain = body.encode("utf-8")
    wire = plain
    headers = [(hname, hval)]
    if coding == "gzip":
        wire = gzip.compress(plain, mtime=0)
        headers.append(("content-encoding", "gzip"))
    elif coding == "gzip-invalid":
        # bytes zlib rejects outright (a merely truncated stream is silently decoded to b"" by encoding.decode_gzip — that is C31's subject)
        wire = b"\x00\xff" + plain
        headers.append(("content-encoding", "gzip"))
    if chunked:
        headers.append(("transfer-encoding", "chunked"))
    else:
        headers.append(("content-length", str(len(wire))))
    f = _mkflow(method.encode(), [(k.encode("utf-8"), v.encode("utf-8")) for k, v in headers], ("/" + path).encode("utf-8"), wire,
                authority=(f"{HOST}:{PORT}".encode() if absolute else b""))
    raw = export.raw_request(f)
    X.reach("exported")
    try:
        msg, pos = http1ref.parse_message(raw, 0, "request")
    except (http1ref.ParseError, http1ref.Incomplete) as e:
        X.fail("C48/raw/does-not-parse", f"raw export {raw!r} is not a well-formed HTTP/1 request: {type(e).__name__} {e}")
    X.check(pos == len(raw), "C48/raw/trailing-bytes", f"raw export {raw!r}: {len(raw) - pos} bytes after the message")
    X.check(msg.method == method.encode(), "C48/raw/method", f"raw export {raw!r}: method {msg.method!r} != {method!r}")
    target = (f"http://{HOST}:{PORT}" if absolute else "") + "/" + path
    X.check(msg.target == target.encode("utf-8"), "C48/raw/target", f"raw export {raw!r}: target {msg.target!r} != {target!r}")
    skip = (b"content-length", b"content-encoding", b"transfer-encoding")
    got = [(n, v) for n, v in msg.fields if n.lower() not in skip]
    want = [(k.encode("utf-8"), v.encode("utf-8")) for k, v in headers if k.encode() not in skip]
    X.check(got == want, "C48/raw/headers", f"raw export {raw!r}: headers {got!r} != {want!r}")
    # the export shows the decoded body when the coding can be removed, else the bytes as they are
    wantbody = wire if coding == "gzip-invalid" else plain
    X.check(msg.body == wantbody, "C48/raw/body", f"raw export {raw!r}: body {msg.body!r} != {wantbody!r} (coding {coding}, chunked {chunked})")
    ce = [v for n, v in msg.fields if n.lower() == b"content-encoding"]
    if coding == "gzip":
        X.check(not ce, "C48/raw/stale-content-encoding", f"raw export {raw!r}: body was decoded but Content-Encoding {ce!r} is still announced")
        X.reach("decoded-body")
    if chunked:
        X.reach("chunked")


def _validate_model():
    return shmodel.validate()


def obligations(tier):
    q = tier == "quick"
    n_full, n_small = (2, 3) if q else (3, 4)
    alpha_full = ALPHA if q else ALPHA
    obs = [
        Concrete("shell-model-validation", _validate_model,
                 bounds=f"{len(shmodel.CORPUS_WORDS)} words x 2 programs + {len(shmodel.CORPUS_FORMATS) + len(shmodel.CORPUS_INEXACT)} printf formats + here-strings + operator cases, "
                        "model argv == argv seen by stub curl/http under the real /bin/sh and /bin/bash"),
        Symx("commands-one-field", lambda X: h_command(X, alpha_full, n_full),
             bounds=f"curl / httpie export; one of {FIELDS} = every string of <= {n_full} characters over the {len(ALPHA)}-symbol alphabet {''.join(ALPHA)!r}, "
                    "other fields benign; body with and without charset=utf-8; bash dialect",
             encoded=ENCODED[:5] + ENCODED[7:], must_reach=["exported", "curl-decoded", "httpie-decoded", "body-exact", "printf-shape", "embedded-single-quote"], parallel_depth=3),
        Symx("commands-small-alphabet", lambda X: h_command(X, ALPHA_SMALL, n_small),
             bounds=f"same, strings of <= {n_small} characters over {''.join(ALPHA_SMALL)!r}", encoded=ENCODED[:5] + ENCODED[7:],
             must_reach=["exported", "curl-decoded", "httpie-decoded", "body-exact", "printf-shape", "embedded-single-quote"], parallel_depth=3),
        Symx("curl-options", h_resolve,
             bounds="export_preserve_original_ip on/off x server peername {none, 192.168.0.1, equal to host, ::1} x Host header {none, other.example:81, same} x GET/POST x body/no body "
                    "x accept-encoding x repeated header names {none, x-dup twice, cookie/Cookie, x-dup around another field}; the httpie export is crossed with "
                    "the header shapes (no peername / --resolve there)", encoded=ENCODED[:5], must_reach=["exported", "resolve", "curl-decoded", "repeated-header", "httpie-decoded-options"]),
        Symx("raw-reparse", lambda X: h_raw(X, 1 if q else 2),
             bounds=f"raw_request of representable requests: method from {RAW_METHODS}, header name from {RAW_NAMES}, header value / path / body = strings of <= {1 if q else 2} characters over "
                    "the alphabet (no CR/LF in values, no blanks in the target) x Content-Encoding none / gzip / undecodable gzip x chunked x origin/absolute form; re-parsed by vf/refs/http1ref.py",
             encoded=ENCODED[4:7], must_reach=["exported", "decoded-body", "chunked"], parallel_depth=3),
    ]
    if not q:
        obs.append(Symx("raw-reparse-len3", lambda X: h_raw(X, 3, set(ALPHA_SMALL + ["é", "\x85", "#", "?"])),
                        bounds="raw_request re-parse with header value / path / body strings of <= 3 characters over the reduced alphabet, same other selectors",
                        encoded=ENCODED[4:7], must_reach=["exported", "decoded-body", "chunked"], parallel_depth=3))
    if shmodel.detect_dialect("/bin/sh") == "dash":
        obs.append(Symx("posix-sh-dialect", lambda X: h_posix(X, ALPHA, 2),
                        bounds="curl / httpie export of a request whose body is any string of <= 2 alphabet characters, evaluated with the POSIX-only dialect of the model (this "
                               "machine's /bin/sh is dash): no \\xHH in printf, no <<<", encoded=ENCODED[:3], must_reach=["exported", "printf-shape"], parallel_depth=2))
    return obs
