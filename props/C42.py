"""C42 — filter expressions mean what the documented grammar says.

The real `flowfilter.parse` (pyparsing grammar built by `_make`, `infix_notation` precedence levels, `WordEnd`,
the `_Action` classes, `FAnd/FOr/FNot`) is run on solver-enumerated expressions (engine symx, selectors enumerated
by z3, native execution per path; strings are concrete per path because pyparsing/`re` need concrete text):

* expression-trees: the tree shape is a solver-chosen pre-order sequence over {atom, !, &, |, juxtaposition}
  up to a depth bound; every operator node gets a solver-chosen rendering (minimal parentheses / redundant
  parentheses / extra blanks / parentheses with inner blanks); the leaf at pre-order position p is the p-th
  of a set of *independent* atoms (`~marked`, `~comment k1`, `~src :5002`, `~dst dst3`, ... each in a unary /
  unquoted / double-quoted / single-quoted syntactic form chosen by a rotation selector).  The flows are one
  flow per truth assignment of the leaves (all 2^n combinations, spread over HTTP-request-only, HTTP-with-
  response, TCP and DNS flows), so agreement of `bool(flt(flow))` with the directly evaluated tree on every
  flow is agreement of the whole truth table.  Oracle: `!` > `&` > `|`; juxtaposition is conjunction whose
  precedence the property does not state, so it is always rendered with explicit parentheses around it when it
  is an operand, and around `|` operands inside it (weaker reading).  pyparsing's `infix_notation` needs
  0.1-1 s for an expression with nested groups, which is what sizes the bounds: quick = all trees with <= 2
  operators x per-node renderings + all depth-2 trees (<= 3 operators) with minimal parentheses; thorough =
  depth 2 with every per-node rendering, and depth 3 (<= 4 operators) with packrat memoisation switched on.
* atoms: every documented operator (~q ~s ~m ~u ~c ~b ~bq ~bs ~h ~hq ~hs ~d ~t ~tq ~ts ~a ~e ~marked ~marker
  ~comment ~meta ~src ~dst ~replay* ~http ~tcp ~udp ~dns ~websocket ~all, naked regex) with arguments whose
  truth value on 4 fixed flows (HTTP req-only, HTTP+response, TCP, DNS) is known from the documentation, in
  every small context (alone, blanks, !, parentheses, &, |, juxtaposition) and quoting style.
* regex-case: one code point c (every cased code point of the stated range, the solver enumerates the range) as
  the regex of `~comment c` / `~b c` against a flow holding c.swapcase(); oracle: Python's own
  `re.search(c, text, re.IGNORECASE)` on str / bytes ("case-insensitive Python regexes").
"""
import re

import pyparsing as pp

from mitmproxy import flow as mflow
from mitmproxy import flowfilter
from mitmproxy.test import tflow, tutils

from vf.ob import Symx

LEVEL = "model_checking"
ASSUMPTIONS = [
    "verdict oracle: ! binds tighter than &, & tighter than |; juxtaposition = conjunction, always parenthesised where its precedence would matter",
    "unquoted regex arguments are only used when they contain none of the reserved characters ( ) ~ ' \" or blanks, and are followed by a blank or ')' "
    "(an unquoted argument legitimately swallows an adjacent & or |, see docs/concepts/filters)",
    "atom truth tables are written from the operator documentation in flowfilter.py / docs, for fixed flows built with mitmproxy.test.tflow",
    "obligations whose name ends in -packrat run with pyparsing's packrat memoisation enabled in the harness process (pyparsing documents it as "
    "semantics-preserving; it makes nested groups ~5-10x cheaper to parse); the obligations without that suffix run the grammar exactly as shipped",
]
OUTSIDE = [
    "trees deeper than the stated depth; operators ~replay/~meta etc. only with the listed arguments; filter help text",
    "regexes containing reserved characters inside quotes with escapes (QuotedString escape handling)",
    "MITMPROXY_CASE_SENSITIVE_FILTERS=1",
]
ENCODED = [
    "mitmproxy.flowfilter:_make", "mitmproxy.flowfilter:parse", "mitmproxy.flowfilter:FAnd.__call__", "mitmproxy.flowfilter:FOr.__call__",
    "mitmproxy.flowfilter:FNot.__call__", "mitmproxy.flowfilter:_Rex.__init__", "mitmproxy.flowfilter:_Action.make", "mitmproxy.flowfilter:FUrl.make",
    "mitmproxy.flowfilter:FUrl.__call__", "mitmproxy.flowfilter:FBod.__call__", "mitmproxy.flowfilter:FBodRequest.__call__", "mitmproxy.flowfilter:FBodResponse.__call__",
    "mitmproxy.flowfilter:FHead.__call__", "mitmproxy.flowfilter:FHeadRequest.__call__", "mitmproxy.flowfilter:FHeadResponse.__call__",
    "mitmproxy.flowfilter:FMethod.__call__", "mitmproxy.flowfilter:FDomain.__call__", "mitmproxy.flowfilter:FCode.__call__", "mitmproxy.flowfilter:FContentType.__call__",
    "mitmproxy.flowfilter:FContentTypeRequest.__call__", "mitmproxy.flowfilter:FContentTypeResponse.__call__", "mitmproxy.flowfilter:FAsset.__call__",
    "mitmproxy.flowfilter:FMarked.__call__", "mitmproxy.flowfilter:FMarker.__call__", "mitmproxy.flowfilter:FComment.__call__", "mitmproxy.flowfilter:FMeta.__call__",
    "mitmproxy.flowfilter:FSrc.__call__", "mitmproxy.flowfilter:FDst.__call__", "mitmproxy.flowfilter:FReq.__call__", "mitmproxy.flowfilter:FResp.__call__",
    "mitmproxy.flowfilter:FErr.__call__", "mitmproxy.flowfilter:FReplay.__call__", "mitmproxy.flowfilter:FReplayClient.__call__", "mitmproxy.flowfilter:FReplayServer.__call__",
]

RESERVED = set("()~'\" \t\r\n")


def quote(arg, style):
    if style == "bare":
        assert not (set(arg) & RESERVED)
        return arg
    q = '"' if style == "dq" else "'"
    assert q not in arg and "\\" not in arg
    return q + arg + q


# ============================================================================================
# 1. expression trees over independent atoms
# ============================================================================================
# variable i is true on a flow iff bit i of the flow's index is set.  Forms: (operator, argument or None)
VAR_FORMS = [
    [("~marked", None), ("~marker", "star"), ("~comment", "k0")],
    [("~e", None), ("~comment", "K1"), ("~meta", "m1:.on")],
    [("~replay", None), ("~src", ":5002"), ("~comment", "k2")],
    [("~dst", "dst3"), ("~meta", "m3:.on"), ("~comment", "k3")],
]
for _i in range(4, 8):
    VAR_FORMS.append([("~comment", f"k{_i}"), ("~meta", f"m{_i}:.on")])


def make_flow(kind):
    if kind == 0:
        return tflow.tflow()
    if kind == 1:
        return tflow.tflow(resp=True)
    if kind == 2:
        return tflow.ttcpflow()
    return tflow.tdnsflow(resp=True)


def table_flows(nvars):
    """one flow per truth assignment; flow types rotate so every type occurs"""
    out = []
    for j in range(1 << nvars):
        f = make_flow((j ^ (j >> 2) ^ (j >> 4)) & 3)
        bit = lambda i: bool((j >> i) & 1)  # noqa: E731
        f.marked = ":star:" if bit(0) else ""
        f.error = mflow.Error("failed") if bit(1) else None
        f.is_replay = "request" if bit(2) else None
        f.client_conn.peername = ("10.0.0.2", 5002) if bit(2) else ("10.0.0.9", 5009)
        f.server_conn.address = ("dst3.example", 443) if bit(3) else ("other.example", 80)
        f.comment = " ".join(f"k{i}" for i in range(nvars) if bit(i)) or "none"
        f.metadata = {f"m{i}": ("on" if bit(i) else "off") for i in range(nvars)}
        out.append(f)
    return out


_TABLES = {}


def flows_for(nvars):
    if nvars not in _TABLES:
        _TABLES[nvars] = table_flows(nvars)
    return _TABLES[nvars]


PREC = {"juxt": 0, "|": 1, "&": 2, "!": 3, "atom": 4}
RENDERINGS = ["minimal", "redundant-parens", "extra-blanks", "spaced-parens"]


def build(X, depth, maxdepth, leaves, max_ops, nops, n_render):
    """pre-order construction: the solver chooses each node kind"""
    kinds = ["atom"]
    if depth < maxdepth and nops[0] < max_ops:
        kinds += ["!", "&", "|", "juxt"]
    k = X.choose("node", kinds) if len(kinds) > 1 else "atom"
    if k == "atom":
        leaves.append(len(leaves))
        return ("atom", leaves[-1])
    nops[0] += 1
    r = X.choose("render", RENDERINGS[:n_render]) if n_render > 1 else RENDERINGS[0]
    if k == "!":
        return ("!", r, build(X, depth + 1, maxdepth, leaves, max_ops, nops, n_render))
    a = build(X, depth + 1, maxdepth, leaves, max_ops, nops, n_render)
    b = build(X, depth + 1, maxdepth, leaves, max_ops, nops, n_render)
    return (k, r, a, b)


def evaluate(t, assignment):
    if t[0] == "atom":
        return assignment[t[1]]
    if t[0] == "!":
        return not evaluate(t[2], assignment)
    a, b = evaluate(t[2], assignment), evaluate(t[3], assignment)
    return (a or b) if t[0] == "|" else (a and b)


def needs_parens(parent, child, right):
    """minimal parentheses that make the intended tree unambiguous under: ! > & > | ; juxtaposition unstated"""
    if child[0] == "atom":
        return False
    if parent == "juxt":
        return child[0] == "|"
    if child[0] == "juxt":
        return True
    if parent == "!":
        return child[0] != "!"
    if PREC[child[0]] < PREC[parent]:
        return True
    return False  # same operator nested: associative, either grouping has the same verdicts


def render_atom(var, style_rot, pos):
    forms = VAR_FORMS[var]
    op, arg = forms[(pos + style_rot) % len(forms)]
    if arg is None:
        return op, "unary"
    q = ["bare", "dq", "sq"][(pos + style_rot // len(forms)) % 3]
    return f"{op} {quote(arg, q)}", q


def render(t, style_rot, info):
    if t[0] == "atom":
        s, kind = render_atom(t[1], style_rot, t[1])
        info["leaf_kinds"].append(kind)
        return s
    op, r = t[0], t[1]
    sp = "  " if r == "extra-blanks" else " "
    if op == "!":
        c = t[2]
        inner = render(c, style_rot, info)
        if needs_parens("!", c, False):
            inner = wrap(inner, c, info)
        s = "!" + ("  " if r == "extra-blanks" else "") + inner
    else:
        parts = []
        for idx, c in enumerate(t[2:]):
            x = render(c, style_rot, info)
            if needs_parens(op, c, idx == 1):
                x = wrap(x, c, info)
            parts.append(x)
        if op == "juxt":
            s = parts[0] + sp + parts[1]
        else:
            s = parts[0] + sp + op + sp + parts[1]
    if r == "redundant-parens":
        s = wrap(s, t, info)
    elif r == "spaced-parens":
        if op == "juxt":
            info["juxt_in_group"] = True
        s = "( " + s + " )"
    return s


def wrap(s, node, info):
    if node[0] == "juxt":
        info["juxt_in_group"] = True
    return "(" + s + ")"


_UNARY_BEFORE_RPAR = re.compile(r"~(?:marked|e|replay|q|s|a|all|http|tcp|udp|dns|websocket|replayq|replays)\)")


def classify_reject(expr, info):
    """key of a rejected expression = the documented construct that the parser refuses"""
    if _UNARY_BEFORE_RPAR.search(expr):
        return "C42/rejected/unary-operator-before-rparen"
    if info.get("juxt_in_group"):
        return "C42/rejected/juxtaposition-inside-parentheses"
    return "C42/rejected/other"


def h_trees(X, maxdepth, max_ops, n_render, n_rot, packrat=False):
    leaves = []
    rot = X.choose("leaf_forms", n_rot) if n_rot > 1 else 0
    tree = build(X, 0, maxdepth, leaves, max_ops, [0], n_render)
    nvars = len(leaves)
    info = {"leaf_kinds": []}
    expr = render(tree, rot, info)
    X.note("expr", expr)
    if packrat:
        pp.ParserElement.enable_packrat()
    try:
        try:
            flt = flowfilter.parse(expr)
        except ValueError as e:
            X.fail(classify_reject(expr, info), f"documented expression rejected: {expr!r} ({e.__cause__})")
    finally:
        if packrat:
            pp.ParserElement.disable_memoization()
    X.reach("parsed")
    if tree[0] != "atom":
        X.reach("operator")
    flows = flows_for(nvars)
    for j, f in enumerate(flows):
        assignment = [bool((j >> i) & 1) for i in range(nvars)]
        want = evaluate(tree, assignment)
        got = bool(flt(f))
        if got != want:
            X.fail(f"C42/verdict/{tree[0]}", f"{expr!r} parsed as [{flt}] gives {got} but the grammar says {want} for leaf values {assignment} ({type(f).__name__})")
    X.reach("end")


# ============================================================================================
# 2. every operator, known truth value on 4 fixed flows
# ============================================================================================
def fixed_flows():
    h1 = tflow.tflow(req=tutils.treq(method=b"GET", host="alpha.example", port=80, scheme=b"http", authority=b"", path=b"/one/path?x=1",
                                     headers=mflow_headers([(b"Host", b"alpha.example"), (b"X-Test", b"yes"), (b"Content-Type", b"text/plain")]),
                                     content=b"reqbody ONE"))
    h1.error = mflow.Error("boom")
    h2 = tflow.tflow(req=tutils.treq(method=b"POST", host="beta.example", port=8443, scheme=b"https", authority=b"", path=b"/two",
                                     headers=mflow_headers([(b"Host", b"beta.example:8443"), (b"Content-Type", b"application/x-www-form-urlencoded")]),
                                     content=b"a=1&b=two"),
                     resp=tutils.tresp(status_code=404, headers=mflow_headers([(b"Content-Type", b"text/css; charset=utf-8"), (b"Server", b"srv2")]),
                                       content=b"respbody TWO"))
    h2.marked = ":star:"
    h2.comment = "Second flow"
    h2.is_replay = "response"
    h2.metadata = {"k": "v2"}
    t = tflow.ttcpflow()
    t.messages[0].content = b"hello tcp"
    t.messages[1].content = b"world tcp"
    t.marked = ":x:"
    t.client_conn.peername = ("10.1.1.3", 33003)
    t.server_conn.address = ("tcp.example", 22)
    d = tflow.tdnsflow(resp=True)
    d.is_replay = "request"
    d.comment = "dns comment"
    return [h1, h2, t, d]


def mflow_headers(fields):
    from mitmproxy import http

    return http.Headers(fields)


T, F = True, False
# (operator, argument, [HTTP req-only, HTTP with response, TCP, DNS with response])
ATOMS = [
    ("~q", None, [T, F, F, F]), ("~s", None, [F, T, F, T]), ("~http", None, [T, T, F, F]), ("~tcp", None, [F, F, T, F]),
    ("~dns", None, [F, F, F, T]), ("~udp", None, [F, F, F, F]), ("~websocket", None, [F, F, F, F]), ("~all", None, [T, T, T, T]),
    ("~e", None, [T, F, F, F]), ("~marked", None, [F, T, T, F]), ("~a", None, [F, T, F, F]), ("~replay", None, [F, T, F, T]),
    ("~replayq", None, [F, F, F, T]), ("~replays", None, [F, T, F, F]),
    ("~m", "get", [T, F, F, F]), ("~m", "POST", [F, T, F, F]), ("~u", "alpha", [T, F, F, F]), ("~u", "EXAMPLE", [T, T, F, F]),
    ("~u", "google", [F, F, F, T]), ("~u", r"beta\.example:8443/two$", [F, T, F, F]), ("", "alpha", [T, F, F, F]), ("", r"/one/path\?x=1", [T, F, F, F]),
    ("~d", "beta", [F, T, F, F]), ("~d", "example", [T, T, F, F]), ("~c", "404", [F, T, F, F]), ("~c", "200", [F, F, F, F]), ("~c", "40", [F, F, F, F]),
    ("~b", "hello", [F, F, T, F]), ("~b", "respbody", [F, T, F, F]), ("~b", "REQBODY", [T, F, F, F]), ("~b", "dns.google", [F, F, F, T]),
    ("~b", "body one", [T, F, F, F]),
    ("~bq", "a=1&b", [F, T, F, F]), ("~bq", "hello", [F, F, T, F]), ("~bq", "world", [F, F, F, F]), ("~bq", "respbody", [F, F, F, F]),
    ("~bs", "world", [F, F, T, F]), ("~bs", "respbody", [F, T, F, F]), ("~bs", "hello", [F, F, F, F]), ("~bs", "8.8.8.8", [F, F, F, T]),
    ("~h", "x-test: yes", [T, F, F, F]), ("~h", "srv2", [F, T, F, F]), ("~h", "^server:", [F, T, F, F]), ("~hq", "srv2", [F, F, F, F]),
    ("~hs", "srv2", [F, T, F, F]), ("~hq", "x-test", [T, F, F, F]), ("~hs", "x-test", [F, F, F, F]),
    ("~t", "css", [F, T, F, F]), ("~t", "form", [F, T, F, F]), ("~t", "text/plain", [T, F, F, F]), ("~tq", "form", [F, T, F, F]),
    ("~tq", "css", [F, F, F, F]), ("~ts", "css", [F, T, F, F]), ("~ts", "form", [F, F, F, F]),
    ("~src", "33003", [F, F, T, F]), ("~dst", r"tcp\.example:22", [F, F, T, F]), ("~meta", "k: v2", [F, T, F, F]), ("~marker", "star", [F, T, F, F]),
    ("~marker", "x", [F, F, T, F]), ("~comment", "second", [F, T, F, F]), ("~comment", "comment", [F, F, F, T]),
]
CONTEXTS = ["{a}", "  {a}  ", "!{a}", "! {a}", "!!{a}", "({a})", "( {a} )", "!({a})", "{a} & ~all", "~all & {a}", "{a} | ~udp", "~udp | {a}",
            "{a} ~all", "~all {a}"]
NEGATING = {"!{a}", "! {a}", "!({a})"}

_FIXED = []


def h_atoms(X):
    if not _FIXED:
        _FIXED.extend(fixed_flows())
    op, arg, truth = X.choose("atom", ATOMS)
    if arg is None:
        a = op
        kind = "unary"
    else:
        styles = (["dq", "sq"] if "\\" not in arg else []) + (["bare"] if not (set(arg) & RESERVED) else [])
        if op == "~c":
            styles = ["bare"]
        kind = X.choose("quote", styles)
        a = (op + " " if op else "") + quote(arg, kind)
    c = X.choose("context", CONTEXTS)
    expr = c.format(a=a)
    # an unquoted argument must be followed by a blank or ')' (see ASSUMPTIONS); every context satisfies that
    neg = c in NEGATING
    try:
        flt = flowfilter.parse(expr)
    except ValueError as e:
        key = classify_reject(expr, {})
        if key.endswith("/other"):
            key = f"C42/rejected/atom/{op or 'naked'}"
        X.fail(key, f"documented expression rejected: {expr!r} ({e.__cause__})")
    X.reach("parsed")
    X.reach(kind)
    for f, tv, name in zip(_FIXED, truth, ["HTTP request only", "HTTP with response", "TCP", "DNS"]):
        want = (not tv) if neg else tv
        got = bool(flt(f))
        X.check(got == want, f"C42/atom-verdict/{op or 'naked'}", f"{expr!r} parsed as [{flt}] gives {got} on the {name} flow, documented meaning gives {want}")
    X.reach("end")


# ============================================================================================
# 3. regex arguments are case-insensitive Python regexes
# ============================================================================================
def h_case(X, hi_lo, hi_hi):
    hi = X.choose("hi", list(range(hi_lo, hi_hi + 1)))
    lo = X.choose("lo", 256)
    cp = hi * 256 + lo
    X.assume(not (0xD800 <= cp <= 0xDFFF))
    c = chr(cp)
    X.assume(c.lower() != c or c.upper() != c)  # cased
    X.assume(c not in RESERVED)
    other = c.swapcase()
    which = X.choose("operator", ["~comment", "~b", "~u"])
    style = X.choose("quote", ["bare", "dq"])
    f = tflow.tflow()
    if which == "~comment":
        f.comment = f"x{other}y"
        want = re.search(c, f.comment, re.IGNORECASE) is not None
    elif which == "~b":
        f.request.content = f"x{other}y".encode()
        want = re.search(c.encode(), f.request.content, re.IGNORECASE) is not None
    else:
        X.assume(cp < 128)  # URLs: ASCII letters (non-ASCII is percent-/IDNA-encoded, a different text)
        f.request.path = f"/x{other}y".encode()
        want = re.search(c, f.request.pretty_url, re.IGNORECASE) is not None
    expr = f"{which} {quote(c, style)}"
    try:
        flt = flowfilter.parse(expr)
    except ValueError as e:
        X.fail("C42/rejected/regex-codepoint", f"{expr!r} rejected ({e.__cause__}) U+{cp:04X}")
    got = bool(flt(f))
    if want:
        X.reach("case-insensitive-match")
    X.check(got == want, f"C42/case/{which}", f"{expr!r} (U+{cp:04X}) against text containing {other!r}: filter says {got}, re.IGNORECASE says {want}")
    X.reach("end")


def h_parts(X):
    """"applied to the documented part of the flow": the part an operator looks at may exist in two places of a request
    (destination host vs. Host header / :authority; request vs. response headers and bodies) -- both must be searched
    where the documentation says so (~d: domain, ~h/~b/~t: either message)"""
    import re

    from mitmproxy import flowfilter, http

    op = X.choose("operator", ["~d", "~h", "~b", "~t"])
    if op == "~d":
        host = X.choose("destination_host", ["10.0.0.5", "origin.example"])
        hdr = X.choose("host_header", [None, "front.example", "origin.example:8080", "FRONT.example"])
        h2 = X.boolean("http2_authority")
        pat = X.choose("regex", ["origin", "front", r"10\.0", "zzz", r"example$"])
        headers = [] if (hdr is None or h2) else [(b"Host", hdr.encode())]
        f = tflow.tflow(req=tutils.treq(host=host, port=80, scheme=b"http", authority=(hdr or "").encode() if h2 else b"", path=b"/",
                                        http_version=b"HTTP/2.0" if h2 else b"HTTP/1.1", headers=mflow_headers(headers)))
        names = [host] + ([hdr.rsplit(":", 1)[0]] if hdr else [])
        want = any(re.search(pat, n, re.IGNORECASE) for n in names)
        what = f"~d {pat} on destination host {host!r}, Host/authority {hdr!r}"
    else:
        where = X.choose("only_in", ["request", "response", "neither"])
        f = tflow.tflow(resp=True)
        f.request.headers["content-type"] = "text/plain"
        f.response.headers["content-type"] = "text/plain"
        if op == "~h":
            if where != "neither":
                (f.request if where == "request" else f.response).headers["X-Needle"] = "v"
            pat = "x-needle"
        elif op == "~b":
            f.request.content, f.response.content = b"plain", b"plain"
            if where != "neither":
                (f.request if where == "request" else f.response).content = b"has NEEDLE inside"
            pat = "needle"
        else:
            if where != "neither":
                (f.request if where == "request" else f.response).headers["content-type"] = "application/x-needle"
            pat = "needle"
        want = where != "neither"
        what = f"{op} {pat} with the match only in {where}"
    flt = flowfilter.parse(f"{op} {pat}")
    X.check(flt is not None, "C42/parts/rejected", what)
    got = bool(flt(f))
    X.reach("matched" if got else "not-matched")
    X.check(got == want, f"C42/parts/{op}", f"{what}: filter says {got}, documented semantics {want}")


def obligations(tier):
    quick = tier == "quick"
    obs = [
        Symx("documented-parts", h_parts,
             bounds="~d over destination host x Host header / :authority (absent, different, with port, other case) x 5 regexes; ~h / ~b / ~t with the match only in the request, only in the response, or nowhere",
             encoded=ENCODED, must_reach=["matched", "not-matched"]),
        Symx("atoms", h_atoms,
             bounds=f"{len(ATOMS)} operator/argument pairs (every documented operator) x quoting (bare/double/single where legal) x {len(CONTEXTS)} contexts {CONTEXTS}, verdict on 4 fixed flows",
             encoded=ENCODED, must_reach=["end", "parsed", "unary", "bare", "dq", "sq"], parallel_depth=1),
        Symx("regex-case", (lambda X: h_case(X, 0, 5)) if quick else (lambda X: h_case(X, 0, 0x1FF)),
             bounds=("every cased code point U+0000..U+05FF" if quick else "every cased code point U+0000..U+1FFFF") + " as regex of ~comment / ~b (and ~u for ASCII), bare and double-quoted, against text holding its swapcase()",
             encoded=ENCODED, must_reach=["end", "case-insensitive-match"], parallel_depth=2),
    ]
    leafdoc = "leaves in pre-order are ~marked, ~comment \"K1\", ~comment 'k2', ~dst dst3 (unary / double- / single-quoted / bare forms), rotated by the leaf-form selector"
    if quick:
        obs.append(Symx("expression-trees", lambda X: h_trees(X, 2, 2, 3, 2),
                        bounds="every expression tree of depth <= 2 with <= 2 operators over {atom, !, &, |, juxtaposition}; per operator node rendering in "
                               f"{RENDERINGS[:3]}; 2 leaf-form rotations; {leafdoc}; verdict on all 2^leaves truth assignments (flows of 4 types)",
                        encoded=ENCODED, must_reach=["end", "parsed", "operator"], parallel_depth=3))
        obs.append(Symx("expression-trees-3ops", lambda X: h_trees(X, 2, 3, 1, 2),
                        bounds="every expression tree of depth <= 2 (<= 3 operators, <= 4 leaves) over {atom, !, &, |, juxtaposition}, minimal parentheses; "
                               f"2 leaf-form rotations; {leafdoc}; verdict on all 2^leaves truth assignments",
                        encoded=ENCODED, must_reach=["end", "parsed", "operator"], parallel_depth=3))
    else:
        obs.append(Symx("expression-trees", lambda X: h_trees(X, 2, 3, 4, 2),
                        bounds=f"every expression tree of depth <= 2 (<= 3 operators) over {{atom, !, &, |, juxtaposition}}; per operator node rendering in {RENDERINGS}; 2 leaf-form rotations; "
                               f"{leafdoc}; verdict on all 2^leaves truth assignments",
                        encoded=ENCODED, must_reach=["end", "parsed", "operator"], parallel_depth=3))
        obs.append(Symx("expression-trees-depth3-packrat", lambda X: h_trees(X, 3, 4, 1, 1, packrat=True),
                        bounds="every expression tree of depth <= 3 with <= 4 operators over {atom, !, &, |, juxtaposition}, minimal parentheses, one leaf-form rotation; "
                               "verdict on all 2^leaves truth assignments; pyparsing packrat memoisation enabled",
                        encoded=ENCODED, must_reach=["end", "parsed", "operator"], stubs=["pyparsing.ParserElement.enable_packrat() (memoisation) during parse"], parallel_depth=3))
    return obs
