"""C35 — header collections behave as a case-insensitive ordered multimap.

The real `mitmproxy.http.Headers` (and the `_MultiDict` / `MutableMapping` code under it) is executed on
solver-enumerated pre-states and operations; every result and the resulting `fields` tuple are compared with
the independent reference model `vf/refs/multimapref.py` (written from the property sentence).

Obligations:
  inductive-step     (symx) every field tuple of <= N entries (names from {a,A,b,B,ab}, values from a menu) x one
                            operation with solver-chosen arguments  =>  result and fields agree with the reference
  histories          (symx) every sequence of 3 mutating operations from representative start states, with a full
                            observer sweep (lookup of every name, get_all, iteration, length, items) after each step
  serialisation      (symx) bytes(headers) split at CRLF and parsed by the real http1 `_read_headers` gives back the
                            same fields, for names/values from menus of valid tokens / field-content classes
  name-regex         (smt)  the validity regex `_valid_header_name` (lifted from validate.py) only admits names for
                            which the line format is unambiguous (RFC 9110 token: no colon, no CR/LF, no leading
                            SP/HTAB, non-empty) -- this is what lets the name menu stand for all valid names
  value-classes      (smt)  the RFC 9110 field-value language never begins/ends with a byte `bytes.strip()` removes
                            and never contains CR/LF/NUL -- lets the value menu stand for all valid values
"""
import re

import z3

from vf import smt
from vf.ob import Smt, Symx
from vf.refs.multimapref import Missing, RefMultimap, fold, text

LEVEL = "model_checking"
ASSUMPTIONS = [
    "oracle = vf/refs/multimapref.py (ordered multimap, ASCII case-insensitive names); where the property sentence leaves a choice "
    "open (position/spelling of fields written by set_all/__setitem__, equality of lists differing only in name case, items() "
    "without multi) the reference checks only the determined part (see its module docstring)",
    "serialisation: header block lines are obtained by splitting bytes(headers) at CRLF, as the HTTP/1 reader does",
]
OUTSIDE = ["field tuples longer than the bound", "names outside {a,A,b,B,ab} for the multimap obligations (the code never inspects names beyond "
           ".lower() and equality)", "obs-fold continuation lines in serialisation", "Headers(**kwargs) constructor sugar"]
ENCODED = [
    "mitmproxy.coretypes.multidict:_MultiDict.__getitem__", "mitmproxy.coretypes.multidict:_MultiDict.__setitem__",
    "mitmproxy.coretypes.multidict:_MultiDict.__delitem__", "mitmproxy.coretypes.multidict:_MultiDict.__iter__",
    "mitmproxy.coretypes.multidict:_MultiDict.__len__", "mitmproxy.coretypes.multidict:_MultiDict.__eq__",
    "mitmproxy.coretypes.multidict:_MultiDict.get_all", "mitmproxy.coretypes.multidict:_MultiDict.set_all",
    "mitmproxy.coretypes.multidict:_MultiDict.add", "mitmproxy.coretypes.multidict:_MultiDict.insert",
    "mitmproxy.coretypes.multidict:_MultiDict.keys", "mitmproxy.coretypes.multidict:_MultiDict.values",
    "mitmproxy.coretypes.multidict:_MultiDict.items", "mitmproxy.http:Headers.__init__", "mitmproxy.http:Headers._kconv",
    "mitmproxy.http:Headers._reduce_values", "mitmproxy.http:Headers.__bytes__", "mitmproxy.http:Headers.get_all",
    "mitmproxy.http:Headers.set_all", "mitmproxy.http:Headers.insert", "mitmproxy.http:Headers.items",
    "mitmproxy.http:Headers.__delitem__", "mitmproxy.http:Headers.__iter__", "mitmproxy.coretypes.serializable:Serializable.copy",
    "mitmproxy.net.http.http1.read:_read_headers",
]

NAMES = [b"a", b"A", b"b", b"B", b"ab"]
SVALS = [b"1", b"2"]          # values in the pre-state
OVALS = [b"9", b"1"]          # values written by operations (one fresh, one colliding with the state)


def _states(n):
    entries = [(nm, v) for nm in NAMES for v in SVALS]
    out = [()]
    layer = [()]
    for _ in range(n):
        layer = [s + (e,) for s in layer for e in entries]
        out += layer
    return out


def _ops():
    ops = []
    for k in NAMES:
        ops.append(("getitem", k, False))
        ops.append(("get_all", k, False))
        ops.append(("contains", k, False))
        ops.append(("delitem", k, False))
        ops.append(("pop", k, False))
        ops.append(("pop_default", k))
        for v in OVALS + [b""]:  # an empty field value is a value like any other
            ops.append(("setitem", k, v))
        ops.append(("setitem_current", k))  # h[k] = h[k]: assign the value the collection itself reports
        for vs in ([], [OVALS[0]], [OVALS[1]], [OVALS[0], OVALS[1]], [OVALS[1], OVALS[1]], [OVALS[1], OVALS[0], OVALS[0]], [b"", OVALS[0]], [OVALS[0], b""]):
            ops.append(("set_all", k, tuple(vs)))
    for k in (b"A", b"ab"):  # bytes keys are accepted as well
        for kind in ("getitem", "get_all", "contains", "delitem", "pop"):
            ops.append((kind, k, True))
    for k in (b"a", b"B"):
        for v in OVALS:
            ops.append(("add", k, v))
        for i in (0, 1, 2, -1, 7, -7):
            ops.append(("insert", i, k, OVALS[0]))
    ops += [("iter",), ("len",), ("copy",)]
    ops += [("eq", o) for o in ("same", "case", "reordered", "value", "shorter", "longer")]
    ops += [(kind, multi) for kind in ("keys", "values", "items") for multi in (True, False)]
    return ops


def _key(kb, as_bytes=False):
    return kb if as_bytes else kb.decode()


def _observe_all(X, h, r, where):
    """full observer sweep: every observable of the collection against the reference"""
    X.check(list(h.fields) == r.fields, f"C35/{where}/fields", f"fields {list(h.fields)} != reference {r.fields}")
    for k in NAMES:
        ks = k.decode()
        X.check(h.get_all(ks) == r.get_all(k), f"C35/{where}/get_all", f"get_all({ks!r}) = {h.get_all(ks)} != {r.get_all(k)} on {r.fields}")
        X.check((ks in h) == r.contains(k), f"C35/{where}/contains", f"({ks!r} in h) = {ks in h} on {r.fields}")
        try:
            got = h[ks]
        except KeyError:
            got = Missing
        try:
            exp = r.getitem(k)
        except Missing:
            exp = Missing
        X.check(got == exp, f"C35/{where}/getitem", f"h[{ks!r}] = {got!r} != {exp!r} on {r.fields}")
    X.check(list(h) == r.names(), f"C35/{where}/iter", f"iteration {list(h)} != {r.names()} on {r.fields}")
    X.check(len(h) == r.length(), f"C35/{where}/len", f"len {len(h)} != {r.length()} on {r.fields}")
    X.check(list(h.items(multi=True)) == r.items_multi(), f"C35/{where}/items-multi", f"{list(h.items(multi=True))} != {r.items_multi()}")
    X.check(list(h.items()) == r.items_single(), f"C35/{where}/items", f"{list(h.items())} != {r.items_single()}")


def run_op(X, h, r, op, where="op"):
    """apply `op` to the real Headers `h` and the reference `r`; compare result and resulting fields"""
    from mitmproxy import http

    kind = op[0]
    key = f"C35/{where}/{kind}"
    before = list(r.fields)

    def outcome(f, exc):
        try:
            return ("ok", f())
        except exc:
            return ("missing",)

    if kind in ("getitem", "get_all", "contains"):
        _, kb, asb = op
        k = _key(kb, asb)
        if kind == "getitem":
            got, exp = outcome(lambda: h[k], KeyError), outcome(lambda: r.getitem(kb), Missing)
        elif kind == "get_all":
            got, exp = ("ok", h.get_all(k)), ("ok", r.get_all(kb))
        else:
            got, exp = ("ok", k in h), ("ok", r.contains(kb))
        X.check(got == exp, key, f"{kind}({k!r}) on {before}: {got} != reference {exp}")
    elif kind in ("delitem", "pop"):
        _, kb, asb = op
        k = _key(kb, asb)
        if kind == "delitem":
            def real():
                del h[k]
            got, exp = outcome(real, KeyError), outcome(lambda: r.delitem(kb), Missing)
        else:
            got, exp = outcome(lambda: h.pop(k), KeyError), outcome(lambda: r.pop(kb), Missing)
        if got[0] == "ok":
            X.reach("removed")
        X.check(got == exp, key, f"{kind}({k!r}) on {before}: {got} != reference {exp}")
    elif kind == "pop_default":
        _, kb = op
        sentinel = object()
        got = h.pop(kb.decode(), sentinel)
        exp = outcome(lambda: r.pop(kb), Missing)
        X.check((got is sentinel and exp == ("missing",)) or exp == ("ok", got), key, f"pop({kb!r}, default) on {before}: {got!r} vs reference {exp}")
    elif kind == "setitem_current":
        _, kb = op
        cur = h.get(kb.decode())
        if cur is None:
            X.reach("setitem-current-absent")
        else:
            # assigning the (folded) value the collection reports must still leave exactly ONE field of that name
            h[kb.decode()] = cur
            values = [cur.encode("utf-8", "surrogateescape")]
            problems = r.check_replace(kb, values, h.fields)
            X.check(not problems, key, f"h[{kb!r}] = h[{kb!r}] ({cur!r}) on {before} -> {list(h.fields)}: {problems}")
            if sum(1 for n, _ in before if fold(n) == fold(kb)) > 1:
                X.reach("reassigned-folded-duplicates")
            r.adopt(h.fields)
    elif kind in ("setitem", "set_all"):
        _, kb, v = op
        if kind == "setitem":
            h[kb.decode()] = v.decode()
            values = [v]
        else:
            values = list(v)
            h.set_all(kb.decode(), [x.decode() for x in values])
        problems = r.check_replace(kb, values, h.fields)
        X.check(not problems, key, f"{kind}({kb!r}, {values}) on {before} -> {list(h.fields)}: {problems}")
        # written fields must carry a spelling of the requested name
        X.check(all(fold(n) == fold(kb) or (n, val) in before for n, val in h.fields), key + "/spelling", f"{kind}({kb!r}) produced foreign names: {list(h.fields)}")
        if any(fold(n) == fold(kb) for n, _ in before):
            X.reach("replaced-existing")
        r.adopt(h.fields)
    elif kind == "add":
        _, kb, v = op
        h.add(kb.decode(), v.decode())
        r.add(kb, v)
    elif kind == "insert":
        _, i, kb, v = op
        h.insert(i, kb.decode(), v.decode())
        r.insert(i, kb, v)
        X.reach("inserted")
    elif kind == "iter":
        X.check(list(iter(h)) == r.names(), key, f"iteration over {before}: {list(iter(h))} != {r.names()}")
    elif kind == "len":
        X.check(len(h) == r.length(), key, f"len of {before}: {len(h)} != {r.length()}")
    elif kind == "copy":
        c = h.copy()
        X.check(type(c) is type(h) and c is not h, key, f"copy() returned {type(c).__name__}")
        X.check(list(c.fields) == before, key, f"copy of {before} has fields {list(c.fields)}")
        X.check(c == h and h == c, key + "/equal", f"copy of {before} does not compare equal")
        c.add("a", "copy-edit")
        X.check(list(h.fields) == before, key + "/independent", f"editing the copy changed the original: {list(h.fields)}")
        h2 = h.copy()
        h.insert(0, "b", "orig-edit")
        X.check(list(h2.fields) == before, key + "/independent", f"editing the original changed the copy: {list(h2.fields)}")
        r.insert(0, b"b", b"orig-edit")
    elif kind == "eq":
        other = {"same": before, "case": [(n.swapcase(), v) for n, v in before], "reordered": before[::-1],
                 "value": [(n, v + b"x") for n, v in before[:1]] + before[1:], "shorter": before[:-1], "longer": before + [(b"a", b"1")]}[op[1]]
        exp = r.eq_expected(other)
        o = http.Headers(other)
        got = (h == o)
        if exp is not None:
            X.reach("eq-decided")
            X.check(got == exp, key, f"Headers({before}) == Headers({other}) is {got}, reference {exp}")
            X.check((h != o) == (not exp), key + "/ne", f"!= inconsistent with == for {before} vs {other}")
            X.check((o == h) == exp, key + "/symmetric", f"== not symmetric for {before} vs {other}")
    elif kind in ("keys", "values", "items"):
        multi = op[1]
        ref_items = r.items_multi() if multi else r.items_single()
        if kind == "keys":
            got, exp = list(h.keys(multi=multi)) if multi else list(h.keys()), [k for k, _ in ref_items]
        elif kind == "values":
            got, exp = list(h.values(multi=multi)) if multi else list(h.values()), [v for _, v in ref_items]
        else:
            got, exp = list(h.items(multi=multi)) if multi else list(h.items()), ref_items
        X.check(got == exp, key + ("-multi" if multi else ""), f"{kind}(multi={multi}) on {before}: {got} != reference {exp}")
    else:  # pragma: no cover
        raise AssertionError(op)
    X.check(list(h.fields) == r.fields, key + "/fields", f"after {op} on {before}: fields {list(h.fields)} != reference {r.fields}")
    X.check(all(isinstance(n, bytes) and isinstance(v, bytes) for n, v in h.fields) and isinstance(h.fields, tuple), key + "/repr-invariant",
            f"fields representation broken: {h.fields!r}")


_OPS = _ops()
_ENTRIES = [(nm, v) for nm in NAMES for v in SVALS] + [(b"a", b""), (b"A", b"")]  # a field line may have an empty value
_OP_GROUPS = [_OPS[i:i + 10] for i in range(0, len(_OPS), 10)]  # nested menus: the engine's cost per choose grows with the menu size


def h_step(X, n):
    from mitmproxy import http

    k = X.choose("nfields", n + 1)
    st = tuple(X.choose("field", _ENTRIES) for _ in range(k))
    op = X.choose("op", _OP_GROUPS[X.choose("opgroup", len(_OP_GROUPS))])
    h = http.Headers(list(st))
    r = RefMultimap(st)
    X.note("state", [list(map(bytes.decode, f)) for f in st])
    X.note("op", repr(op))
    run_op(X, h, r, op)
    X.reach("done")
    if len(st) == n:
        X.reach("full-size-state")


H_START = [(), ((b"a", b"1"),), ((b"a", b"1"), (b"A", b"2")), ((b"a", b"1"), (b"b", b"2"), (b"A", b"1")), ((b"B", b"2"), (b"ab", b"1"), (b"b", b"2")),
           ((b"ab", b"1"), (b"a", b"2"), (b"Ab", b"2"))]
H_OPS = [("setitem", b"A", b"9"), ("setitem", b"b", b"1"), ("setitem", b"ab", b"9"), ("delitem", b"a", False), ("delitem", b"B", True), ("pop_default", b"ab"),
         ("add", b"a", b"9"), ("add", b"B", b"1"), ("insert", 0, b"b", b"9"), ("insert", 1, b"A", b"9"), ("insert", -1, b"ab", b"9"),
         ("set_all", b"a", ()), ("set_all", b"A", (b"9", b"1")), ("set_all", b"B", (b"9",)), ("set_all", b"b", (b"1", b"9", b"9")), ("copy",)]


def h_history(X, steps, ops):
    from mitmproxy import http

    st = X.choose("start", H_START)
    h = http.Headers(list(st))
    r = RefMultimap(st)
    for i in range(steps):
        op = X.choose("op", ops)
        run_op(X, h, r, op, where="history")
        _observe_all(X, h, r, "history")
    X.reach("end")


# ------------------------------------------------------------------------------------------
# serialisation

S_NAMES_Q = [b"a", b"A", b"X-Y.z", b"!#$%&'*+-.^_`|~09"]
S_VALUES_Q = [b"", b"v", b"a b", b"a:b", b"a\tb", b"\x80\xff", b"a, b: c"]
S_NAMES_T = S_NAMES_Q + [b"Set-Cookie", b"0"]
S_VALUES_T = S_VALUES_Q + [b"\xc3\xa9", b"!", b"x" * 70, b"a  \t b", b"\"q\\\"uoted\""]


def h_serial(X, n, names, values):
    from mitmproxy import http
    from mitmproxy.net.http.http1 import read

    k = X.choose("nfields", n + 1)
    fields = [(X.choose("name", names), X.choose("value", values)) for _ in range(k)]
    h = http.Headers(fields)
    wire = bytes(h)
    lines = wire.split(b"\r\n")
    X.check(lines[-1] == b"", "C35/serial/no-final-crlf", f"bytes(headers) = {wire!r} does not end in CRLF") if fields else None
    lines = lines[:-1] if fields else []
    X.check(len(lines) == len(fields), "C35/serial/line-count", f"{fields} serialises to {len(lines)} lines: {wire!r}")
    try:
        back = read._read_headers(lines)
    except ValueError as e:
        X.fail("C35/serial/rejected", f"{wire!r} (from {fields}) is rejected by _read_headers: {e}")
    X.reach("parsed")
    X.check(list(back.fields) == fields and back == h, "C35/serial/roundtrip", f"{fields} -> {wire!r} -> {list(back.fields)}")


# ------------------------------------------------------------------------------------------
# SMT

VAL = "mitmproxy/net/http/validate.py"
TCHAR = "!#$%&'*+-.^_`|~"
STRIP = " \t\n\r\x0b\x0c"  # what bytes.strip() removes


def _build_name_queries():
    pat, flags = smt.source_regex(VAL, "_valid_header_name")
    rn = smt.regex_to_z3(pat)
    real = re.compile(pat)
    anyb = smt.any_string(is_bytes=True)
    token = z3.Plus(z3.Union(smt.chars(TCHAR), z3.Range("0", "9"), z3.Range("a", "z"), z3.Range("A", "Z")))

    def rp(w):
        v = w["s"].encode("latin-1", "replace")
        ok = bool(real.match(v))
        return ok, f"_valid_header_name accepts {v!r}, which is not an RFC 9110 token (a header line with this name does not parse back to it)"

    def rp2(w):
        v = w["s"].encode("latin-1", "replace")
        return (not real.match(v)), f"_valid_header_name rejects the token {v!r}"

    qs = [
        smt.lang_subset("valid name contains no colon", rn, z3.Complement(z3.Concat(anyb, z3.Re(z3.StringVal(":")), anyb)), key="C35/regex/name-with-colon", replay=rp),
        smt.lang_subset("valid name does not start with SP/HTAB", rn, z3.Complement(z3.Concat(smt.chars(" \t"), anyb)), key="C35/regex/name-leading-space", replay=rp),
        smt.lang_subset("valid name is not empty", rn, z3.Complement(z3.Re(z3.StringVal(""))), key="C35/regex/name-empty", replay=rp),
        smt.lang_subset("valid name contains no CR/LF", rn, smt.no_chars("\r\n", is_bytes=True), key="C35/regex/name-with-line-terminator", replay=rp),
        smt.lang_subset("token ⊆ valid name", token, rn, key="C35/regex/name-too-narrow", replay=rp2),
    ]
    return qs


def _build_value_queries():
    # RFC 9110 5.5: field-value = *field-content; field-content = field-vchar [ 1*( SP / HTAB / field-vchar ) field-vchar ]
    vchar = z3.Union(z3.Range("\x21", "\x7e"), smt._range(0x80, 0xFF))
    inner = z3.Union(vchar, smt.chars(" \t"))
    content = z3.Concat(vchar, z3.Option(z3.Concat(z3.Star(inner), vchar)))
    value = z3.Option(content)
    anyb = smt.any_string(is_bytes=True)
    ws = smt.chars(STRIP)

    def rp(w):
        v = w["s"].encode("latin-1", "replace")
        return v.strip() != v or any(c in v for c in b"\r\n\x00"), f"RFC field-value {v!r} is altered by the reader's strip() / contains a line terminator"

    qs = [
        smt.lang_subset("field-value never starts with a stripped byte", value, z3.Complement(z3.Concat(ws, anyb)), key="C35/regex/value-leading-ws", replay=rp),
        smt.lang_subset("field-value never ends with a stripped byte", value, z3.Complement(z3.Concat(anyb, ws)), key="C35/regex/value-trailing-ws", replay=rp),
        smt.lang_subset("field-value contains no CR/LF/NUL", value, smt.no_chars("\r\n\x00", is_bytes=True), key="C35/regex/value-line-terminator", replay=rp),
    ]
    # the value menu is inside the language (sanity of the menu itself)
    for v in S_VALUES_T:
        lit = z3.Re(z3.StringVal("")) if not v else (z3.Concat(*[smt._range(c, c) for c in v]) if len(v) > 1 else smt._range(v[0], v[0]))
        qs.append(smt.lang_subset(f"menu value {v!r} is a field-value", lit, value, key="C35/regex/menu-value-invalid", replay=lambda w: (True, "menu entry outside RFC field-value")))
    return qs


def obligations(tier):
    quick = tier == "quick"
    n = 2 if quick else 3
    ns, sn, sv = (2, S_NAMES_Q, S_VALUES_Q) if quick else (3, S_NAMES_T, S_VALUES_T)
    hist_ops = H_OPS[:2] + H_OPS[3:5] + H_OPS[6:7] + H_OPS[8:15] if quick else H_OPS + [("setitem", b"a", b"1"), ("delitem", b"ab", False), ("insert", 7, b"a", b"9"), ("set_all", b"ab", (b"1",))]
    nstates = sum(len(_ENTRIES) ** i for i in range(n + 1))
    return [
        Symx("inductive-step", lambda X: h_step(X, n), bounds=f"all {nstates} field tuples of <= {n} entries (names {{a,A,b,B,ab}} x values {{1,2}}, a and A also with the empty value) x {len(_OPS)} operation instances "
             "(getitem/get_all/contains/delitem/pop x 5 names (+bytes keys), setitem x 2 values, set_all x 6 value lists, add, insert at 0,1,2,-1,7,-7, iter, len, copy, "
             "eq x 6 variants, keys/values/items x multi)", encoded=ENCODED[:-1], must_reach=["done", "full-size-state", "removed", "replaced-existing", "inserted", "eq-decided", "reassigned-folded-duplicates"],
             parallel_depth=3),
        Symx("histories", lambda X: h_history(X, 3, hist_ops), bounds=f"{len(H_START)} start states x every sequence of 3 operations from a {len(hist_ops)}-entry mutator menu, full observer sweep after each",
             encoded=ENCODED[:-1], must_reach=["end", "removed", "replaced-existing", "inserted"], parallel_depth=2),
        Symx("serialisation", lambda X: h_serial(X, ns, sn, sv), bounds=f"field lists of <= {ns} entries, names {sn!r} x values {sv!r}", encoded=["mitmproxy.http:Headers.__bytes__", "mitmproxy.net.http.http1.read:_read_headers"],
             must_reach=["parsed"], parallel_depth=2),
        Smt("name-regex", _build_name_queries, bounds="all byte strings (unbounded length); _valid_header_name lifted from the current source", encoded=["mitmproxy.net.http.validate:validate_headers"]),
        Smt("value-classes", _build_value_queries, bounds="all byte strings; RFC 9110 field-value grammar vs. the reader's strip()", encoded=["mitmproxy.net.http.http1.read:_read_headers"]),
    ]
