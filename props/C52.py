"""C52 — server replay serves recorded responses only to matching requests, in order.

The real `ServerPlayback` addon (load_flows / add_flows / _hash / next_flow / request / configure /
recompute_hashes / count) runs natively inside a real `taddons.context` (real Options object, option
changes go through `Options.update` -> addon manager -> `ServerPlayback.configure`).  Recorded set,
requests, option toggles and their order are solver-enumerated selectors.

Oracle, written from the property sentence (not from `_hash`):
  * reference key = (method, scheme, path, ordered non-ignored query pairs, host unless ignored, port
    unless ignored, body — or the ordered non-ignored form fields when payload parameters are configured
    and the request carries a non-empty urlencoded form — unless content is ignored, configured headers);
    query strings / form bodies are read as ordered sequences (the reading that demands less serving);
  * reference multimap: recordings in recording order, `must` = unserved recordings with a response,
    `may` = response-less recordings (the sentence does not say when those disappear: either is accepted);
  * a served response must come from an unserved recording whose reference key equals the request's, and
    it must be the first such recording (recording order) — without reuse it is then consumed, with reuse not;
  * if such a recording exists it must be served; otherwise, while replay is active (an unserved recording
    with a response exists) the request is forwarded / killed / answered with the status per
    `server_replay_extra`;  when nothing is left to serve, replay counts as no longer active (weaker reading);
  * after every step the unserved recordings with responses held by the addon are exactly `must`, and
    count() lies in [len(must), len(must)+len(may)];  an option change neither loses nor duplicates a recording.
"""
from vf.ob import Symx

LEVEL = "model_checking"
ASSUMPTIONS = [
    "one taddons.context (Master + Options + ServerPlayback) is built once per process and reset at the start of every path "
    "(Options.reset(), flowmap cleared); building it per path costs 7 ms",
    "hashlib.sha256(repr(key)) is kept real; SHA-256 collisions are outside the claim",
    "recorded responses carry a unique body 'rec-<i>' used to identify which recording was served; server_replay_refresh keeps its default",
    "host = destination host; no request in the menu carries a Host header (pretty_host == host)",
    "query strings and urlencoded bodies are compared as ordered pair sequences",
]
OUTSIDE = [
    "requests arriving when every recording with a response has been served (the addon treats replay as finished and forwards them whatever "
    "server_replay_extra says) — treated as 'replay no longer active'",
    "multipart/form-data bodies other than the three repeated-field shapes, HTTPS scheme, Host-header/host disagreement, loading from files (io.read_flows_from_paths), "
    "the deprecated server_replay_kill_extra flag (server_replay_nopop is exercised in the thorough tier)",
    "histories / recorded sets larger than the bound",
]
ENCODED = [
    "mitmproxy.addons.serverplayback:ServerPlayback._hash",
    "mitmproxy.addons.serverplayback:ServerPlayback.next_flow",
    "mitmproxy.addons.serverplayback:ServerPlayback.load_flows",
    "mitmproxy.addons.serverplayback:ServerPlayback.add_flows",
    "mitmproxy.addons.serverplayback:ServerPlayback.recompute_hashes",
    "mitmproxy.addons.serverplayback:ServerPlayback.request",
    "mitmproxy.addons.serverplayback:ServerPlayback.configure",
    "mitmproxy.addons.serverplayback:ServerPlayback.count",
]

FORM = "application/x-www-form-urlencoded"
MULTIPART = "multipart/form-data; boundary=BOUNDARY"


def _mp(*fields):
    """multipart/form-data body for (name, value) pairs (RFC 7578)"""
    return b"".join(b'--BOUNDARY\r\nContent-Disposition: form-data; name="%s"\r\n\r\n%s\r\n' % (k.encode(), v.encode()) for k, v in fields) + b"--BOUNDARY--\r\n"


def S(name, method="GET", host="a.example", port=80, path="/p", query=(("x", "1"), ("y", "2")), body=b"", ctype=None, xkey=None):
    return dict(name=name, method=method, host=host, port=port, path=path, query=tuple(query), body=body, ctype=ctype, xkey=xkey)


# near-colliding request shapes
SHAPES = {s["name"]: s for s in [
    S("base"),
    S("ign-param", query=(("x", "1"), ("y", "2"), ("ign", "7"))),          # == base iff 'ign' is an ignored query parameter
    S("xkey", xkey="k1"),                                                    # == base unless X-Key is a matching header
    S("form5", method="POST", body=b"a=1&pign=5", ctype=FORM),               # == form6 iff 'pign' is an ignored payload parameter
    S("form6", method="POST", body=b"a=1&pign=6", ctype=FORM),
    S("raw5", method="POST", body=b"a=1&pign=5", ctype="text/plain"),        # same bytes as form5, not a form
    S("query-order", query=(("y", "2"), ("x", "1"))),
    S("host-b", host="b.example"),
    S("port-8080", port=8080),
    S("x-differs", query=(("x", "2"), ("y", "2"))),
    S("post-empty", method="POST"),
    S("repeat-12", query=(("x", "1"), ("y", "2"), ("y", "3"))),             # repeated parameter: later values belong to the key
    S("repeat-13", query=(("x", "1"), ("y", "2"), ("y", "4"))),
    # multipart forms with a repeated field: every value of a non-ignored field belongs to the key
    S("mp-rg5", method="POST", body=_mp(("tag", "red"), ("tag", "green"), ("pign", "5")), ctype=MULTIPART),
    S("mp-rb5", method="POST", body=_mp(("tag", "red"), ("tag", "blue"), ("pign", "5")), ctype=MULTIPART),
    S("mp-rg6", method="POST", body=_mp(("tag", "red"), ("tag", "green"), ("pign", "6")), ctype=MULTIPART),   # == mp-rg5 iff 'pign' is ignored
]}
MP_FIELDS = {"mp-rg5": (("tag", "red"), ("tag", "green"), ("pign", "5")), "mp-rb5": (("tag", "red"), ("tag", "blue"), ("pign", "5")),
             "mp-rg6": (("tag", "red"), ("tag", "green"), ("pign", "6"))}

TOGGLES = {
    "server_replay_ignore_params": ([], ["ign"]),
    "server_replay_use_headers": ([], ["X-Key"]),
    "server_replay_ignore_payload_params": ([], ["pign"]),
    "server_replay_ignore_content": (False, True),
    "server_replay_ignore_host": (False, True),
    "server_replay_ignore_port": (False, True),
}


def refkey(s, o):
    """matching key per the property sentence; `o` = the harness's own record of the option values"""
    key = [s["method"], "http", s["path"], tuple(p for p in s["query"] if p[0] not in o["server_replay_ignore_params"])]
    if not o["server_replay_ignore_host"]:
        key.append(("host", s["host"]))
    if not o["server_replay_ignore_port"]:
        key.append(("port", s["port"]))
    if not o["server_replay_ignore_content"]:
        form = None
        if s["ctype"] == FORM and s["body"]:
            form = tuple(tuple(kv.split("=", 1)) for kv in s["body"].decode().split("&"))
        elif s["ctype"] == MULTIPART:
            form = MP_FIELDS[s["name"]]
        if o["server_replay_ignore_payload_params"] and form:
            key.append(("form", tuple(p for p in form if p[0] not in o["server_replay_ignore_payload_params"])))
        else:
            key.append(("body", s["body"]))
    key.append(tuple((h, s["xkey"] if h == "X-Key" else None) for h in o["server_replay_use_headers"]))
    return tuple(key)


_CTX = None


def _context():
    """real Master/Options/addon wiring, built once per process and reset per path"""
    global _CTX
    from mitmproxy.addons import serverplayback
    from mitmproxy.test import taddons

    if _CTX is None:
        sp = serverplayback.ServerPlayback()
        tctx = taddons.context(sp)
        _CTX = (sp, tctx)
    sp, tctx = _CTX
    sp.flowmap = {}
    sp.configured = False
    tctx.options.reset()
    return sp, tctx


def _mkflow(s, rec=None):
    from mitmproxy import http
    from mitmproxy.test import tflow

    q = "&".join(f"{k}={v}" for k, v in s["query"])
    hdrs = {}
    if s["ctype"]:
        hdrs["Content-Type"] = s["ctype"]
    if s["xkey"]:
        hdrs["X-Key"] = s["xkey"]
    req = http.Request.make(s["method"], f"http://{s['host']}:{s['port']}{s['path']}?{q}", s["body"], hdrs)
    f = tflow.tflow(req=req)
    if rec is not None and rec[1]:
        f.response = http.Response.make(200, b"rec-%d" % rec[0])
    return f


def _held(sp):
    return [f for lst in sp.flowmap.values() for f in lst]


class Model:
    def __init__(self, sp, recs, opts):
        self.sp, self.opts = sp, opts
        self.recs = recs  # [(idx, shape, has_response, flow)] in recording order
        self.must = {r[0] for r in recs if r[2]}
        self.may = {r[0] for r in recs if not r[2]}
        self.served = set()
        self.reindexed = False  # an option change re-indexed the recordings after they were loaded
        self.flow_idx = {id(r[3]): r[0] for r in recs}

    def invariant(self, X, when):
        held = _held(self.sp)
        ids = [self.flow_idx.get(id(f), -1) for f in held]
        X.check(len(set(ids)) == len(ids) and -1 not in ids, "C52/state/duplicated-recording", f"{when}: addon holds recordings {ids}")
        with_resp = {i for i in ids if self.recs[i][2]}
        X.check(with_resp == self.must, "C52/state/lost-or-resurrected-recording",
                f"{when}: unserved recordings with a response should be {sorted(self.must)}, addon holds {sorted(with_resp)} (all held: {ids})")
        c = self.sp.count()
        X.check(len(self.must) <= c <= len(self.must) + len(self.may) and c == len(held), "C52/state/count",
                f"{when}: count()={c}, reference size in [{len(self.must)}, {len(self.must) + len(self.may)}], held={len(held)}")

    def request(self, X, shape, extra, reuse, tag):
        from mitmproxy import flow as mflow

        s = SHAPES[shape]
        f = _mkflow(s)
        k = refkey(s, self.opts)
        cands = [r for r in self.recs if r[0] in self.must and refkey(SHAPES[r[1]], self.opts) == k]
        exp = cands[0][0] if cands else None
        active = bool(self.must)
        maybe_active = active or bool(self.may)
        self.sp.request(f)
        served = None
        if f.response is not None and (f.response.content or b"").startswith(b"rec-"):
            served = int(f.response.content[4:])
        desc = f"{tag}: request {shape} (extra={extra}, reuse={reuse}, options={ {k: v for k, v in self.opts.items() if v} })"
        if served is not None:
            X.reach("served")
            rec = self.recs[served]
            X.check(served not in self.served, "C52/served-twice", f"{desc}: recording #{served} ({rec[1]}) served again without reuse")
            X.check(refkey(SHAPES[rec[1]], self.opts) == k, f"C52/served-key-mismatch/{rec[1]}->{shape}",
                    f"{desc}: got the response recorded for {rec[1]} (#{served}) whose matching key differs")
            X.check(served == exp, "C52/order/after-reindex" if self.reindexed else "C52/order/not-first-matching-recording",
                    f"{desc}: served recording #{served}, but #{exp} was recorded earlier with an equal key (recordings: {[(r[0], r[1], r[2]) for r in self.recs]}, unserved {sorted(self.must)})")
            X.check(f.is_replay == "response", "C52/served-not-marked-replay", f"{desc}: is_replay={f.is_replay!r}")
            if not reuse:
                self.must.discard(served)
                self.served.add(served)
            else:
                X.reach("served-with-reuse")
        else:
            X.check(exp is None, "C52/matching-recording-not-served", f"{desc}: recording #{exp} has an equal key and a response but was not served")
            X.reach("unmatched")
            killed = f.error is not None and f.error.msg == mflow.Error.KILLED_MESSAGE
            if f.response is None and not killed:
                got = "forward"
            elif killed and f.response is None:
                got = "kill"
            else:
                got = str(f.response.status_code)
            if active:
                X.reach("unmatched-while-active/" + extra)
                X.check(got == extra, f"C52/unmatched/{extra}-handled-as-{got}", f"{desc}: unmatched request handled as {got}")
            elif maybe_active:
                X.check(got in (extra, "forward"), f"C52/unmatched/{extra}-handled-as-{got}", f"{desc}: unmatched request handled as {got}")
            else:
                X.check(got == "forward", f"C52/inactive-replay-interferes/{got}", f"{desc}: nothing recorded is left, yet the request was handled as {got}")
        self.invariant(X, desc)


def _load(X, sp, rec_menu, n_max, n_min=1):
    n = n_min + X.choose("nrec", n_max - n_min + 1)
    recs = []
    for i in range(n):
        shape, has_resp = X.choose("rec", rec_menu)
        recs.append((i, shape, has_resp))
    flows = [_mkflow(SHAPES[sh], (i, hr)) for i, sh, hr in recs]
    sp.load_flows(flows)
    return [(i, sh, hr, fl) for (i, sh, hr), fl in zip(recs, flows)]


def h_matrix(X, with_extra):
    """one recording, one request, every combination of the six matching options"""
    sp, tctx = _context()
    bits = X.choose("options", 1 << len(TOGGLES))
    opts = {name: (on if bits >> i & 1 else off) for i, (name, (off, on)) in enumerate(TOGGLES.items())}
    extra = X.choose("extra", ["forward", "kill", "404"]) if with_extra else "forward"
    rshape = X.choose("rec", list(SHAPES))
    f = _mkflow(SHAPES[rshape], (0, True))
    if X.boolean("load-before-options"):
        sp.load_flows([f])  # indexed under the default options, re-indexed by the option change
        tctx.options.update(server_replay_extra=extra, **opts)
    else:
        tctx.options.update(server_replay_extra=extra, **opts)
        sp.load_flows([f])
    m = Model(sp, [(0, rshape, True, f)], opts)
    m.invariant(X, "after load")
    m.request(X, X.choose("req", list(SHAPES)), extra, False, "matrix")
    X.reach("end")


def h_history(X, rec_menu, nrec, ops, nops):
    sp, tctx = _context()
    opts = {name: off for name, (off, on) in TOGGLES.items()}
    recs = _load(X, sp, rec_menu, nrec)
    m = Model(sp, recs, opts)
    m.invariant(X, "after load")
    extra, reuse = "forward", False
    hist = []
    for step in range(nops):
        op = X.choose("op", ops)  # every prefix is checked on the way, so shorter histories are covered
        hist.append(op)
        kind, arg = op.split(":", 1)
        if kind == "req":
            m.request(X, arg, extra, reuse, f"history {hist}")
        elif kind == "toggle":
            off, on = TOGGLES[arg]
            before = sorted(m.flow_idx.get(id(f), -1) for f in _held(sp))
            opts[arg] = on if opts[arg] == off else off
            tctx.options.update(**{arg: opts[arg]})
            after = sorted(m.flow_idx.get(id(f), -1) for f in _held(sp))
            X.reach("option-change")
            m.reindexed = True
            X.check(before == after, "C52/reindex/lost-or-duplicated", f"history {hist}: recordings held before the option change {before}, after {after}")
            m.invariant(X, f"history {hist}")
        elif kind == "reuse":
            reuse = not reuse
            tctx.options.update(**{arg: reuse})
            m.invariant(X, f"history {hist}")
        elif kind == "extra":
            extra = arg
            tctx.options.update(server_replay_extra=arg)
            m.invariant(X, f"history {hist}")
    X.reach("end")


REC_QUICK = [("base", True), ("ign-param", True), ("xkey", True), ("base", False)]
OPS_QUICK = ["req:base", "req:ign-param", "req:xkey", "toggle:server_replay_ignore_params", "toggle:server_replay_use_headers",
             "reuse:server_replay_reuse", "extra:kill"]
OPS_QUICK_T = OPS_QUICK + ["extra:404"]  # thorough: appended, so quick counterexamples replay under either tier
OPS_REUSE = ["req:base", "req:ign-param", "toggle:server_replay_ignore_params", "reuse:server_replay_reuse"]
REC_FORM = [("form5", True), ("form6", True), ("raw5", True), ("form5", False)]
OPS_FORM = ["req:form5", "req:form6", "req:raw5", "toggle:server_replay_ignore_payload_params", "toggle:server_replay_ignore_content",
            "reuse:server_replay_reuse", "extra:kill"]
REC_MP = [("mp-rg5", True), ("mp-rb5", True), ("mp-rg6", True)]
OPS_MP = ["req:mp-rg5", "req:mp-rb5", "req:mp-rg6", "toggle:server_replay_ignore_payload_params", "extra:kill"]
REC_ADDR = [("base", True), ("host-b", True), ("port-8080", True), ("query-order", True)]
OPS_ADDR = ["req:base", "req:host-b", "req:port-8080", "req:query-order", "toggle:server_replay_ignore_host", "toggle:server_replay_ignore_port",
            "reuse:server_replay_nopop", "extra:204"]


def obligations(tier):
    quick = tier == "quick"
    n = 3 if quick else 4
    ops_q = OPS_QUICK if quick else OPS_QUICK_T
    reach = ["end", "served", "unmatched", "option-change", "served-with-reuse", "unmatched-while-active/kill"]
    obs = [
        Symx("key-matrix", lambda X: h_matrix(X, False),
             bounds=f"1 recording x 1 request over {len(SHAPES)} near-colliding shapes x all 2^6 combinations of the matching options x "
                    f"{{options set before load, recording re-indexed after load}}",
             encoded=ENCODED, must_reach=["end", "served", "unmatched"], parallel_depth=2),
        Symx("history-query-headers", lambda X: h_history(X, REC_QUICK, 3, ops_q, n),
             bounds=f"recorded set of 1..3 flows from {REC_QUICK} x every history of <= {n} steps over {ops_q}",
             encoded=ENCODED, must_reach=reach + ([] if quick else ["unmatched-while-active/404"]), parallel_depth=3),
        Symx("history-reuse-reindex", lambda X: h_history(X, REC_QUICK[:3], 2, OPS_REUSE, 4 if quick else 5),
             bounds=f"recorded set of 1..2 flows x every history of <= {4 if quick else 5} steps over {OPS_REUSE} (serve with reuse, change a matching option, serve again)",
             encoded=ENCODED, must_reach=["end", "served", "option-change", "served-with-reuse"], parallel_depth=3),
        Symx("history-multipart", lambda X: h_history(X, REC_MP, 2, OPS_MP, 3),
             bounds=f"recorded set of 1..2 flows from {REC_MP} (multipart forms with a repeated field) x every history of <= 3 steps over {OPS_MP}",
             encoded=ENCODED, must_reach=["end", "served", "unmatched", "option-change"], parallel_depth=3),
    ]
    if not quick:
        obs += [
            Symx("key-matrix-unmatched", lambda X: h_matrix(X, True),
                 bounds=f"as key-matrix x server_replay_extra in {{forward, kill, 404}}",
                 encoded=ENCODED, must_reach=["end", "served", "unmatched", "unmatched-while-active/kill", "unmatched-while-active/404"], parallel_depth=2),
            Symx("history-form-bodies", lambda X: h_history(X, REC_FORM, 3, OPS_FORM, 4),
                 bounds=f"recorded set of 1..3 flows from {REC_FORM} x every history of <= 4 steps over {OPS_FORM}",
                 encoded=ENCODED, must_reach=reach, parallel_depth=3),
            Symx("history-host-port", lambda X: h_history(X, REC_ADDR, 3, OPS_ADDR, 4),
                 bounds=f"recorded set of 1..3 flows from {REC_ADDR} x every history of <= 4 steps over {OPS_ADDR}",
                 encoded=ENCODED, must_reach=["end", "served", "unmatched", "option-change", "served-with-reuse", "unmatched-while-active/204"], parallel_depth=3),
            Symx("history-5", lambda X: h_history(X, REC_QUICK[:3], 3, ["req:base", "req:ign-param", "toggle:server_replay_ignore_params", "reuse:server_replay_reuse"], 5),
                 bounds="recorded set of 1..3 flows from base / ign-param / xkey x every history of <= 5 steps over {request base, request ign-param, toggle ignore_params, toggle reuse}",
                 encoded=ENCODED, must_reach=["end", "served", "unmatched", "option-change", "served-with-reuse"], parallel_depth=3),
        ]
    return obs
