"""C43 — the flow view shows exactly the matching flows, in order.

The real `mitmproxy.addons.view.View` (with its real `Focus`, `Settings`, `_OrderKey` caches and the real
pure-Python `sortedcontainers` list) is driven by a solver-enumerated history of view operations over a
pool of three flows (HTTP x2, TCP).  Engine symx, native execution per path: every operation kind, flow
index, filter, order, marker, method/url/size value is an `X.choose` selector (z3 owns the enumeration,
the menu is the bound); the creation timestamps are symbolic integers that stay symbolic inside
sortedcontainers' bisect comparisons (each feasible ordering / tie class is one path).  Listeners are
connected to every view signal.  After *every* operation the oracle (an independent model: a dict of
stored flows + plain Python predicates/keys written from the option documentation) demands
  * list(view) == the stored flows matching the filter (and marked, in marked-only mode), each once,
    sorted by the selected key (ties: any order), reversed when requested; len()/index agree;
  * focus is a member of the view, or None and the view is empty;
  * settings keys are ids of stored flows; the store is what the history says it is;
  * view add/remove/update notifications match the set difference of consecutive views.
"""
from mitmproxy import flowfilter, http, tcp
from mitmproxy.addons import view as viewmod
from mitmproxy.test import tflow

from vf.ob import Symx

LEVEL = "model_checking"
ASSUMPTIONS = [
    "history operations are the public View API calls that the console/web/commands make: add, update (always called after a flow attribute "
    "changed, as the proxy hooks and flow.mark do), remove, set_filter, set_order, set_reversed, toggle_marked, clear, clear_not_marked",
    "filters are real flowfilter.parse results (~m GET ; ~u /z | ~tcp ; none); the oracle uses independent Python predicates with the documented meaning",
    "flow creation timestamps never change after creation (as in mitmproxy); they are symbolic ints (not floats)",
    "sortedcontainers and mitmproxy.utils.signals run for real; no stubs",
]
OUTSIDE = [
    "histories longer than the stated bound; pools with more than 3 flows; UDP/DNS flows (same code path as TCP in View)",
    "focus movement commands (go/next/prev), duplicate/create/load_file/resolve, focus_follow",
    "the `index` argument of sig_view_remove (its meaning under reversed order is not stated by the property)",
    "notification of pure order changes (set_order emits no signal; the property only speaks of add/remove/update notifications)",
]
ENCODED = [
    "mitmproxy.addons.view:View.add", "mitmproxy.addons.view:View.update", "mitmproxy.addons.view:View.remove",
    "mitmproxy.addons.view:View._refilter", "mitmproxy.addons.view:View._base_add", "mitmproxy.addons.view:View.set_order",
    "mitmproxy.addons.view:View.set_reversed", "mitmproxy.addons.view:View.set_filter", "mitmproxy.addons.view:View.toggle_marked",
    "mitmproxy.addons.view:View.clear", "mitmproxy.addons.view:View.clear_not_marked", "mitmproxy.addons.view:View.__getitem__",
    "mitmproxy.addons.view:View._rev", "mitmproxy.addons.view:_OrderKey.__call__", "mitmproxy.addons.view:_OrderKey.refresh",
    "mitmproxy.addons.view:OrderRequestStart.generate", "mitmproxy.addons.view:OrderRequestMethod.generate",
    "mitmproxy.addons.view:OrderRequestURL.generate", "mitmproxy.addons.view:OrderKeySize.generate",
    "mitmproxy.addons.view:Focus._sig_view_remove", "mitmproxy.addons.view:Focus._sig_view_refresh", "mitmproxy.addons.view:Focus._sig_view_add",
    "mitmproxy.addons.view:Settings.__getitem__", "mitmproxy.addons.view:Settings._sig_store_remove", "mitmproxy.addons.view:Settings._sig_store_refresh",
]

# --- menus (the bound) ---------------------------------------------------------------------
FILTER_SRC = [None, "~m GET", "~u /z | ~tcp"]
FILTERS = [None if s is None else flowfilter.parse(s) for s in FILTER_SRC]
ORDERS = ["time", "method", "url", "size"]
METHODS = ["GET", "POST"]
PATHS = ["/a", "/z"]
SIZES = [0, 3, 7]
TCP_HOSTS = ["a.example", "z.example"]


# --- independent oracle --------------------------------------------------------------------
def _is_http(f):
    return isinstance(f, http.HTTPFlow)


def o_filter(j, f):
    """documented meaning of FILTER_SRC[j]"""
    if j == 0:
        return True
    if j == 1:  # ~m GET : HTTP flows whose method contains GET (case-insensitive)
        return _is_http(f) and "get" in f.request.method.lower()
    # ~u /z | ~tcp
    return (_is_http(f) and "/z" in f.request.pretty_url.lower()) or isinstance(f, tcp.TCPFlow)


def o_key(order, f):
    """documented sort keys (view_order option: time, method, url, size)"""
    if order == "time":
        return f.timestamp_created
    if order == "method":
        return f.request.method if _is_http(f) else "TCP"
    if order == "url":
        if _is_http(f):
            return f.request.url
        h, p = f.server_conn.address
        return f"{h}:{p}"
    if _is_http(f):
        n = len(f.request.raw_content or b"")
        if f.response is not None:
            n += len(f.response.raw_content or b"")
        return n
    return sum(len(m.content) for m in f.messages)


class Rec:
    def __init__(self, v):
        self.log = []
        v.sig_view_add.connect(self.on_add)
        v.sig_view_remove.connect(self.on_remove)
        v.sig_view_update.connect(self.on_update)
        v.sig_view_refresh.connect(self.on_refresh)
        v.sig_store_remove.connect(self.on_store_remove)
        v.sig_store_refresh.connect(self.on_store_refresh)

    def on_add(self, flow):
        self.log.append(("add", flow.id))

    def on_remove(self, flow, index):
        self.log.append(("remove", flow.id, index))

    def on_update(self, flow):
        self.log.append(("update", flow.id))

    def on_refresh(self):
        self.log.append(("refresh",))

    def on_store_remove(self, flow):
        self.log.append(("store_remove", flow.id))

    def on_store_refresh(self):
        self.log.append(("store_refresh",))


POOL_KINDS = {"h0": "HTTP GET without response", "h1": "HTTP POST with response", "tcp": "TCP"}


# "flip" size changes toggle between these two body sizes (chosen so that the size order of two flows can cross)
FLIP_SIZES = {"h0": (3, 7), "h1": (5, 1), "tcp": (4, 8)}


def make_pool(X, kinds, symbolic_ts=True):
    pool = []
    for i, kind in enumerate(kinds):
        if kind != "tcp":
            f = tflow.tflow(resp=(kind == "h1"))
            f.request.method = METHODS[0 if kind == "h0" else 1]
            f.request.path = PATHS[0]
            f.request.content = b"x" * FLIP_SIZES[kind][0]
            if f.response is not None:
                f.response.content = b""
        else:
            f = tflow.ttcpflow()
            f.server_conn.address = (TCP_HOSTS[0], 22)
            f.messages = [tcp.TCPMessage(True, b"x" * FLIP_SIZES[kind][0])]
        f.id = f"f{i}"
        f.kind = kind
        f.marked = ""
        f.timestamp_created = X.int(f"ts{i}", 0, 1000) if symbolic_ts else 100 + i
        pool.append(f)
    return pool


def variants(pool, cfg):
    """flat menu of operation variants = the per-step bound (one solver-chosen selector per step)"""
    out = []
    ops = cfg["ops"]
    for i, f in enumerate(pool):
        if "add" in ops:
            out.append(("add", i))
        if "update" in ops:
            if _is_http(f):
                out += [("update", i, k, val) for k in cfg["http_keys"] for val in (cfg["sizes"] if k == "size" else ["flip"])]
            else:
                out += [("update", i, k, val) for k in cfg["tcp_keys"] for val in (cfg["sizes"] if k == "size" else ["flip"])]
        if "remove" in ops:
            out.append(("remove", i))
            # the flow's sort key changed (a live flow grows) and the flow is removed before any update hook ran
            out.append(("remove_changed", i))
        if "mark" in ops:
            out.append(("mark", i))
    if "set_filter" in ops:
        out += [("set_filter", j) for j in cfg["filters"]]
    if "set_order" in ops:
        out += [("set_order", k) for k in cfg["orders"]]
    for o in ("reverse", "toggle_marked", "clear", "clear_not_marked"):
        if o in ops:
            out.append((o,))
    return out


ALL_OPS = ["add", "update", "remove", "mark", "set_filter", "set_order", "reverse", "toggle_marked", "clear", "clear_not_marked"]
CFG_FULL = dict(ops=ALL_OPS, http_keys=["method", "url", "size"], tcp_keys=["url", "size"], sizes=[0, 3, 7], filters=[0, 1, 2], orders=ORDERS,
                pool=["h0", "h1", "tcp"], prestate=None)
# "flip" = move to the other menu value; sizes=["flip"] toggles between 3 and 7 bytes
CFG_QUICK = dict(CFG_FULL, sizes=["flip"])
PRE_ALL = dict(orders=ORDERS, filters=[0, 1, 2], rev=True, flow_states=[0, 1, 2], min_stored=0, marked_only=True)
# deeper histories over the operations that touch the sort-key machinery (_OrderKey cache / refresh / set_order / _base_add)
CFG_ORDER = dict(ops=["update", "set_order", "set_filter"], http_keys=["method", "size"], tcp_keys=[], sizes=["flip"], filters=[0, 1], orders=ORDERS,
                 pool=["h0", "h1"], symbolic_ts=False, prestate=dict(orders=["time"], filters=[0], rev=False, flow_states=[1], min_stored=2, marked_only=False))


def describe(cfg):
    pre = cfg["prestate"]
    s = (f"pool: {[POOL_KINDS[k] for k in cfg['pool']]}; per-step menu ({len(variants(make_pool(None, cfg['pool'], False), cfg))} variants): "
         + ", ".join(cfg["ops"]) + f"; update = change one of {cfg['http_keys']} (TCP: {cfg['tcp_keys']}; method GET<->POST, path /a<->/z, host a<->z, "
         f"size in {cfg['sizes']}, flip = {FLIP_SIZES} bytes) then View.update; filters {[FILTER_SRC[j] for j in cfg['filters']]}; orders {cfg['orders']}; "
         + ("creation timestamps symbolic in [0,1000]" if cfg.get("symbolic_ts", True) else "creation timestamps fixed, distinct"))
    if pre:
        s += (f"; pre-state built through the API: order in {pre['orders']} x filter in {[FILTER_SRC[j] for j in pre['filters']]} x reversed {'both' if pre['rev'] else 'no'} x "
              f"each flow in {['absent', 'stored', 'stored+marked'][pre['flow_states'][0]: pre['flow_states'][-1] + 1]} (>= {pre['min_stored']} stored) x marked-only {'both' if pre['marked_only'] else 'off'}")
    return s


def run_history(X, n_ops, cfg):
    v = viewmod.View()
    rec = Rec(v)  # keep a strong reference: signals hold weak refs
    pool = make_pool(X, cfg["pool"], cfg.get("symbolic_ts", True))
    menu = variants(pool, cfg)
    # model
    store = {}  # id -> flow, insertion ordered
    m = {"filter": 0, "order": "time", "rev": False, "marked_only": False}

    def expected_members():
        return [f for f in store.values() if o_filter(m["filter"], f) and (not m["marked_only"] or bool(f.marked))]

    def check_state(opname, arg, before_ids):
        sigs = rec.log[:]
        del rec.log[:]
        got = list(v)
        got_ids = [f.id for f in got]
        exp = expected_members()
        exp_ids = {f.id for f in exp}
        ctx = f"after {opname}{arg}: view={got_ids} expected-members={sorted(exp_ids)} model={m} store={list(store)}"
        # --- membership, each once
        X.check(len(set(got_ids)) == len(got_ids), f"C43/duplicate/{opname}", ctx)
        if set(got_ids) != exp_ids:
            extra = [f for f in got if f.id not in exp_ids]
            if m["marked_only"] and extra and opname in ("add", "update", "mark") and all((not f.marked) and f.id in store and o_filter(m["filter"], f) for f in extra):
                which = "add-unmarked" if opname == "add" else "update-unmarked"
                X.fail(f"C43/marked-only/{which}", "marked-only mode shows an unmarked flow " + ctx)
            X.fail(f"C43/membership/{opname}", ctx)
        X.check(len(v) == len(exp), f"C43/len/{opname}", ctx)
        # --- order (ties: any order)
        seq = got[::-1] if m["rev"] else got
        for a, b in zip(seq, seq[1:]):
            ka, kb = o_key(m["order"], a), o_key(m["order"], b)
            if not (ka <= kb):
                # classification only: is the view sorted by a cached key value that no longer equals the flow's key?
                stale = [f.id for f in (a, b) if not bool(v.order_key(f) == o_key(m["order"], f))]
                cls = "stale-cached-key/" if stale else ""
                X.fail(f"C43/order/{cls}{m['order']}/after-{opname}", f"{a.id} (key {ka!r}) is listed before {b.id} (key {kb!r}); cached sort key stale for {stale} " + ctx)
        for i, f in enumerate(got):
            X.check(v[i] is f and f in v, f"C43/getitem/{opname}", ctx)
        # --- focus
        ff = v.focus.flow
        if got:
            X.check(ff is not None and any(ff is g for g in got), f"C43/focus/{opname}", f"focus={getattr(ff, 'id', None)} " + ctx)
        else:
            X.check(ff is None, f"C43/focus-nonempty/{opname}", f"focus={getattr(ff, 'id', None)} but view empty " + ctx)
        # --- store and settings
        real_store = {f.id for f in pool if v.get_by_id(f.id) is f}
        X.check(real_store == set(store) and v.store_count() == len(store), f"C43/store/{opname}", f"real store {sorted(real_store)} " + ctx)
        skeys = set(v.settings)
        X.check(skeys <= set(store), f"C43/settings-leak/{opname}", f"settings keys {sorted(skeys)} " + ctx)
        # --- notifications
        after_ids = set(got_ids)
        entered, left, stayed = after_ids - before_ids, before_ids - after_ids, after_ids & before_ids
        refresh = ("refresh",) in sigs
        adds = [s[1] for s in sigs if s[0] == "add"]
        removes = [s[1] for s in sigs if s[0] == "remove"]
        updates = [s[1] for s in sigs if s[0] == "update"]
        nctx = f"signals={sigs} entered={sorted(entered)} left={sorted(left)} " + ctx
        X.check(len(set(adds)) == len(adds) and set(adds) <= entered, f"C43/notify/spurious-add/{opname}", nctx)
        X.check(len(set(removes)) == len(removes) and set(removes) <= left, f"C43/notify/spurious-remove/{opname}", nctx)
        X.check(refresh or entered <= set(adds), f"C43/notify/missing-add/{opname}", nctx)
        X.check(refresh or left <= set(removes), f"C43/notify/missing-remove/{opname}", nctx)
        if opname in ("update", "mark") and arg[0] in stayed:
            X.check(updates == [arg[0]], f"C43/notify/update/{opname}", nctx)
        else:
            X.check(updates == [], f"C43/notify/spurious-update/{opname}", nctx)
        return after_ids

    before = set()
    pre = cfg["prestate"]
    if pre:
        # solver-chosen pre-state, built through the public API in a canonical order
        k = X.choose("pre_order", pre["orders"])
        if k != "time":
            v.set_order(k)
            m["order"] = k
        j = X.choose("pre_filter", pre["filters"])
        if j:
            v.set_filter(FILTERS[j])
            m["filter"] = j
        if pre["rev"] and X.boolean("pre_rev"):
            v.set_reversed(True)
            m["rev"] = True
        n_stored = 0
        for i, f in enumerate(pool):
            s = X.choose(f"pre_f{i}", pre["flow_states"])  # 0: not stored, 1: stored, 2: stored and marked
            if s:
                if s == 2:
                    f.marked = ":default:"
                v.add([f])
                store[f.id] = f
                n_stored += 1
        X.assume(n_stored >= pre["min_stored"])
        if pre["marked_only"] and X.boolean("pre_marked_only"):
            v.toggle_marked()
            m["marked_only"] = True
        del rec.log[:]  # notifications are judged per operation; the pre-state is only a starting point
        before = check_state("prestate", (), set(f.id for f in v))

    for step in range(n_ops):
        var = X.choose("op", menu)
        op = var[0]
        arg = ()
        if op == "remove_changed":
            f = pool[var[1]]
            cur = o_key("size", f) if not _is_http(f) else len(f.request.raw_content or b"")
            lo, hi = FLIP_SIZES[f.kind]
            n = hi if cur == lo else lo
            if _is_http(f):
                f.request.content = b"x" * n
            else:
                f.messages = [tcp.TCPMessage(True, b"x" * n)] if n else []
            X.reach("removed-with-stale-key")
            op = "remove"
        if op in ("add", "update", "remove", "mark"):
            f = pool[var[1]]
            arg = (f.id,)
        if op == "add":
            v.add([f])
            store.setdefault(f.id, f)
            X.reach("add")
        elif op == "update":
            kind, val = var[2], var[3]
            if kind == "method":
                f.request.method = METHODS[1 - METHODS.index(f.request.method)]
            elif kind == "url":
                if _is_http(f):
                    f.request.path = PATHS[1 - PATHS.index(f.request.path)]
                else:
                    f.server_conn.address = (TCP_HOSTS[1 - TCP_HOSTS.index(f.server_conn.address[0])], 22)
            else:
                cur = o_key("size", f) if not _is_http(f) else len(f.request.raw_content or b"")
                lo, hi = FLIP_SIZES[f.kind]
                n = (hi if cur == lo else lo) if val == "flip" else val
                if _is_http(f):
                    f.request.content = b"x" * n
                else:
                    f.messages = [tcp.TCPMessage(True, b"x" * n)] if n else []
            arg = (f.id, kind, val)
            v.update([f])
            X.reach("update")
        elif op == "remove":
            v.remove([f])
            store.pop(f.id, None)
        elif op == "set_filter":
            j = var[1]
            v.set_filter(FILTERS[j])
            m["filter"] = j
            arg = (FILTER_SRC[j],)
        elif op == "set_order":
            k = var[1]
            v.set_order(k)
            m["order"] = k
            arg = (k,)
        elif op == "reverse":
            m["rev"] = not m["rev"]
            v.set_reversed(m["rev"])
            arg = (m["rev"],)
        elif op == "toggle_marked":
            v.toggle_marked()
            m["marked_only"] = not m["marked_only"]
            X.check(v.get_marked() == m["marked_only"], "C43/get_marked", "")
            if m["marked_only"]:
                X.reach("marked-only")
        elif op == "mark":
            # what core's flow.mark.toggle does: flip the marker, then trigger the update hook
            f.marked = "" if f.marked else ":default:"
            v.update([f])
            arg = (f.id, f.marked)
        elif op == "clear":
            v.clear()
            store.clear()
        elif op == "clear_not_marked":
            v.clear_not_marked()
            for fid in [fid for fid, g in store.items() if not g.marked]:
                del store[fid]
        before = check_state(op, arg, before)
        if len(before) >= 2:
            X.reach("two-in-view")
    X.reach("end")


def obligations(tier):
    if tier == "quick":
        hist = [(3, CFG_QUICK, "history-from-empty")]
        pre_n, pre_cfg = 1, dict(CFG_QUICK, prestate=dict(PRE_ALL, rev=False))
        ord_n = 4
    else:
        hist = [(3, CFG_FULL, "history-from-empty")]
        pre_n, pre_cfg = 2, dict(CFG_QUICK, prestate=dict(PRE_ALL, rev=False, orders=["time", "size"], filters=[0, 1], min_stored=2))
        ord_n = 5
    obs = []
    for n, cfg, name in hist:
        obs.append(Symx(name, (lambda n, cfg: lambda X: run_history(X, n, cfg))(n, cfg),
                        bounds=f"every history of {n} operations from the empty view (the oracle is checked after every operation, so all shorter histories are included); " + describe(cfg),
                        encoded=ENCODED, must_reach=["end", "add", "update", "marked-only", "two-in-view"], parallel_depth=2))
    obs.append(Symx("prestate-then-ops", lambda X: run_history(X, pre_n, pre_cfg),
                    bounds=f"every pre-state followed by every history of {pre_n} operation(s); " + describe(pre_cfg),
                    encoded=ENCODED, must_reach=["end", "add", "update", "two-in-view"], parallel_depth=4))
    obs.append(Symx("order-key-history", lambda X: run_history(X, ord_n, CFG_ORDER),
                    bounds=f"both HTTP flows stored, then every history of {ord_n} operations over the sort-key machinery; " + describe(CFG_ORDER),
                    encoded=ENCODED, must_reach=["end", "update", "two-in-view"], parallel_depth=2))
    return obs
