"""C25 — DNS wire encoding round-trips; decoding is total.

The real `DNSMessage.packed / unpack / unpack_from`, `domain_names.*` and `https_records.*` are executed
by the symx engine on messages whose numeric fields are bit-vector symbols and on buffers whose octets
are 8-bit symbols (vf.symbytes.SymBytes + the C-boundary shims of vf.dnsshim).  Structure (how many
records, which name, which record kind, which buffer length) is chosen by solver-enumerated selectors.
Oracles: field-by-field equality after the round trip, the independent RFC 1035/3597 decoder
vf.refs.dnsref on the produced octets, and "the only exception a decoder may raise is struct.error".
"""
import struct

from vf import dnsshim, symx
from vf.ob import Concrete, Symx
from vf.refs import dnsref

# decoding must always terminate: a single path that does not return within 2 minutes is reported (hang:path-timeout)
symx.PATH_TIMEOUT_S = min(symx.PATH_TIMEOUT_S, 120)

LEVEL = "model_checking"
ASSUMPTIONS = [
    "struct.Struct / struct.pack / struct.unpack replaced by the big-endian models of vf.symbytes (validated against struct)",
    "bytearray / bytes() inside the four DNS modules replaced by symbolic-octet lookalikes (vf.dnsshim)",
    "domain_names.cache() returns a dict model that compares possibly-symbolic offsets with == instead of hashing them",
    "label.decode('idna') on a label with symbolic octets is a 3-class contract model of CPython's codec (non-ASCII -> "
    "UnicodeDecodeError; ASCII -> text of the same length whose '.' structure class is preserved); labels containing the ACE "
    "prefix 'xn--' are excluded from the symbolic obligations and covered with concrete octets by 'decode-label-menu'; the model "
    "is validated against the real codec on all 1- and 2-octet labels and a structured sample of 3..5-octet labels",
    "every counterexample is replayed on the unmodified modules with concrete bytes (no shim installed)",
]
OUTSIDE = [
    "messages larger than the stated bounds (the RecursionError finding needs ~2 kB and is exhibited by the selector-built 'pointer-chain-depth' obligation)",
    "IDNA codec internals beyond the label menu (nameprep, punycode)",
    "JSON / state serialisation of DNS messages (C36, C50)",
]
ENCODED = [
    "mitmproxy.dns:DNSMessage.packed", "mitmproxy.dns:DNSMessage.unpack", "mitmproxy.dns:DNSMessage.unpack_from",
    "mitmproxy.net.dns.domain_names:pack", "mitmproxy.net.dns.domain_names:unpack", "mitmproxy.net.dns.domain_names:unpack_from",
    "mitmproxy.net.dns.domain_names:unpack_from_with_compression", "mitmproxy.net.dns.domain_names:_unpack_label_into",
    "mitmproxy.net.dns.domain_names:decompress_from_record_data", "mitmproxy.net.dns.domain_names:record_data_can_have_compression",
]
ENCODED_HTTPS = ["mitmproxy.net.dns.https_records:pack", "mitmproxy.net.dns.https_records:unpack",
                 "mitmproxy.net.dns.https_records:_pack_params", "mitmproxy.net.dns.https_records:_unpack_params"]
STUBS = ["struct -> vf.symbytes model", "bytearray/bytes -> vf.dnsshim", "domain_names.cache -> SymKeyDict", "SymBytes.decode('idna') -> class model"]

# types in mitmproxy's record_data_can_have_compression list (read from the running module in _mitm_types)
L63 = "b" * 63
# (python name, wire labels) — the python name is what DNSMessage objects hold (IDNA-decoded text)
NAMES = [
    ("", ()),
    ("a", (b"a",)),
    ("münchen.a", (b"xn--mnchen-3ya", b"a")),
    (L63 + ".a.c", (L63.encode(), b"a", b"c")),
]
BAD_NAMES = ["a..b", ".", "a.", "c" * 64]


def _dns():
    from mitmproxy import dns
    return dns


def _b(x):
    """SymBool/bool -> value usable in == comparisons"""
    if type(x) is symx.SymBool:
        return symx.ite(x, 1, 0)
    if x is True or x is False:
        return int(x)
    return x


def _eq(x, y):
    """x == y; decided without a solver call when the objects are identical or z3's simplifier settles it"""
    if x is y:
        return True
    r = x == y
    if type(r) is symx.SymBool:
        import z3
        t = z3.simplify(r.e)
        if z3.is_true(t):
            return True
        if z3.is_false(t):
            return False
    return r


def _same(a, b):
    return _eq(_b(a), _b(b))


HFIELDS = ("id", "query", "op_code", "authoritative_answer", "truncation", "recursion_desired", "recursion_available",
           "reserved", "response_code")


def _data_eq(a, b):
    a, b = list(a), list(b)
    if len(a) != len(b):
        return False
    for x, y in zip(a, b):
        if not _eq(x, y):
            return False
    return True


def msg_diff(a, b):
    """first differing field of two DNSMessages (symbolic-aware: comparisons fork), or None"""
    for f in HFIELDS:
        if not _same(getattr(a, f), getattr(b, f)):
            return f
    if len(a.questions) != len(b.questions):
        return "questions/count"
    for i, (x, y) in enumerate(zip(a.questions, b.questions)):
        if x.name != y.name:
            return f"questions/{i}/name"
        if not _eq(x.type, y.type):
            return f"questions/{i}/type"
        if not _eq(x.class_, y.class_):
            return f"questions/{i}/class"
    for sec in ("answers", "authorities", "additionals"):
        sa, sb = getattr(a, sec), getattr(b, sec)
        if len(sa) != len(sb):
            return f"{sec}/count"
        for i, (x, y) in enumerate(zip(sa, sb)):
            if x.name != y.name:
                return f"{sec}/{i}/name"
            if not _eq(x.type, y.type):
                return f"{sec}/{i}/type"
            if not _eq(x.class_, y.class_):
                return f"{sec}/{i}/class"
            if not _eq(x.ttl, y.ttl):
                return f"{sec}/{i}/ttl"
            if not _data_eq(x.data, y.data):
                return f"{sec}/{i}/data"
    return None


def _mkmsg(**kw):
    dns = _dns()
    d = dict(id=0, query=True, op_code=0, authoritative_answer=False, truncation=False, recursion_desired=False,
             recursion_available=False, reserved=0, response_code=0, questions=[], answers=[], authorities=[], additionals=[])
    d.update(kw)
    return dns.DNSMessage(**d)


# ------------------------------------------------------------------------------------------------
# (i) header bit packing for all values



def _lookalike(m, d):
    """does the record data named by the msg_diff path `d` ('section/index/data') contain an octet with the top two bits set?  The recorded
    defect rewrites data that merely LOOKS like a compression pointer; data without such an octet that does not survive is a different failure."""
    try:
        sec, i, _ = d.split("/")
        return any(bool(b >= 0xC0) for b in list(getattr(m, sec)[int(i)].data))
    except (symx.Unsupported, symx.Violation):
        raise
    except Exception:  # noqa
        return True


def h_header(X):
    dns = _dns()
    with dnsshim.installed(X.symbolic):
        X.opaque_str(True)
        # the engine tracks intervals per symbol, so each field is declared either over its legal range or
        # (one selected field) over a wide range constrained to be illegal: together every value of the
        # wide ranges is covered for every field
        bad = X.choose("out_of_range_field", ["none", "id", "op_code", "reserved", "rcode"])
        wide = {"id": (-(1 << 16), 1 << 17, 65535), "op_code": (-32, 63, 15), "reserved": (-16, 31, 7), "rcode": (-32, 63, 15)}
        v = {}
        for f, (lo, hi, mx) in wide.items():
            if f == bad:
                v[f] = X.int(f, lo, hi)
                X.assume((v[f] < 0) | (v[f] > mx) if X.symbolic else (v[f] < 0 or v[f] > mx))
            else:
                v[f] = X.int(f, 0, mx)
        mid, op, z, rc = v["id"], v["op_code"], v["reserved"], v["rcode"]
        fl = {n: X.boolean(n) for n in ("query", "aa", "tc", "rd", "ra")}
        m = _mkmsg(id=mid, op_code=op, response_code=rc, reserved=z, query=fl["query"], authoritative_answer=fl["aa"],
                   truncation=fl["tc"], recursion_desired=fl["rd"], recursion_available=fl["ra"])
        in_range = (mid >= 0) & (mid <= 65535) & (op >= 0) & (op <= 15) & (z >= 0) & (z <= 7) & (rc >= 0) & (rc <= 15) \
            if X.symbolic else (0 <= mid <= 65535 and 0 <= op <= 15 and 0 <= z <= 7 and 0 <= rc <= 15)
        try:
            p = m.packed
        except ValueError:
            X.reach("rejected")
            X.check(symx.lnot(in_range), "C25/header/in-range-rejected", "packed raised ValueError for in-range header fields")
            return
        X.reach("packed")
        X.check(in_range, "C25/header/out-of-range-accepted", "packed accepted an out-of-range header field")
        X.check(len(p) == 12, "C25/header/length", f"header-only message is {len(p)} octets")
        # RFC 1035 4.1.1 layout, read by the reference decoder
        r = dnsref.decode(p)
        exp_flags = ((0 if fl["query"] else 1) << 15) | (op << 11) | (int(fl["aa"]) << 10) | (int(fl["tc"]) << 9) \
            | (int(fl["rd"]) << 8) | (int(fl["ra"]) << 7) | (z << 4) | rc
        X.check(r.id == mid, "C25/header/id-wire", "id octets differ from RFC 1035 layout")
        X.check(r.flags == exp_flags, "C25/header/flags-wire", "flag octets differ from RFC 1035 4.1.1 layout")
        m2 = dns.DNSMessage.unpack(p)
        d = msg_diff(m, m2)
        X.check(d is None, f"C25/header/roundtrip/{d}", f"unpack(packed(m)).{d} differs")


# ------------------------------------------------------------------------------------------------
# (ii) round trip, structure selected

KINDS = ["opaque", "TXT", "HINFO", "CNAME", "MX", "SOA", "SRV"]
KIND_TYPE = {"TXT": 16, "HINFO": 13, "CNAME": 5, "MX": 15, "SOA": 6, "SRV": 33}


def _mitm_types():
    from mitmproxy.net.dns import domain_names, types
    return [t for t in range(0, 260) if domain_names.record_data_can_have_compression(t)]


def _u_items(v, n):
    return [(v >> (8 * i)) & 0xFF for i in reversed(range(n))]


OPAQUE_TYPES = [1, 28, 65280, 0, 41, 65535]


def _mk_record(X, tag, kind, name_i, rd_len, rd_name_i, opaque_menu=False):
    """-> (ResourceRecord, ref fields, wire labels of owner)"""
    dns = _dns()
    from mitmproxy.net.dns import domain_names
    pyname, labels = NAMES[name_i]
    # class/ttl symbolic only where mitmproxy does not byte-scan symbolic rdata (their octets would
    # otherwise become symbolic pointer targets and multiply the tree); concrete elsewhere
    if kind in ("opaque", "CNAME"):
        cls = X.bv(f"{tag}.class", 16)
        ttl = X.bv(f"{tag}.ttl", 32)
    else:
        cls, ttl = 1, 0x00C0FFEE
    rname, rlabels = NAMES[rd_name_i]
    if kind in ("opaque", "TXT", "HINFO"):
        if kind == "opaque":
            typ = X.choose(f"{tag}.type", OPAQUE_TYPES) if opaque_menu else OPAQUE_TYPES[len(tag) % 2]
        else:
            typ = KIND_TYPE[kind]
        rd = X.bytes(f"{tag}.rdata", rd_len)
        data = dnsshim.mkbuf(X.symbolic, list(rd))
        fields = (("raw", "rdata", list(rd)),)
    else:
        typ = KIND_TYPE[kind]
        packed_name = list(domain_names.pack(rname))
        if kind == "CNAME":
            items = packed_name
            fields = (("name", "cname", rlabels),)
        elif kind == "MX":
            pref = X.bv(f"{tag}.preference", 16)
            items = _u_items(pref, 2) + packed_name
            fields = (("raw", "preference", _u_items(pref, 2)), ("name", "exchange", rlabels))
        elif kind == "SRV":
            port = X.bv(f"{tag}.port", 16)
            items = [0, 1, 0, 2] + _u_items(port, 2) + packed_name
            fields = (("raw", "priority", [0, 1]), ("raw", "weight", [0, 2]), ("raw", "port", _u_items(port, 2)), ("name", "target", rlabels))
        else:  # SOA
            serial = (X.bv(f"{tag}.serial_hi", 16) << 16) | 0x0001  # upper half symbolic (one potential pointer), lower half fixed
            rest = [0, 0, 14, 16, 0, 0, 3, 132, 0, 9, 58, 128, 0, 0, 0, 60]
            items = packed_name + list(domain_names.pack("h.a")) + _u_items(serial, 4) + rest
            fields = (("name", "mname", rlabels), ("name", "rname", (b"h", b"a")), ("raw", "serial", _u_items(serial, 4)),
                      ("raw", "refresh", rest[0:4]), ("raw", "retry", rest[4:8]), ("raw", "expire", rest[8:12]), ("raw", "minimum", rest[12:16]))
        data = dnsshim.mkbuf(X.symbolic, items)
    return dns.ResourceRecord(pyname, typ, cls, ttl, data), fields, labels, typ, cls, ttl


def _check_roundtrip(X, m, expect_ref, where):
    """m: DNSMessage built by the harness; expect_ref: dnsref.Msg-shaped expectation (or None)"""
    dns = _dns()
    try:
        p = m.packed
    except Exception as e:  # noqa
        X.fail(f"C25/{where}/packed-raises/{type(e).__name__}", f"packed raised {e!r} on a well-formed message")
    if expect_ref is not None:
        try:
            r = dnsref.decode(p)
        except dnsref.RefError as e:
            X.fail(f"C25/{where}/wire-malformed", f"reference decoder rejects packed(m): {e}")
        X.check(len(r.qd) == len(expect_ref.qd) and all(len(getattr(r, s)) == len(getattr(expect_ref, s)) for s in ("an", "ns", "ar")),
                f"C25/{where}/wire/counts", "section counts on the wire differ")
        for i, (x, y) in enumerate(zip(r.qd, expect_ref.qd)):
            X.check(x.name == y.name, f"C25/{where}/wire/qname", f"question {i}: wire name {x.name} != {y.name}")
            X.check(x.type == y.type, f"C25/{where}/wire/qtype", "question type on the wire differs")
            X.check(x.cls == y.cls, f"C25/{where}/wire/qclass", "question class on the wire differs")
        for s in ("an", "ns", "ar"):
            for i, (x, y) in enumerate(zip(getattr(r, s), getattr(expect_ref, s))):
                X.check(x.name == y.name, f"C25/{where}/wire/owner", f"{s}[{i}]: wire owner {x.name} != {y.name}")
                X.check(x.type == y.type, f"C25/{where}/wire/type", "record type on the wire differs")
                X.check(x.cls == y.cls, f"C25/{where}/wire/class", "record class on the wire differs")
                X.check(x.ttl == y.ttl, f"C25/{where}/wire/ttl", "record ttl on the wire differs")
                X.check(len(x.fields) == len(y.fields), f"C25/{where}/wire/rdata-layout", "rdata layout on the wire differs")
                for fx, fy in zip(x.fields, y.fields):
                    if fy[0] == "name":
                        X.check(fx[0] == "name" and fx[2] == fy[2], f"C25/{where}/wire/rdata-name", f"rdata name {fx[1]} on the wire differs")
                    else:
                        X.check(_data_eq(fx[2], fy[2]), f"C25/{where}/wire/rdata/{fy[1]}", f"rdata field {fy[1]} on the wire differs")
    try:
        m2 = dns.DNSMessage.unpack(p)
    except struct.error as e:
        X.fail(f"C25/{where}/unpack-rejects-own-output", f"unpack(packed(m)) raised {e!r}")
    except (symx.Unsupported, symx.Violation):
        raise
    except Exception as e:  # noqa
        X.fail(f"C25/{where}/unpack-raises/{type(e).__name__}", f"unpack(packed(m)) raised {type(e).__name__}: {str(e)[:200]}")
    d = msg_diff(m, m2)
    if d is not None and d.endswith("/data"):
        sec, i, _ = d.split("/")
        rr = getattr(m, sec)[int(i)]
        kind = getattr(rr, "_kind", "?")
        X.fail(f"C25/{where}/{kind}/" + ("rdata-rewritten" if _lookalike(m, d) else "rdata-changed"), f"unpack(packed(m)).{d} differs from m.{d} (record kind {kind})")
    X.check(d is None, f"C25/{where}/differs/{d}", f"unpack(packed(m)).{d} differs")
    # decoded message re-encodes to octets that decode to the same message again
    try:
        p2 = m2.packed
    except Exception as e:  # noqa
        X.fail(f"C25/{where}/reencode-raises/{type(e).__name__}", f"packed raised {e!r} on a decoded message")
    m3 = dns.DNSMessage.unpack(p2)
    d = msg_diff(m2, m3)
    X.check(d is None, f"C25/{where}/re-decode-differs/{d}", f"unpack(packed(unpack(b))).{d} differs from unpack(b)")


def h_rt_record(X, max_len):
    """one question + one record: full content menu"""
    dns = _dns()
    with dnsshim.installed(X.symbolic, step_limit=20000):
        X.opaque_str(True)
        sec = "answers"
        kind = X.choose("kind", KINDS)
        # the 63-octet label only with kinds whose rdata mitmproxy does not byte-scan (message length = number of pointer targets)
        nn = len(NAMES) if kind in ("opaque", "CNAME") else len(NAMES) - 1
        name_i = X.choose("owner", nn)
        qname_i = (name_i + 1) % nn
        if kind in ("opaque", "TXT", "HINFO"):
            rd_len = X.choose("rdlen", list(range(0, max_len + 1)))
            rd_name_i = 0
        else:
            rd_len = 0
            rd_name_i = X.choose("rdname", nn)
        rr, fields, labels, typ, cls, ttl = _mk_record(X, "r", kind, name_i, rd_len, rd_name_i, opaque_menu=True)
        object.__setattr__(rr, "_kind", kind)
        if kind in ("opaque", "CNAME"):
            qt, qc, mid = X.bv("q.type", 16), X.bv("q.class", 16), X.bv("id", 16)
        else:
            qt, qc, mid = typ, 1, 0x1234
        q = dns.Question(NAMES[qname_i][0], qt, qc)
        m = _mkmsg(id=mid, query=False, questions=[q], **{sec: [rr]})
        secs = {"answers": "an", "authorities": "ns", "additionals": "ar"}
        exp = dnsref.Msg(0, 0, [dnsref.Q(NAMES[qname_i][1], qt, qc)], [], [], [])
        getattr(exp, secs[sec]).append(dnsref.RR(labels, typ, cls, ttl, fields))
        X.reach("built")
        X.reach(f"kind:{kind}")
        _check_roundtrip(X, m, exp, "roundtrip")


def h_rt_alltypes(X, rd_len):
    """one record whose TYPE is any 16-bit value that RFC 1035/3597 do not define as name-bearing, rdata
    fully symbolic: the record data must survive unpack(packed(m)) unchanged"""
    dns = _dns()
    with dnsshim.installed(X.symbolic, step_limit=20000):
        X.opaque_str(True)
        typ = X.bv("type", 16)
        cond = True
        for t in dnsref.LAYOUT:
            cond = (cond & (typ != t)) if X.symbolic else (cond and typ != t)
        X.assume(cond)
        rd = X.bytes("rdata", rd_len)
        rr = dns.ResourceRecord("a", typ, 1, 60, dnsshim.mkbuf(X.symbolic, list(rd)))
        m = _mkmsg(id=1, query=False, questions=[dns.Question("a", typ, 1)], answers=[rr])
        p = m.packed
        try:
            m2 = dns.DNSMessage.unpack(p)
        except (symx.Unsupported, symx.Violation):
            raise
        except Exception as e:  # noqa
            X.fail(f"C25/roundtrip/{dnsref.type_name(int(typ))}/unpack-raises/{type(e).__name__}", f"unpack(packed(m)) raised {type(e).__name__}: {str(e)[:200]}")
        X.reach("decoded")
        d = msg_diff(m, m2)
        if d is not None:
            t = int(typ)
            X.fail(f"C25/roundtrip/{dnsref.type_name(t)}/{('rdata-rewritten' if _lookalike(m, d) else 'rdata-changed') if d.endswith('/data') else d}",
                   f"record of type {t}: unpack(packed(m)).{d} differs from m.{d}")


def h_rt_structure(X, max_per_section):
    """section bookkeeping: 0..k entries in each of the four sections, small content menu"""
    dns = _dns()
    with dnsshim.installed(X.symbolic, step_limit=20000):
        X.opaque_str(True)
        counts = [X.choose(f"n{s}", max_per_section + 1) for s in ("qd", "an", "ns", "ar")]
        k = 0
        qs, exp_q = [], []
        for i in range(counts[0]):
            ni = (k % 3) + 1
            k += 1
            t, c = X.bv(f"q{i}.type", 16), X.bv(f"q{i}.class", 16)
            qs.append(dns.Question(NAMES[ni][0], t, c))
            exp_q.append(dnsref.Q(NAMES[ni][1], t, c))
        secs, exp_secs = [], []
        for s, n in zip(("an", "ns", "ar"), counts[1:]):
            rs, es = [], []
            for i in range(n):
                ni = k % 3
                k += 1
                kind = "opaque" if k % 2 else "CNAME"
                rr, fields, labels, typ, cls, ttl = _mk_record(X, f"{s}{i}", kind, ni, 1, (k + 1) % 3)
                object.__setattr__(rr, "_kind", kind)
                rs.append(rr)
                es.append(dnsref.RR(labels, typ, cls, ttl, fields))
            secs.append(rs)
            exp_secs.append(es)
        m = _mkmsg(id=X.bv("id", 16), query=X.boolean("query"), questions=qs, answers=secs[0], authorities=secs[1], additionals=secs[2])
        X.reach("built")
        if all(c == max_per_section for c in counts):
            X.reach("all-sections-full")
        _check_roundtrip(X, m, dnsref.Msg(0, 0, exp_q, *exp_secs), "structure")


def h_bad_names(X):
    """names that are not IDNA-canonical wire names must be rejected by packed with ValueError, never emitted"""
    dns = _dns()
    bad = X.choose("bad", BAD_NAMES)
    where = X.choose("where", ["question", "owner"])
    if where == "question":
        m = _mkmsg(questions=[dns.Question(bad, 1, 1)])
    else:
        m = _mkmsg(answers=[dns.ResourceRecord(bad, 1, 1, 0, b"")])
    try:
        p = m.packed
    except ValueError:
        X.reach("rejected")
        return
    X.fail("C25/bad-name/accepted", f"packed emitted {p!r} for the malformed name {bad!r}")


# ------------------------------------------------------------------------------------------------
# (iii) totality / termination on all short buffers


def _decode_total(X, buf, where, reencode=True):
    dns = _dns()
    try:
        m = dns.DNSMessage.unpack(buf)
    except struct.error:
        X.reach("parse-error")
        return None
    except (symx.Unsupported, symx.Violation):
        raise
    except Exception as e:  # noqa
        X.fail(f"C25/{where}/{type(e).__name__}-escapes", f"DNSMessage.unpack raised {type(e).__name__}: {str(e)[:200]}")
    X.reach("decoded")
    if not reencode:
        return m
    try:
        p = m.packed
    except (symx.Unsupported, symx.Violation):
        raise
    except Exception as e:  # noqa
        X.fail(f"C25/{where}/reencode-raises/{type(e).__name__}", f"a decoded message cannot be re-encoded: {type(e).__name__}: {str(e)[:200]}")
    try:
        m2 = dns.DNSMessage.unpack(p)
    except struct.error as e:
        X.fail(f"C25/{where}/reencoded-rejected", f"unpack(packed(unpack(b))) raised {e!r}")
    d = msg_diff(m, m2)
    if d is not None and d.endswith("/data"):
        sec, i, _ = d.split("/")
        t = int(getattr(m, sec)[int(i)].type)
        X.fail(f"C25/{where}/{dnsref.type_name(t)}/" + ("rdata-not-stable" if _lookalike(m, d) else "rdata-changed-on-reencode"),
               f"unpack(packed(unpack(b))).{d} differs from unpack(b).{d} (type {t})")
    X.check(d is None, f"C25/{where}/re-decode-differs/{d}", f"unpack(packed(unpack(b))).{d} differs from unpack(b)")
    X.reach("re-decoded")
    return m


def h_total_short(X, n):
    """12-octet header (id from a menu of octet pairs that matter as pointer targets, flags fixed, the
    four counts selected <= 2) + n fully symbolic body octets"""
    with dnsshim.installed(X.symbolic, step_limit=64 * (n + 13) ** 2):
        X.opaque_str(True)
        counts = [X.choose(f"c{i}", 3) for i in range(4)]
        hdr = list(X.choose("id", ID_MENU)) + [0x01, 0x00]
        body = X.bytes("b", n)
        items = list(hdr)
        for c in counts:
            items += [0, c]
        items += list(body)
        _decode_total(X, dnsshim.mkbuf(X.symbolic, items), "decode")


ID_MENU = [(0x00, 0x00), (0xC0, 0x00), (0x01, 0x2E), (0xC0, 0x0C)]  # root / self-pointer / label '.' / pointer to the body
RTYPES_QUICK = [16, 5, 1]
RTYPES_THOROUGH = [16, 5, 6, 15, 33, 1, 65280]


def h_total_record(X, k, type_menu):
    """a buffer holding a question ('a', or a label with one symbolic octet) and one record slot in any
    section: owner = root / pointer to the question name, type from the menu, rdlength symbolic 16 bit,
    k fully symbolic rdata octets (id/flags/class/ttl concrete: as pointer targets they are covered
    by total-short-buffers and decompressor-kernel)"""
    with dnsshim.installed(X.symbolic, step_limit=64 * (k + 40) ** 2):
        X.opaque_str(True)
        sec = X.choose("section", 3)
        owner = X.choose("owner", ["root", "pointer"])
        typ = X.choose("type", type_menu)
        items = [0x12, 0x34, 0x81, 0x80, 0, 1, 0, 1 if sec == 0 else 0, 0, 1 if sec == 1 else 0, 0, 1 if sec == 2 else 0]
        items += [1, X.bv("ql", 8), 0] + [0, 1, 0, 1]
        items += [0] if owner == "root" else [0xC0, 12]
        items += _u_items(typ, 2) + [0, 1, 0, 0, 0, 60]
        rdlen = X.bv("rdlen", 16)
        items += _u_items(rdlen, 2) + list(X.bytes("rd", k))
        m = _decode_total(X, dnsshim.mkbuf(X.symbolic, items), "decode")
        if m is not None:
            X.reach("record-decoded")


# labels chosen to hit every class of the idna codec (concrete octets, real codec)
LABEL_MENU = [b"a", b"xn--mnchen-3ya", b"XN--MNCHEN-3YA", b"xn--a", b"xn--", b"xn--0", b"xn--aa-", b".", b"a.b", b".a", b"a..b",
              b"\xff", b"a\x80", b"-", b"A", b"\x00", b"b" * 63, b"xn--" + b"b" * 59, b"xn--bcher-kva", b"b" * 64]


def h_label_menu(X):
    """question name of 1-2 labels from the nasty-label menu; optionally a record whose rdata is a
    compression pointer to that name (so the decoded text flows into domain_names.pack)"""
    l1 = X.choose("label1", LABEL_MENU)
    l2 = X.choose("label2", [None] + LABEL_MENU[:12])
    rec = X.choose("record", ["none", "CNAME-pointer", "TXT-pointer", "owner-pointer"])
    name = bytes([len(l1)]) + l1 + (bytes([len(l2)]) + l2 if l2 is not None else b"") + b"\x00"
    body = name + b"\x00\x05\x00\x01"
    an = 0
    if rec != "none":
        an = 1
        typ = 16 if rec == "TXT-pointer" else 5
        rdata = b"\xc0\x0c" if rec != "owner-pointer" else b"\x00"
        body += b"\xc0\x0c" + struct.pack("!HHIH", typ, 1, 60, len(rdata)) + rdata
    buf = struct.pack("!HHHHHH", 7, 0x8180, 1, an, 0, 0) + body
    X.note("buffer", buf)
    m = _decode_total(X, buf, "decode-label")
    if m is not None:
        X.reach("label-decoded")


def h_chain_depth(X):
    """a chain of N forward compression pointers ending in the root label, carried in the rdata of an
    unknown-type record and entered from the question name: must decode (name '') or raise struct.error"""
    n = X.choose("pointers", [1, 2, 8, 100, 500, 1200, 4000, 8000])
    chain_off = 12 + 2 + 4 + 1 + 10
    chain = b"".join(struct.pack("!H", 0xC000 | (chain_off + 2 * (i + 1))) for i in range(n)) + b"\x00"
    buf = (struct.pack("!HHHHHH", 7, 0x0100, 1, 1, 0, 0) + struct.pack("!H", 0xC000 | chain_off) + b"\x00\x01\x00\x01"
           + b"\x00" + struct.pack("!HHIH", 65280, 1, 0, len(chain)) + chain)
    X.note("buffer_len", len(buf))
    m = _decode_total(X, buf, "decode-chain", reencode=False)
    if m is not None:
        X.reach("chain-decoded")
        X.check(m.questions[0].name == "", "C25/decode-chain/wrong-name", f"pointer chain decoded to {m.questions[0].name!r}")


# ------------------------------------------------------------------------------------------------
# (iv) decompressor kernel


def h_kernel(X, k):
    """unpack_from_with_compression on k fully symbolic octets from a selected start offset, with a
    fresh cache: terminates; result is (name, consumed) or struct.error; agrees with the reference
    name reader on loops (reference says loop => struct.error) and on the consumed length"""
    from mitmproxy.net.dns import domain_names
    with dnsshim.installed(X.symbolic, step_limit=8 * (k + 2) ** 2):
        X.opaque_str(True)
        start = X.choose("start", k)
        raw = X.bytes("buf", k)
        buf = dnsshim.mkbuf(X.symbolic, list(raw))
        cache = domain_names.cache()
        try:
            name, consumed = domain_names.unpack_from_with_compression(buf, start, cache)
        except struct.error as e:
            X.reach("error")
            if "loop" in str(e):
                X.reach("loop-detected")
            return
        except (symx.Unsupported, symx.Violation):
            raise
        except Exception as e:  # noqa
            X.fail(f"C25/kernel/{type(e).__name__}-escapes", f"{type(e).__name__}: {str(e)[:200]}")
        X.reach("name")
        # the reference reader runs on the same (now path-constrained) octets; its int() calls fork
        # only over values the path still allows
        try:
            labels, end = dnsref.read_name(list(buf), start, content=False)
        except dnsref.RefError as e:
            X.fail("C25/kernel/accepts-malformed", f"mitmproxy decoded a name where the reference reader fails: {e}")
        X.check(consumed == end - start, "C25/kernel/consumed", f"consumed {consumed} octets, reference {end - start}")
        # exactly the labels of the name: a pointer that leads to the root adds no (empty) label -- "b." would not re-encode
        X.check(len(name.split(".")) == len(labels) if labels else name == "", "C25/kernel/labels", f"{name!r} vs {len(labels)} reference labels")


def h_kernel_loop(X, k):
    """selector-built pointer cycles of length 1..k behind 0..2 one-octet labels (label octets symbolic):
    must raise struct.error('...loop'), never recurse forever"""
    from mitmproxy.net.dns import domain_names
    with dnsshim.installed(X.symbolic, step_limit=2000):
        X.opaque_str(True)
        n = X.choose("cycle_len", list(range(1, k + 1)))
        prefix = X.choose("prefix_labels", 3)
        back_to = X.choose("closes_at", ["first-pointer", "start"])
        items = []
        for i in range(prefix):
            items += [1, X.bv(f"l{i}", 7)]
        base = len(items)
        for i in range(n):
            nxt = base + 2 * (i + 1) if i + 1 < n else (base if back_to == "first-pointer" else 0)
            items += [0xC0 | (nxt >> 8), nxt & 0xFF]
        buf = dnsshim.mkbuf(X.symbolic, items)
        try:
            r = domain_names.unpack_from_with_compression(buf, 0, domain_names.cache())
        except struct.error as e:
            # any parse error satisfies the property (total, terminating); a label octet that is itself
            # invalid (e.g. a dot) may legitimately be reported before the cycle is followed
            if "loop" in str(e):
                X.reach("loop-detected")
            return
        except (symx.Unsupported, symx.Violation):
            raise
        except Exception as e:  # noqa
            X.fail(f"C25/kernel/{type(e).__name__}-escapes", f"{type(e).__name__}: {str(e)[:200]}")
        X.fail("C25/kernel/loop-accepted", f"pointer cycle decoded to {r!r}")


# ------------------------------------------------------------------------------------------------
# HTTPS / SVCB records


def h_https_rt(X, nparams, vlen):
    from mitmproxy.net.dns import https_records
    with dnsshim.installed(X.symbolic):
        X.opaque_str(True)
        prio = X.int("priority", -40000, 70000)
        target = X.choose("target", [n for n, _ in NAMES])
        params = {}
        n = X.choose("nparams", nparams + 1)
        for i in range(n):
            key = X.choose(f"key{i}", [0, 1, 3, 5, 255, 65535])
            ln = X.choose(f"vlen{i}", vlen + 1)
            params[key] = dnsshim.mkbuf(X.symbolic, list(X.bytes(f"val{i}", ln)))
        rec = https_records.HTTPSRecord(prio, target, params)
        ok = ((prio >= -32768) & (prio <= 32767)) if X.symbolic else (-32768 <= prio <= 32767)
        try:
            p = https_records.pack(rec)
        except struct.error:
            X.reach("rejected")
            X.check(symx.lnot(ok), "C25/https/in-range-rejected", "pack raised struct.error for an in-range priority")
            return
        X.check(ok, "C25/https/out-of-range-accepted", "pack accepted a priority outside the signed 16-bit range")
        X.reach("packed")
        # RFC 9460 2.2 wire layout, read independently
        it = list(p)
        X.check(it[0] * 256 + it[1] == symx.ite(prio < 0, prio + 65536, prio) if X.symbolic else it[0] * 256 + it[1] == prio % 65536,
                "C25/https/priority-wire", "SvcPriority octets differ")
        labels, pos = dnsref.read_name(it, 2)
        X.check(labels == dict(NAMES)[target], "C25/https/target-wire", f"TargetName on the wire {labels}")
        for key, val in params.items():
            X.check(it[pos] * 256 + it[pos + 1] == key and it[pos + 2] * 256 + it[pos + 3] == len(val), "C25/https/param-wire", "SvcParam header differs")
            X.check(_data_eq(it[pos + 4:pos + 4 + len(val)], val), "C25/https/param-value-wire", "SvcParam value differs")
            pos += 4 + len(val)
        X.check(pos == len(it), "C25/https/length-wire", "trailing octets")
        try:
            r2 = https_records.unpack(p)
        except struct.error as e:
            X.fail("C25/https/unpack-rejects-own-output", f"unpack(pack(r)) raised {e!r}")
        X.check(r2.priority == prio, "C25/https/roundtrip/priority", "priority differs after round trip")
        X.check(r2.target_name == target, "C25/https/roundtrip/target", f"target {r2.target_name!r} != {target!r}")
        X.check(list(r2.params) == list(params), "C25/https/roundtrip/param-keys", f"{list(r2.params)} != {list(params)}")
        for key in params:
            X.check(_data_eq(r2.params[key], params[key]), "C25/https/roundtrip/param-value", f"param {key} differs")


def h_https_total(X, n, with_params=True):
    from mitmproxy.net.dns import https_records
    with dnsshim.installed(X.symbolic):
        X.opaque_str(True)
        shape = X.choose("shape", ["raw", "params"] if with_params else ["raw"])
        if shape == "raw":
            ln = X.choose("len", n + 1)
            items = list(X.bytes("b", ln))
        else:
            # SvcPriority symbolic, root TargetName, then 1..2 SvcParams: key from a menu (dict keys are hashed),
            # length octets and value octets symbolic
            items = list(X.bytes("prio", 2)) + [0]
            for i in range(X.choose("nparams", [1, 2])):
                key = X.choose(f"key{i}", [0, 1, 65535])
                items += [key >> 8, key & 0xFF] + list(X.bytes(f"plen{i}", 2)) + list(X.bytes(f"pval{i}", X.choose(f"pvlen{i}", 3)))
        buf = dnsshim.mkbuf(X.symbolic, items)
        try:
            rec = https_records.unpack(buf)
        except struct.error:
            X.reach("parse-error")
            return
        except (symx.Unsupported, symx.Violation):
            raise
        except Exception as e:  # noqa
            X.fail(f"C25/https/decode/{type(e).__name__}-escapes", f"https_records.unpack raised {type(e).__name__}: {str(e)[:200]}")
        X.reach("decoded")
        try:
            p = https_records.pack(rec)
        except (symx.Unsupported, symx.Violation):
            raise
        except Exception as e:  # noqa
            X.fail(f"C25/https/reencode-raises/{type(e).__name__}", f"{type(e).__name__}: {str(e)[:200]}")
        r2 = https_records.unpack(p)
        X.check(r2.priority == rec.priority and r2.target_name == rec.target_name and list(r2.params) == list(rec.params),
                "C25/https/re-decode-differs", "unpack(pack(unpack(b))) differs from unpack(b)")
        for key in rec.params:
            X.check(_data_eq(r2.params[key], rec.params[key]), "C25/https/re-decode-differs", f"param {key}")


def obligations(tier):
    q = tier == "quick"
    return [
        Concrete("shim-validation", dnsshim.validate_models, bounds="struct model vs struct; idna label model vs the real codec on all 1-/2-octet labels + 12-symbol alphabet up to 5 octets"),
        Symx("header-bits", h_header, bounds="id in [-2^16, 2^17], op_code/rcode in [-32,63], reserved in [-16,31] symbolic (all legal values; every illegal value of one selected field); all 32 flag combinations",
             encoded=ENCODED[:3], must_reach=["packed", "rejected"], stubs=STUBS),
        Symx("roundtrip-record", lambda X: h_rt_record(X, 3 if q else 6),
             bounds=f"1 question + 1 record in any section; owner/question/rdata names from a 4-name menu (root, 'a', IDN, 63-octet label); record kind from {KINDS}; "
                    f"type (opaque kind)/class/ttl symbolic 16/16/32 bit; opaque/TXT/HINFO rdata = 0..{3 if q else 6} fully symbolic octets; MX preference, SRV port, SOA serial (upper 16 bits) symbolic; class/ttl/question type+class/id symbolic for the opaque and CNAME kinds",
             encoded=ENCODED, must_reach=["built"] + [f"kind:{k}" for k in KINDS], stubs=STUBS, parallel_depth=3, budget_s=400 if q else 1200),
        Symx("roundtrip-all-types", lambda X: h_rt_alltypes(X, 3 if q else 4),
             bounds=f"one answer record, TYPE any 16-bit value not name-bearing per RFC 1035/3597, {3 if q else 4} fully symbolic rdata octets",
             encoded=ENCODED, must_reach=["decoded"], stubs=STUBS, parallel_depth=2),
        Symx("roundtrip-structure", lambda X: h_rt_structure(X, 2 if q else 3),
             bounds=f"0..{2 if q else 3} entries in each of the 4 sections (all count combinations), type/class/ttl/1 rdata octet symbolic per record",
             encoded=ENCODED, must_reach=["built", "all-sections-full"], stubs=STUBS, parallel_depth=3, budget_s=400 if q else 1200),
        Symx("bad-names-rejected", h_bad_names, bounds=f"names {BAD_NAMES} in question / owner position", encoded=ENCODED[:1] + ENCODED[3:4], must_reach=["rejected"]),
        Symx("total-short-buffers", lambda X: h_total_short(X, 3 if q else 5),
             bounds=f"every buffer of 12+{3 if q else 5} octets: all body octets symbolic, the four counts each in 0..2 (all 81 combinations), id from a 4-entry menu (as pointer target: root, self-loop, '.', pointer to body), flags 0x0100; "
                    "all 14-bit pointer targets incl. self/forward/into the header",
             encoded=ENCODED, must_reach=["parse-error"], stubs=STUBS, parallel_depth=4, budget_s=400 if q else 1200),
        Symx("total-record-buffers", lambda X: h_total_record(X, 3 if q else 5, RTYPES_QUICK if q else RTYPES_THOROUGH),
             bounds=f"header + question with one symbolic label octet + one record slot in any section: owner root / pointer, type in {RTYPES_QUICK if q else RTYPES_THOROUGH}, "
                    f"rdlength symbolic 16 bit, {3 if q else 5} fully symbolic rdata octets (all pointer targets)",
             encoded=ENCODED, must_reach=["parse-error", "decoded", "record-decoded", "re-decoded"], stubs=STUBS, parallel_depth=4, budget_s=400 if q else 1200),
        Symx("decode-label-menu", h_label_menu, bounds=f"question name of 1-2 labels from a {len(LABEL_MENU)}-label menu covering the idna codec classes (ACE valid/invalid, dots, non-ASCII, 63 octets) "
             "x {no record, CNAME/TXT rdata pointing at it, owner pointing at it}; concrete octets, real codec",
             encoded=ENCODED, must_reach=["label-decoded", "parse-error"], parallel_depth=2),
        Symx("pointer-chain-depth", h_chain_depth, bounds="forward pointer chains of 1..8000 pointers (selector menu), message <= 16 kB", encoded=ENCODED[1:3] + ENCODED[6:7],
             must_reach=["chain-decoded"]),
        Symx("decompressor-kernel", lambda X: h_kernel(X, 7 if q else 9),
             bounds=f"unpack_from_with_compression on every buffer of {7 if q else 9} symbolic octets from every start offset, fresh cache",
             encoded=ENCODED[6:8], must_reach=["name", "error", "loop-detected"], stubs=STUBS, parallel_depth=3, budget_s=400 if q else 1200),
        Symx("decompressor-loops", lambda X: h_kernel_loop(X, 4 if q else 8),
             bounds=f"pointer cycles of length 1..{4 if q else 8}, 0..2 symbolic 1-octet labels before the first pointer, pointer high octets symbolic",
             encoded=ENCODED[6:8], must_reach=["loop-detected"], stubs=STUBS),
        Symx("https-roundtrip", lambda X: h_https_rt(X, 2, 2 if q else 3),
             bounds=f"priority in [-40000,70000] symbolic; target from the 4-name menu; 0..2 params, keys from {{0,1,3,5,255,65535}}, values 0..{2 if q else 3} symbolic octets",
             encoded=ENCODED_HTTPS, must_reach=["packed", "rejected"], stubs=STUBS, parallel_depth=3),
        Symx("https-total", lambda X: h_https_total(X, 3 if q else 5, with_params=not q), bounds="https_records.unpack on every buffer of 0..3 (thorough 0..5) symbolic octets, and (thorough only) on priority(symbolic)+root target+1..2 params with menu keys, symbolic length octets and 0..2 symbolic value octets",
             encoded=ENCODED_HTTPS + ENCODED[5:6], must_reach=["parse-error", "decoded"], stubs=STUBS, parallel_depth=3, budget_s=400 if q else 1200),
    ]
